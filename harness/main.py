import argparse
import importlib
import os
import sys

from . import core


def main():
    ap = argparse.ArgumentParser()
    ap.add_argument("prop")
    ap.add_argument("--tier", default=os.environ.get("VERIF_TIER", "quick"))
    ap.add_argument("--replay", default=None)
    a = ap.parse_args()
    seed = int(os.environ.get("VERIF_SEED", "0") or 0)
    tier = a.tier if a.tier in ("quick", "thorough") else "quick"
    sys.path.insert(0, core.REPO)
    mod = importlib.import_module("harness." + a.prop.lower())
    rc = core.run_check(mod, a.prop, tier, seed, a.replay)
    sys.exit(rc)


if __name__ == "__main__":
    main()
