"""Type-directed random construction of constraint programs THROUGH THE REAL DSL (dunders, reflected forms,
helper constructors, literals, nested lists), for C01/C02/C03/C12.

Every construct is built twice: the real object (through the DSL under test) and a SHADOW meaning -- a plain Python
closure `asg -> value` computed from the intended meaning of the construction step itself (count_true = number of true
items, fold_or = disjunction, ...).  The oracle of the failing-input searches is the shadow, so a defect inside a DSL
constructor (which would also corrupt the tree) is visible."""
from . import exprio


def _name(v):
    from cspuz.expr import BoolVar
    return (f"b{v.id}" if isinstance(v, BoolVar) else f"i{v.id}")


class Gen:
    def __init__(self, rng, solver, bools, ints, degenerate=0.15):
        self.rng = rng
        self.s = solver
        self.bools = bools
        self.ints = ints
        self.deg = degenerate

    # every method returns (real_object, shadow) ----------------------------------------------------------
    def lit_int(self):
        k = self.rng.randint(-3, 3)
        return k, (lambda a, k=k: k)

    def var_int(self):
        v = self.rng.choice(self.ints)
        return v, (lambda a, n=_name(v): a[n])

    def var_bool(self):
        v = self.rng.choice(self.bools)
        return v, (lambda a, n=_name(v): a[n])

    def int_expr(self, d, allow_lit=True):
        import cspuz
        r = self.rng
        if d <= 0 or r.random() < 0.25:
            if allow_lit and r.random() < 0.25:
                return self.lit_int()
            if self.ints:
                return self.var_int()
            if self.bools:
                b, sb = self.var_bool()
                return cspuz.count_true(b), (lambda a, sb=sb: 1 if sb(a) else 0)
            return cspuz.count_true(), (lambda a: 0)
        k = r.random()
        if k < 0.12:
            x, sx_ = self.int_expr(d - 1, False)
            return -x, (lambda a: -sx_(a))
        if k < 0.30:
            x, sx_ = self.int_expr(d - 1, False)
            y, sy = self.int_expr(d - 1)
            return x + y, (lambda a: sx_(a) + sy(a))
        if k < 0.38:
            x, sx_ = self.lit_int()
            y, sy = self.int_expr(d - 1, False)
            return x + y, (lambda a: sx_(a) + sy(a))
        if k < 0.50:
            x, sx_ = self.int_expr(d - 1, False)
            y, sy = self.int_expr(d - 1)
            return x - y, (lambda a: sx_(a) - sy(a))
        if k < 0.56:
            x, sx_ = self.lit_int()
            y, sy = self.int_expr(d - 1, False)
            return x - y, (lambda a: sx_(a) - sy(a))
        if k < 0.70:
            c, sc = self.bool_expr(d - 1, False)
            t, st = self.int_expr(d - 1)
            f, sf = self.int_expr(d - 1)
            return c.cond(t, f), (lambda a: st(a) if sc(a) else sf(a))
        if k < 0.88:
            nest, sems = self.bool_nest(d - 1)
            return cspuz.count_true(nest), (lambda a, sems=sems: sum(1 for s in sems if s(a)))
        if k < 0.94:
            return cspuz.count_true(), (lambda a: 0)
        x, sx_ = self.int_expr(d - 1, False)
        return x + 0, (lambda a: sx_(a))

    def bool_nest(self, d):
        """A nested argument list for the aggregate helpers; returns (nest, flat list of shadows)."""
        r = self.rng
        n = r.choice([0, 1, 1, 2, 3, 4])
        items, sems = [], []
        for _ in range(n):
            q = r.random()
            if q < 0.2:
                b = r.random() < 0.5
                items.append(b)
                sems.append(lambda a, b=b: b)
            elif q < 0.35:
                sub = [self.bool_expr(d, True) for _ in range(r.randint(0, 2))]
                items.append([x for x, _ in sub])
                sems += [s for _, s in sub]
            else:
                x, s = self.bool_expr(d, True)
                items.append(x)
                sems.append(s)
        if r.random() < 0.1:   # constant-only forms
            items = [r.random() < 0.5 for _ in range(r.randint(1, 3))]
            sems = [(lambda a, b=b: b) for b in items]
        return items, sems

    def bool_expr(self, d, allow_lit=True):
        import cspuz
        from cspuz.constraints import then as _then
        r = self.rng
        if d <= 0 or r.random() < 0.2:
            if allow_lit and r.random() < 0.2:
                b = r.random() < 0.5
                return b, (lambda a, b=b: b)
            if self.bools:
                return self.var_bool()
            x, sx_ = self.int_expr(0, False)
            k, sk = self.lit_int()
            return x == k, (lambda a: sx_(a) == sk(a))
        k = r.random()
        if k < 0.08:
            x, sx_ = self.bool_expr(d - 1, False)
            return ~x, (lambda a: not sx_(a))
        if k < 0.36:
            if k < 0.30:
                x, sx_ = self.int_expr(d - 1, False)
                y, sy = self.int_expr(d - 1)
            else:
                x, sx_ = self.lit_int()
                y, sy = self.int_expr(d - 1, False)
            op = r.choice(["==", "!=", "<=", "<", ">=", ">"])
            obj = {"==": lambda: x == y, "!=": lambda: x != y, "<=": lambda: x <= y, "<": lambda: x < y,
                   ">=": lambda: x >= y, ">": lambda: x > y}[op]()
            sem = {"==": lambda a: sx_(a) == sy(a), "!=": lambda a: sx_(a) != sy(a), "<=": lambda a: sx_(a) <= sy(a),
                   "<": lambda a: sx_(a) < sy(a), ">=": lambda a: sx_(a) >= sy(a), ">": lambda a: sx_(a) > sy(a)}[op]
            return obj, sem
        if k < 0.58:
            if k < 0.52:
                x, sx_ = self.bool_expr(d - 1, False)
                y, sy = self.bool_expr(d - 1)
                ops = ["&", "|", "==", "!=", "^", "then"]
            else:
                b = r.random() < 0.5
                x, sx_ = b, (lambda a, b=b: b)
                y, sy = self.bool_expr(d - 1, False)
                ops = ["&", "|", "^"]
            op = r.choice(ops)
            obj = {"&": lambda: x & y, "|": lambda: x | y, "==": lambda: x == y, "!=": lambda: x != y, "^": lambda: x ^ y,
                   "then": lambda: x.then(y)}[op]()
            sem = {"&": lambda a: sx_(a) and sy(a), "|": lambda a: sx_(a) or sy(a), "==": lambda a: sx_(a) == sy(a),
                   "!=": lambda a: sx_(a) != sy(a), "^": lambda a: sx_(a) != sy(a), "then": lambda a: (not sx_(a)) or sy(a)}[op]
            return obj, sem
        if k < 0.68:
            nest, sems = self.bool_nest(d - 1)
            return cspuz.fold_or(nest), (lambda a, sems=sems: any(s(a) for s in sems))
        if k < 0.78:
            nest, sems = self.bool_nest(d - 1)
            return cspuz.fold_and(nest), (lambda a, sems=sems: all(s(a) for s in sems))
        if k < 0.88:
            n = r.choice([0, 1, 2, 2, 3, 4])
            parts = [self.int_expr(d - 1) for _ in range(n)]
            items = [x for x, _ in parts]
            sems = [s for _, s in parts]
            if r.random() < 0.3:
                items = [items[: len(items) // 2], items[len(items) // 2:]]
            return cspuz.alldifferent(items), (lambda a, sems=sems: len({s(a) for s in sems}) == len(sems))
        if k < 0.94:
            x, sx_ = self.bool_expr(d - 1, False)
            y, sy = self.bool_expr(d - 1)
            return _then(x, y), (lambda a: (not sx_(a)) or sy(a))
        if r.random() < 0.5:
            return cspuz.fold_or(), (lambda a: False)
        return cspuz.fold_and(), (lambda a: True)


def post(solver, gen, rng, depth):
    """Post one (possibly nested) ensure; records the shadow of every flattened item in solver._verif_sems."""
    c, sc = gen.bool_expr(rng.randint(0, depth))
    r = rng.random()
    if r < 0.3:
        c2, sc2 = gen.bool_expr(1)
        # every argument form `ensure` documents: nested lists, tuples, several positional arguments, and ONE-SHOT iterables
        # (generator expressions, iterators, map objects) at top level or nested
        form = rng.randrange(7)
        if hasattr(solver, "_verif_posts"):
            solver._verif_posts.append([form, [exprio.pexpr(c), exprio.pexpr(c2)]])
        if form == 0:
            solver.ensure([c, [c2]])
        elif form == 1:
            solver.ensure((c, (c2,)))
        elif form == 2:
            solver.ensure(c, c2)
        elif form == 3:
            solver.ensure(x for x in [c, c2])
        elif form == 4:
            solver.ensure(iter([c, c2]))
        elif form == 5:
            solver.ensure(map(lambda x: x, [c, c2]))
        else:
            solver.ensure([c, (x for x in [c2])])
        solver._verif_sems += [sc, sc2]
    else:
        if hasattr(solver, "_verif_posts"):
            solver._verif_posts.append([-1, [exprio.pexpr(c)]])
        solver.ensure(c)
        solver._verif_sems.append(sc)


def _corner_specs():
    """(declarations, [(build(vars) -> real constraint, shadow(asg) -> bool)]): deterministic sessions around the corners that
    random sessions reach only now and then -- aggregates over Python literals only, constant constraints, constraints that
    differ only in the sign of a literal, duplicates, singleton domains.  b = Boolean, (lo, hi) = integer."""
    import cspuz
    ct, fo, fa, ad = cspuz.count_true, cspuz.fold_or, cspuz.fold_and, cspuz.alldifferent
    T = lambda a: True
    specs = [
        (["b"], [(lambda v: ct(True, False, True) == 2, T)]),
        (["b"], [(lambda v: ct(True) == 0, lambda a: False)]),
        (["b"], [(lambda v: ct([True, [True, False]], True) >= 3, T), (lambda v: v[0], lambda a: a["b0"])]),
        (["b"], [(lambda v: ct(v[0], True) == 1, lambda a: not a["b0"])]),
        (["b"], [(lambda v: ct(True, True) == ct(v[0], True, False) + 1, lambda a: not a["b0"])]),
        (["b"], [(lambda v: fo(), lambda a: False)]),
        (["b"], [(lambda v: fa(), T), (lambda v: ~v[0], lambda a: not a["b0"])]),
        (["b"], [(lambda v: fo(False, [False]), lambda a: False)]),
        (["b"], [(lambda v: fa(True, [True, True]) & v[0], lambda a: a["b0"])]),
        (["b"], [(lambda v: ad(1, 2, 3), T)]),
        (["b"], [(lambda v: ad(1, 2, 1), lambda a: False)]),
        (["b"], [(lambda v: ad(), T), (lambda v: ad(5), T)]),
        (["b"], [(lambda v: True, T), (lambda v: v[0], lambda a: a["b0"])]),
        (["b"], [(lambda v: v[0] | ~v[0], T), (lambda v: False, lambda a: False)]),
        ([(-5, 5)], [(lambda v: v[0] == 3, lambda a: a["i0"] == 3), (lambda v: v[0] == -3, lambda a: a["i0"] == -3)]),
        ([(-1, 1)], [(lambda v: v[0] != 1, lambda a: a["i0"] != 1), (lambda v: v[0] != 0, lambda a: a["i0"] != 0),
                     (lambda v: v[0] != -1, lambda a: a["i0"] != -1)]),
        ([(-4, 4)], [(lambda v: v[0] >= -3, lambda a: a["i0"] >= -3), (lambda v: v[0] >= 3, lambda a: a["i0"] >= 3),
                     (lambda v: v[0] != 3, lambda a: a["i0"] != 3)]),
        (["b", (-3, 3), (-3, 3)], [(lambda v: v[0].then(v[1] + 2 >= v[2]), lambda a: (not a["b0"]) or a["i1"] + 2 >= a["i2"]),
                                   (lambda v: v[0].then(v[1] + (-2) >= v[2]), lambda a: (not a["b0"]) or a["i1"] - 2 >= a["i2"]),
                                   (lambda v: v[0], lambda a: a["b0"]), (lambda v: v[2] == v[1], lambda a: a["i2"] == a["i1"])]),
        ([(0, 3)], [(lambda v: v[0] >= 1, lambda a: a["i0"] >= 1), (lambda v: v[0] >= 1, lambda a: a["i0"] >= 1),
                    (lambda v: v[0] <= 1, lambda a: a["i0"] <= 1)]),
        ([(2, 2), (298, 298)], [(lambda v: v[0] + v[1] == 300, lambda a: a["i0"] + a["i1"] == 300)]),
        (["b", (0, 2)], [(lambda v: v[0].cond(1, 2) == v[1], lambda a: (1 if a["b0"] else 2) == a["i1"]),
                         (lambda v: cspuz.cond(v[0], v[1], 0) >= 1, lambda a: (a["i1"] if a["b0"] else 0) >= 1)]),
    ]
    return specs


N_CORNERS = len(_corner_specs())


def corner_session(k):
    """The k-th deterministic corner session (same return type as random_session)."""
    from cspuz import Solver
    decls, items = _corner_specs()[k % N_CORNERS]
    s = Solver()
    s._verif_sems = []
    s._verif_posts = []
    vs = []
    for d in decls:
        vs.append(s.bool_var() if d == "b" else s.int_var(d[0], d[1]))
    for build, shadow in items:
        c = build(vs)
        s._verif_posts.append([-1, [exprio.pexpr(c)]])
        s.ensure(c)
        s._verif_sems.append(shadow)
    from cspuz.expr import BoolVar
    return s, [v for v in vs if isinstance(v, BoolVar)], [v for v in vs if not isinstance(v, BoolVar)]


def _bigint_specs():
    """(declarations, [(build(vars) -> real constraint, shadow(asg) -> bool)], key positions or None = all): deterministic
    sessions whose FACTS are integers outside CPython's small-int cache (-5..256) -- every solver reply brings such a value as
    a fresh object -- next to other keys that stay undetermined (so that a refinement loop sees several satisfiable replies),
    at the edges of the cache (256/257, -5/-6), as the only fact, with keys next to non-keys, and unsatisfiable."""
    specs = [
        # x in [298,302], n in [0,9], a free Boolean, a free m in [0,2]; n == 7, x - n == 293  (x = 300)
        ([(298, 302), (0, 9), "b", (0, 2)],
         [(lambda v: v[1] == 7, lambda a: a["i1"] == 7), (lambda v: v[0] - v[1] == 293, lambda a: a["i0"] - a["i1"] == 293)], None),
        ([(99998, 100003), "b", (0, 1)], [(lambda v: v[0] == 100000, lambda a: a["i0"] == 100000)], None),
        (["b", (-303, -298), (-1, 1)],
         [(lambda v: v[1] + 300 == 0, lambda a: a["i1"] + 300 == 0), (lambda v: v[2] != 0, lambda a: a["i2"] != 0)], None),
        ([(257, 259), (1000, 1002), (256, 258), "b"],
         [(lambda v: v[0] >= 259, lambda a: a["i0"] >= 259), (lambda v: v[2] == 257, lambda a: a["i2"] == 257),
          (lambda v: v[3] == (v[1] == 1001), lambda a: a["b3"] == (a["i1"] == 1001))], None),
        # keys next to non-keys: the undetermined non-key n must not matter, the free Boolean key keeps the loop going
        ([(298, 302), (0, 9), "b", "b"], [(lambda v: v[0] == 300, lambda a: a["i0"] == 300), (lambda v: v[3], lambda a: a["b3"])], [0, 2]),
        ([(298, 302), (0, 9), "b"], [(lambda v: v[0] - v[1] == 293, lambda a: a["i0"] - a["i1"] == 293),
                                    (lambda v: v[1] >= 7, lambda a: a["i1"] >= 7), (lambda v: v[1] <= 7, lambda a: a["i1"] <= 7)], [0, 2]),
        # the edges of the cache
        ([(255, 258), (255, 258), (-7, -4), (-7, -4), "b"],
         [(lambda v: v[0] == 256, lambda a: a["i0"] == 256), (lambda v: v[1] == 257, lambda a: a["i1"] == 257),
          (lambda v: v[2] == -6, lambda a: a["i2"] == -6), (lambda v: v[3] == -5, lambda a: a["i3"] == -5)], None),
        # a large fact forced only through other variables, several undetermined keys (several rounds of the loop)
        (["b", "b", (998, 1003), (0, 3), (0, 3)],
         [(lambda v: v[2] == v[0].cond(1000, 1000) + 0, lambda a: a["i2"] == 1000),
          (lambda v: v[3] + v[4] == 3, lambda a: a["i3"] + a["i4"] == 3)], None),
        # large values on undetermined keys only / a large singleton domain / everything determined / unsatisfiable
        ([(1000, 1002), (-304, -302), "b"], [(lambda v: v[0] + v[1] >= 698, lambda a: a["i0"] + a["i1"] >= 698), (lambda v: v[2], lambda a: a["b2"])], None),
        ([(100000, 100000), (0, 2), "b"], [(lambda v: v[2].then(v[1] >= 1), lambda a: (not a["b2"]) or a["i1"] >= 1)], None),
        ([(298, 302), "b", "b"], [(lambda v: v[0] == 301, lambda a: a["i0"] == 301), (lambda v: v[1] & ~v[2], lambda a: a["b1"] and not a["b2"])], None),
        ([(300, 301), "b"], [(lambda v: v[0] < 300, lambda a: a["i0"] < 300)], None),
    ]
    return specs


N_BIGINT = len(_bigint_specs())


def bigint_session(k):
    """The k-th deterministic large-value session: (solver, bools, ints) like random_session; the variables meant to be the
    answer keys are in solver._verif_keys (not yet registered)."""
    from cspuz import Solver
    from cspuz.expr import BoolVar
    decls, items, keys = _bigint_specs()[k % N_BIGINT]
    s = Solver()
    s._verif_sems = []
    s._verif_posts = []
    vs = [s.bool_var() if d == "b" else s.int_var(d[0], d[1]) for d in decls]
    for build, shadow in items:
        c = build(vs)
        s._verif_posts.append([-1, [exprio.pexpr(c)]])
        s.ensure(c)
        s._verif_sems.append(shadow)
    s._verif_keys = [vs[i] for i in (range(len(vs)) if keys is None else keys)]
    return s, [v for v in vs if isinstance(v, BoolVar)], [v for v in vs if not isinstance(v, BoolVar)]


LARGE_KINDS = ["forced", "chain", "mixed"]
LARGE_CASES = [("forced", 513), ("chain", 520), ("mixed", 1030), ("forced", 1030)]


def large_session(kind, n):
    """A LARGE program (n Boolean variables and a few integers; brute force is out of the question) whose exact facts are known
    BY CONSTRUCTION.  Returns (solver, facts, text): the answer keys are registered, facts[i] is the value variable i takes in
    every solution (None = two solutions differ on it), text describes the program.  Every program is satisfiable.
      forced : b0..b(n-4) posted as unit constraints (true); the last three Booleans free except b(n-3) | b(n-2); then, declared
               after them, t in [0,7] with 2 <= t <= 5 (undetermined) and w in [295,305] with w == 300; every variable a key
      chain  : b0 posted, b(i) == b(i+1) for i < n-4 (all true through the chain, posted from the far end backwards); the last
               three only tied to each other (b(n-3) == b(n-2), b(n-2) != b(n-1): undetermined); x0 == x1 == ... == x4 in [0,3] with
               x0 free (undetermined), y in [0,3] with y == 2; every variable a key
      mixed  : position i is an integer in [0,2] when i % 7 == 3, else a Boolean; Booleans are forced to (i % 2 == 0), integers to
               1 -- except the positions 5, 300, 511, 512, 710 and n-1, which stay free; keys are the positions with i % 3 != 1"""
    from cspuz import Solver
    s = Solver()
    facts = []
    if kind == "forced":
        bs = [s.bool_var() for _ in range(n)]
        for b in bs[:n - 3]:
            s.ensure(b)
        s.ensure(bs[n - 3] | bs[n - 2])
        t = s.int_var(0, 7)
        w = s.int_var(295, 305)
        s.ensure(t >= 2, t <= 5)
        s.ensure(w == 300)
        s.add_answer_key(bs)
        s.add_answer_key(t, w)
        facts = [True] * (n - 3) + [None] * 4 + [300]
        text = (f"{n} Boolean keys b0..b{n-1}: ensure(b_i) for i < {n-3}, ensure(b{n-3} | b{n-2}); then t = int_var(0,7) with 2 <= t <= 5 "
                f"and w = int_var(295,305) with w == 300; all {n+2} variables are answer keys")
    elif kind == "chain":
        bs = [s.bool_var() for _ in range(n)]
        xs = [s.int_var(0, 3) for _ in range(5)]
        y = s.int_var(0, 3)
        for i in range(n - 5, -1, -1):
            s.ensure(bs[i] == bs[i + 1])
        s.ensure(bs[0])
        s.ensure(bs[n - 3] == bs[n - 2], bs[n - 2] != bs[n - 1])
        for i in range(4):
            s.ensure(xs[i] == xs[i + 1])
        s.ensure(y == 2)
        s.add_answer_key(bs, xs, y)
        facts = [True] * (n - 3) + [None] * 3 + [None] * 5 + [2]
        text = (f"{n} Boolean keys: ensure(b0), b_i == b_(i+1) for i < {n-4}; b{n-3} == b{n-2}, b{n-2} != b{n-1}; five integers in [0,3] "
                f"chained by equalities (free), y in [0,3] with y == 2; all {n+6} variables are answer keys")
    elif kind == "mixed":
        free = {5, 300, 511, 512, 710, n - 1}
        vs = []
        for i in range(n):
            vs.append(s.int_var(0, 2) if i % 7 == 3 else s.bool_var())
        for i, v in enumerate(vs):
            if i in free:
                facts.append(None)
            elif i % 7 == 3:
                s.ensure(v == 1)
                facts.append(1)
            elif i % 2 == 0:
                s.ensure(v)
                facts.append(True)
            else:
                s.ensure(~v)
                facts.append(False)
        s.add_answer_key([v for i, v in enumerate(vs) if i % 3 != 1])
        text = (f"{n} variables (an integer in [0,2] where i % 7 == 3, else a Boolean); Booleans forced to (i % 2 == 0), integers to 1, "
                f"except the free positions {sorted(p for p in free if p < n)}; answer keys = positions with i % 3 != 1")
    else:
        raise ValueError(kind)
    return s, facts, text


MEDIUM_FORMS = ["count_eq", "count_ge", "add_cond", "fold_or", "fold_and", "alldiff"]
MEDIUM_NS = range(30, 261)


def medium_session(n, form, sat):
    """A MEDIUM-size session (n variables, brute force is out of the question) whose models are known BY CONSTRUCTION: all
    variables but one or two are pinned by unit constraints and ONE constraint goes over all n of them through an n-ary form.
    Returns (solver, bools, ints); solver._verif_sems = the shadow closures, solver._verif_models = the complete list of models
    (empty when sat=False), solver._verif_point = the first model (or, when unsatisfiable, the pinned values with the free
    positions filled in), solver._verif_nary = position of the n-ary constraint, solver._verif_text = description.
    Free positions p = 5n/13 and q = 11n/13; position i is pinned to (i % 3 != 1); T = number of pinned-true positions.
      count_eq : count_true(xs) == T+1 (two models: exactly one of p, q)           | == T+3 (unsatisfiable)
      count_ge : count_true(xs) >= T+2 (one model: p and q)                        | >= T+3
      add_cond : IntExpr(ADD, [x.cond(1, 0) for x in xs]) <= T (one model: neither)| < T
      fold_or  : q pinned too; operands ~x_i / x_i all false by the pins, x_p      | p pinned false as well
      fold_and : q pinned too; operands x_i / ~x_i all true by the pins, ~x_p      | p pinned true as well
      alldiff  : n integers in [0, n-1], v_i == n-1-i pinned, alldifferent(vs) (two models: p, q take the two missing values
                 either way round)                                                  | v_p pinned to the value of v_(p+1)"""
    import cspuz
    from cspuz import Solver
    from cspuz.expr import IntExpr, Op
    s = Solver()
    s._verif_sems = []
    p, q = (5 * n) // 13, (11 * n) // 13
    pin = [i % 3 != 1 for i in range(n)]

    def ensure(c, shadow):
        s.ensure(c)
        s._verif_sems.append(shadow)
    if form == "alldiff":
        vs = list(s.int_array(n, 0, n - 1)) if n % 2 else [s.int_var(0, n - 1) for _ in range(n)]
        nm = [f"i{v.id}" for v in vs]
        base = {}
        for i, v in enumerate(vs):
            if i in (p, q):
                continue
            ensure(v == n - 1 - i, lambda a, k=nm[i], val=n - 1 - i: a[k] == val)
            base[nm[i]] = n - 1 - i
        if not sat:
            ensure(vs[p] == n - 2 - p, lambda a, k=nm[p], val=n - 2 - p: a[k] == val)
        ensure(cspuz.alldifferent(vs), lambda a: len(set(a[k] for k in nm)) == n)
        models = []
        if sat:
            for vp, vq in ((n - 1 - q, n - 1 - p), (n - 1 - p, n - 1 - q)):      # in the order of the plain product
                models.append(dict(base, **{nm[p]: vp, nm[q]: vq}))
        s._verif_models = [{k: m[k] for k in nm} for m in models]
        s._verif_point = s._verif_models[0] if models else {k: dict(base, **{nm[p]: n - 2 - p, nm[q]: n - 1 - q})[k] for k in nm}
        s._verif_nary = len(s.constraints) - 1
        s._verif_text = f"medium:{form}:n={n}:{'sat' if sat else 'unsat'}"
        return s, [], vs
    xs = list(s.bool_array(n)) if n % 2 else [s.bool_var() for _ in range(n)]
    nm = [f"b{v.id}" for v in xs]
    free = (p, q) if form in ("count_eq", "count_ge", "add_cond") else (p,)
    base = {}
    for i, x in enumerate(xs):
        if i in free:
            continue
        if pin[i]:
            ensure(x, lambda a, k=nm[i]: a[k])
        else:
            ensure(~x, lambda a, k=nm[i]: not a[k])
        base[nm[i]] = pin[i]
    T = sum(1 for i in range(n) if pin[i] and i not in free)
    cnt = lambda a: sum(1 for k in nm if a[k])
    if form == "count_eq":
        k = T + 1 if sat else T + 3
        ensure(cspuz.count_true(xs) == k, lambda a: cnt(a) == k)
        frees = [(False, True), (True, False)]
    elif form == "count_ge":
        k = T + 2 if sat else T + 3
        ensure(cspuz.count_true(xs) >= k, lambda a: cnt(a) >= k)
        frees = [(True, True)]
    elif form == "add_cond":
        e = IntExpr(Op.ADD, [x.cond(1, 0) for x in xs])
        if sat:
            ensure(e <= T, lambda a: cnt(a) <= T)
        else:
            ensure(e < T, lambda a: cnt(a) < T)
        frees = [(False, False)]
    elif form == "fold_or":
        if not sat:
            ensure(~xs[p], lambda a: not a[nm[p]])
        ops = [xs[i] if i == p else (~xs[i] if pin[i] else xs[i]) for i in range(n)]
        ensure(cspuz.fold_or(ops), lambda a: any((a[nm[i]] if i == p else (a[nm[i]] != pin[i])) for i in range(n)))
        frees = [(True,)]
    elif form == "fold_and":
        if not sat:
            ensure(xs[p], lambda a: a[nm[p]])
        ops = [~xs[i] if i == p else (xs[i] if pin[i] else ~xs[i]) for i in range(n)]
        ensure(cspuz.fold_and(ops), lambda a: all(((not a[nm[i]]) if i == p else (a[nm[i]] == pin[i])) for i in range(n)))
        frees = [(False,)]
    else:
        raise ValueError(form)
    models = []
    if sat:
        for fv in frees:
            m = dict(base, **{nm[i]: val for i, val in zip(free, fv)})
            models.append({k: m[k] for k in nm})
    s._verif_models = models
    s._verif_point = models[0] if models else {k: dict({nm[i]: pin[i] for i in range(n)}, **base)[k] for k in nm}
    s._verif_nary = len(s.constraints) - 1
    s._verif_text = f"medium:{form}:n={n}:{'sat' if sat else 'unsat'}"
    return s, xs, []


def scalable_models(names, doms, trees, ev, or_op, and_op, limit=300000):
    """All models of a program that is too large for the plain product of its domains but is mostly decided by propagation:
    (1) domains are narrowed to a fixpoint with every constraint that mentions a single undecided variable (evaluated, not
    pattern-matched: `ev(tree, assignment)` is the caller's evaluator); (2) the remaining variables are enumerated (OverflowError
    above `limit` combinations) against the constraints that mention them, where the decided parts of top-level disjunctions /
    conjunctions (`or_op` / `and_op`) are evaluated once.  The models come in the order of the plain product."""
    import itertools
    nameset = set(names)
    dom = {nm: list(d) for nm, d in zip(names, doms)}

    def mentioned(t, acc):
        if isinstance(t, list):
            for x in t[1:]:
                mentioned(x, acc)
        elif isinstance(t, str) and t in nameset:
            acc.add(t)
        return acc
    uses = [sorted(mentioned(t, set())) for t in trees]
    fixed = {nm: d[0] for nm, d in dom.items() if len(d) == 1}
    done = [False] * len(trees)
    by_var = {}
    for k, u in enumerate(uses):
        for nm in u:
            by_var.setdefault(nm, []).append(k)
    queue = list(range(len(trees)))[::-1]
    while queue:
        k = queue.pop()
        if done[k]:
            continue
        t = trees[k]
        open_ = [nm for nm in uses[k] if nm not in fixed]
        if len(open_) > 1:
            continue                                  # looked at again when one of its variables gets decided
        done[k] = True
        if not open_:
            if ev(t, fixed) is not True:
                return []
            continue
        nm = open_[0]
        asg = {u: fixed[u] for u in uses[k] if u in fixed}
        keep = []
        for val in dom[nm]:
            asg[nm] = val
            if ev(t, asg) is True:
                keep.append(val)
        if not keep:
            return []
        dom[nm] = keep
        if len(keep) == 1:
            fixed[nm] = keep[0]
            queue += [j for j in by_var[nm] if not done[j]]
    total = 1
    for nm in names:
        total *= len(dom[nm])
        if total > limit:
            raise OverflowError

    def fold(t):
        """(True, value) when t mentions no open variable, else (False, closure over a full assignment)"""
        if not any(nm not in fixed for nm in mentioned(t, set())):
            return True, ev(t, fixed)
        if isinstance(t, list) and t[0] in (or_op, and_op):
            absorbing = t[0] == or_op
            dyn = []
            for x in t[1:]:
                const, val = fold(x)
                if not const:
                    dyn.append(val)
                elif val is absorbing:
                    return True, absorbing
                elif val is not (not absorbing):
                    return False, (lambda a, t=t: ev(t, a))      # not a plain truth value: leave it to the evaluator
            if absorbing:
                return False, (lambda a, dyn=dyn: any(f(a) is True for f in dyn))
            return False, (lambda a, dyn=dyn: all(f(a) is True for f in dyn))
        return False, (lambda a, t=t: ev(t, a))
    checks = []
    for k, t in enumerate(trees):
        if done[k]:
            continue
        const, val = fold(t)
        if const:
            if val is not True:
                return []
        else:
            checks.append(val)
    out = []
    for combo in itertools.product(*[dom[nm] for nm in names]):
        asg = dict(zip(names, combo))
        if all(f(asg) is True for f in checks):
            out.append(asg)
    return out


DECL_FAILURES = []


def take_decl_failures(ctx, prop):
    """Declarations that raised although their arguments were valid: reported as disagreements and as concrete findings."""
    from .core import Finding
    seen = sorted(set(DECL_FAILURES))
    del DECL_FAILURES[:]
    for what in seen[:3]:
        ctx.count("declaration-raised")
        ctx.disagree("declaration-raised", what=what)
        if not hasattr(ctx, "concrete"):
            ctx.concrete = []
        ctx.concrete.append(Finding("declare:raises", what + " -- a variable declaration with valid arguments must succeed", {"what": what}))


def random_session(rng, max_bools=3, max_ints=3, depth=3, nconstraints=(1, 4), dom=(-2, 3)):
    """Returns (solver, bools, ints) with constraints already posted (shadows in solver._verif_sems)."""
    from cspuz import Solver
    s = Solver()
    s._verif_sems = []
    s._verif_posts = []      # [ensure form, [printed items]] in posting order: the calls as made, for replays
    nb = rng.randint(0, max_bools)

    def declare(what, fn, *a):
        # a declaration with valid arguments (lo <= hi, non-negative sizes) must succeed: a raise is recorded as a failing input
        try:
            return fn(*a)
        except Exception as e:
            DECL_FAILURES.append("Solver().%s%r raised %s: %s" % (what, a, type(e).__name__, str(e)[:80]))
            raise
    # variables are declared one by one or through the array forms (1-D, k x 1, 1 x k), singleton domains included
    if nb and rng.random() < 0.3:
        bools = list(declare("bool_array", s.bool_array, rng.choice([nb, (nb, 1), (1, nb)])))
    else:
        bools = [declare("bool_var", s.bool_var) for _ in range(nb)]
    ints = []
    ni = rng.randint(0 if bools else 1, max_ints)
    if ni and rng.random() < 0.25:
        lo = rng.randint(dom[0], dom[1])
        hi = lo if rng.random() < 0.4 else rng.randint(lo, min(dom[1], lo + 3))
        ints = list(declare("int_array", s.int_array, rng.choice([ni, (ni, 1), (1, ni)]), lo, hi))
        ni = 0
    for _ in range(ni):
        if rng.random() < 0.12:
            # values outside CPython's small-int cache (-5..256): fresh int objects on every solve
            base = rng.choice([298, -304, 1000, 257])
            lo = base + rng.randint(0, 2)
            hi = lo + rng.randint(0, 2)
        else:
            lo = rng.randint(dom[0], dom[1])
            hi = rng.randint(lo, min(dom[1], lo + 3))
        ints.append(declare("int_var", s.int_var, lo, hi))
    g = Gen(rng, s, bools, ints)
    for _ in range(rng.randint(*nconstraints)):
        post(s, g, rng, depth)
    return s, bools, ints


def brute_models(solver, limit=200000, shadow=True):
    """All models by enumeration.  With shadow=True (default, when available) the meaning of each posted constraint is
    the shadow closure recorded at construction time; otherwise the harness's evaluator on the printed tree."""
    import itertools
    from cspuz.expr import BoolVar
    names, doms = [], []
    for v in solver.variables:
        if isinstance(v, BoolVar):
            names.append(f"b{v.id}")
            doms.append([False, True])
        else:
            names.append(f"i{v.id}")
            doms.append(list(range(v.lo, v.hi + 1)))
    total = 1
    for d in doms:
        total *= len(d)
    if total > limit:
        raise OverflowError
    sems = getattr(solver, "_verif_sems", None) if shadow else None
    if sems is not None:
        # the shadows are what the session MEANT to post; they are used also when the Solver holds a different number of
        # constraints (an `ensure` that lost or duplicated an item must not take the oracle with it)
        checks = sems
    else:
        from .core import parse_sx
        cs = [parse_sx(exprio.pexpr(c)) for c in solver.constraints]
        checks = [(lambda a, c=c: exprio.ev(c, a) is True) for c in cs]
    out = []
    for combo in itertools.product(*doms):
        asg = dict(zip(names, combo))
        if all(ch(asg) is True or ch(asg) == True for ch in checks):  # noqa: E712
            out.append(asg)
    return out
