"""Type-directed random construction of constraint programs THROUGH THE REAL DSL (dunders, reflected forms,
helper constructors, literals, nested lists), for C01/C02/C03/C12."""
from . import exprio


class Gen:
    def __init__(self, rng, solver, bools, ints, degenerate=0.15, allow_graph=False):
        self.rng = rng
        self.s = solver
        self.bools = bools
        self.ints = ints
        self.deg = degenerate

    def lit_int(self):
        return self.rng.randint(-3, 3)

    def int_expr(self, d, allow_lit=True):
        """An IntExpr (or, if allow_lit, possibly a Python int)."""
        import cspuz
        r = self.rng
        if d <= 0 or r.random() < 0.25:
            if allow_lit and r.random() < 0.25:
                return self.lit_int()
            if self.ints:
                return r.choice(self.ints)
            return cspuz.count_true(r.choice(self.bools)) if self.bools else cspuz.count_true()
        k = r.random()
        if k < 0.12:
            return -self.int_expr(d - 1, False)
        if k < 0.30:
            a = self.int_expr(d - 1, False)
            return a + self.int_expr(d - 1)
        if k < 0.38:
            return self.lit_int() + self.int_expr(d - 1, False)
        if k < 0.50:
            a = self.int_expr(d - 1, False)
            return a - self.int_expr(d - 1)
        if k < 0.56:
            return self.lit_int() - self.int_expr(d - 1, False)
        if k < 0.70:
            c = self.bool_expr(d - 1, False)
            return c.cond(self.int_expr(d - 1), self.int_expr(d - 1))
        if k < 0.88:
            return cspuz.count_true(self.bool_nest(d - 1))
        if k < 0.94:
            return cspuz.count_true()   # INT_CONSTANT 0
        return self.int_expr(d - 1, False) + 0

    def bool_nest(self, d):
        r = self.rng
        n = r.choice([0, 1, 1, 2, 3, 4])
        items = []
        for _ in range(n):
            q = r.random()
            if q < 0.15:
                items.append(r.random() < 0.5)
            elif q < 0.3:
                items.append([self.bool_expr(d, True) for _ in range(r.randint(0, 2))])
            else:
                items.append(self.bool_expr(d, True))
        return items

    def bool_expr(self, d, allow_lit=True):
        import cspuz
        r = self.rng
        if d <= 0 or r.random() < 0.2:
            if allow_lit and r.random() < 0.2:
                return r.random() < 0.5
            if self.bools:
                return r.choice(self.bools)
            return self.int_expr(0, False) == self.lit_int()
        k = r.random()
        if k < 0.08:
            return ~self.bool_expr(d - 1, False)
        if k < 0.30:
            a = self.int_expr(d - 1, False)
            b = self.int_expr(d - 1)
            op = r.choice(["==", "!=", "<=", "<", ">=", ">"])
            return {"==": a == b, "!=": a != b, "<=": a <= b, "<": a < b, ">=": a >= b, ">": a > b}[op]
        if k < 0.36:
            a = self.lit_int()
            b = self.int_expr(d - 1, False)
            op = r.choice(["==", "!=", "<=", "<", ">=", ">"])
            return {"==": a == b, "!=": a != b, "<=": a <= b, "<": a < b, ">=": a >= b, ">": a > b}[op]
        if k < 0.52:
            a = self.bool_expr(d - 1, False)
            b = self.bool_expr(d - 1)
            op = r.choice(["&", "|", "==", "!=", "^", "then"])
            if op == "&":
                return a & b
            if op == "|":
                return a | b
            if op == "==":
                return a == b
            if op == "!=":
                return a != b
            if op == "^":
                return a ^ b
            return a.then(b)
        if k < 0.58:
            a = r.random() < 0.5
            b = self.bool_expr(d - 1, False)
            op = r.choice(["&", "|", "^"])
            return (a & b) if op == "&" else (a | b) if op == "|" else (a ^ b)
        if k < 0.68:
            return cspuz.fold_or(self.bool_nest(d - 1))
        if k < 0.78:
            return cspuz.fold_and(self.bool_nest(d - 1))
        if k < 0.88:
            n = r.choice([0, 1, 2, 2, 3, 4])
            items = [self.int_expr(d - 1) for _ in range(n)]
            if r.random() < 0.3:
                items = [items[: len(items) // 2], items[len(items) // 2:]]
            return cspuz.alldifferent(items)
        if k < 0.94:
            from cspuz.constraints import then as _then
            return _then(self.bool_expr(d - 1, False), self.bool_expr(d - 1))
        return cspuz.fold_or() if r.random() < 0.5 else cspuz.fold_and()


def random_session(rng, max_bools=3, max_ints=3, depth=3, nconstraints=(1, 4), dom=(-2, 3)):
    """Returns (solver, bools, ints) with constraints already posted."""
    from cspuz import Solver
    s = Solver()
    bools = [s.bool_var() for _ in range(rng.randint(0, max_bools))]
    ints = []
    for _ in range(rng.randint(0 if bools else 1, max_ints)):
        lo = rng.randint(dom[0], dom[1])
        hi = rng.randint(lo, min(dom[1], lo + 3))
        ints.append(s.int_var(lo, hi))
    g = Gen(rng, s, bools, ints)
    for _ in range(rng.randint(*nconstraints)):
        c = g.bool_expr(rng.randint(0, depth))
        if rng.random() < 0.2:
            s.ensure([c, [g.bool_expr(1)]])
        else:
            s.ensure(c)
    return s, bools, ints


def brute_models(solver, limit=200000):
    """All models by enumeration with the harness's own evaluator."""
    import itertools
    from cspuz.expr import BoolVar
    names, doms = [], []
    for v in solver.variables:
        if isinstance(v, BoolVar):
            names.append(f"b{v.id}")
            doms.append([False, True])
        else:
            names.append(f"i{v.id}")
            doms.append(list(range(v.lo, v.hi + 1)))
    from .core import parse_sx
    cs = [parse_sx(exprio.pexpr(c)) for c in solver.constraints]
    total = 1
    for d in doms:
        total *= len(d)
    if total > limit:
        raise OverflowError
    out = []
    for combo in itertools.product(*doms):
        asg = dict(zip(names, combo))
        if all(exprio.ev(c, asg) is True for c in cs):
            out.append(asg)
    return out
