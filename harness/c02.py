"""C02 — solve() reports exactly the facts common to all solutions."""
import itertools

from . import core, exprio, dslgen
from .core import Finding, sx

THEOREMS = ["Cspuz.C02.C02_exact", "Cspuz.C02.C02_terminates"]


def make_mock(rng, log):
    """A backend CLASS (Solver accepts a type) that answers each solve() by brute force and picks WHICH model to
    return from the run's PRNG, so different refinement paths are exercised.  Every answer is logged."""
    from cspuz.expr import BoolVar

    class MockBackend:
        def __init__(self, variables):
            self.variables = variables
            self.cs = []

        def add_constraint(self, c):
            if isinstance(c, list):
                self.cs += c
            else:
                self.cs.append(c)

        def solve_irrefutably(self, is_answer_key):
            raise NotImplementedError

        def solve(self):
            names, doms = [], []
            for v in self.variables:
                if isinstance(v, BoolVar):
                    names.append(f"b{v.id}")
                    doms.append([False, True])
                else:
                    names.append(f"i{v.id}")
                    doms.append(list(range(v.lo, v.hi + 1)))
            cs = [core.parse_sx(exprio.pexpr(c)) for c in self.cs]
            models = []
            total = 1
            for d in doms:
                total *= len(d)
                if total > 300000:
                    break
            if total > 300000:
                # a large program: propagation first, enumeration of what stays open (same models, same order)
                models = [tuple(m[nm] for nm in names) for m in dslgen.scalable_models(names, doms, cs, exprio.ev, "or", "and")]
            else:
                for combo in itertools.product(*doms):
                    asg = dict(zip(names, combo))
                    if all(exprio.ev(c, asg) is True for c in cs):
                        models.append(combo)
            log["calls"].append([exprio.pexpr(c) for c in self.cs])
            if not models:
                log["answers"].append(None)
                return False
            m = rng.choice(models)
            log["answers"].append(list(m))
            for v, val in zip(self.variables, m):
                v.sol = val
            return True
    return MockBackend


def _prehistory(rng, s):
    """Earlier activity on the same Solver (the result of solve() must not depend on it): a find_answer() that leaves an arbitrary
    model in the sol fields, or an earlier solve() with fewer keys / fewer constraints."""
    import warnings
    r = rng.random()
    with warnings.catch_warnings():
        warnings.simplefilter("ignore")
        try:
            if r < 0.3:
                core.with_timeout(10, s.find_answer, "z3")
                return "find_answer"
            if r < 0.45:
                core.with_timeout(10, s.solve, "z3")
                return "solve"
        except core.RealTimeout:
            raise
        except Exception:
            return "prehistory-exception"
    return "fresh"


def _session(rng):
    s, bools, ints = dslgen.random_session(rng, max_bools=3, max_ints=2, depth=2, nconstraints=(0, 3), dom=(-1, 2))
    allv = list(s.variables)
    if rng.random() < 0.35 and allv:
        # two-phase history: solve with some keys first, then promote further variables / add constraints
        first = [v for v in allv if rng.random() < 0.4]
        if first:
            s.add_answer_key(first)
        _prehistory(rng, s)
        rest = [v for v in allv if v not in first and rng.random() < 0.6]
        if rest:
            s.add_answer_key(rest)
        if rng.random() < 0.5:
            dslgen.post(s, dslgen.Gen(rng, s, bools, ints), rng, 2)
        return s, first + rest
    if rng.random() < 0.5:
        s._verif_pre = True
    mode = rng.random()
    if mode < 0.15:
        keys = []
    elif mode < 0.4:
        keys = allv
    else:
        keys = [v for v in allv if rng.random() < 0.5]
    if keys:
        if rng.random() < 0.5:
            s.add_answer_key(keys)
        else:
            for v in keys:
                s.add_answer_key(v)
    if getattr(s, "_verif_pre", False):
        _prehistory(rng, s)
    return s, keys


def _fixed_session(k):
    """The k-th deterministic session with integer facts outside CPython's small-int cache (dslgen.bigint_session), keys
    registered (in one call or one by one)."""
    s, bools, ints = dslgen.bigint_session(k)
    keys = list(s._verif_keys)
    if k % 2:
        s.add_answer_key(keys)
    else:
        for v in keys:
            s.add_answer_key(v)
    return s, keys


N_FIXED = dslgen.N_BIGINT


def _large_bad(r, s, facts):
    """Result of a real solve() on a large constructed session vs the facts known by construction; None when they agree."""
    if isinstance(r, str):
        return "verdict", f"raised {r}"
    if r is not True:
        return "verdict", f"returned {r!r} but the program is satisfiable"
    wrong = [(i, v.sol, facts[i]) for i, v in enumerate(s.variables)
             if s.is_answer_key[i] and (v.sol != facts[i] or type(v.sol) is not type(facts[i]))]
    if not wrong:
        return None
    i, got, want = wrong[0]
    nkey = sum(1 for k in s.is_answer_key[:i] if k) + 1
    kind = "undetermined-reported" if want is None else ("determined-missed" if got is None else "wrong-value")
    return kind, (f"{len(wrong)} answer keys wrong, first: variable #{i} (the {nkey}th answer key of {sum(s.is_answer_key)}): sol={got!r} but the "
                  f"exact fact is {want!r}" + (f"; also wrong: variables {[w[0] for w in wrong[1:6]]}" if len(wrong) > 1 else ""))


def _large_run(rng, kind, n, tag):
    """One large constructed session through one route.  Returns (solver, facts, text, result, log)."""
    import warnings
    s, facts, text = dslgen.large_session(kind, n)
    log = {"calls": [], "answers": []}
    with warnings.catch_warnings():
        warnings.simplefilter("ignore")
        try:
            if tag == "z3-after-find_answer":
                core.with_timeout(60, s.find_answer, "z3")
            if tag == "mock":
                r = core.with_timeout(120, s.solve, backend=make_mock(rng, log))
            else:
                r = core.with_timeout(60, s.solve, "z3")
        except Exception as e:
            r = "err:" + core.err_name(e)
    return s, facts, text, r, log


def _large_finding(kind, n, tag, text, bad):
    return Finding("solve:large:" + tag.split("-")[0] + ":" + bad[0],
                   f"Solver.solve({tag}) on the large program [{kind}, n={n}: {text}]: {bad[1]}",
                   {"large": [kind, n], "backend": tag})


def _large_sugar(rng, kind, n, name):
    """The same large session through a text-protocol backend talking to the reference protocol solver of c03."""
    from . import c03
    s, facts, text = dslgen.large_session(kind, n)
    bad = c03._e2e(rng, list(s.variables), list(s.constraints), list(s.is_answer_key), name, facts=facts)
    if not bad:
        return None
    return Finding("solve:large:" + name + ":" + bad[0], f"large program [{kind}, n={n}: {text}]: {bad[1]}",
                   {"large": [kind, n], "backend": name, "sugar_route": True})


def _key_sols(s):
    return ["-" if not k else ("N" if v.sol is None else v.sol) for v, k in zip(s.variables, s.is_answer_key)]


def _correspond(ctx):
    import warnings
    ctx.extra["rule"] = ("random well-typed programs through the real DSL (<=3 bools, <=2 small-domain ints) x key subsets (none/some/all); "
                         "(a) real Solver.solve(backend=MockBackend) where the mock picks each returned model from the run's PRNG; the same "
                         "oracle answers drive the Lean refineLoop; verdict and every key's sol compared; (b) real solve('z3') vs the Lean "
                         "executable spec of exact facts (enumeration); non-trivial = satisfiable with at least one key; distinct by program+keys; "
                         "first the deterministic sessions of dslgen.bigint_session (integer facts outside CPython's small-int cache -5..256 next to "
                         "undetermined keys, cache edges, keys next to non-keys), each also through plain `sugar` and one native-deduction backend; "
                         "(c) LARGE constructed programs (dslgen.LARGE_CASES: 513..1030 answer keys, forced units / equality chains / mixed keys and "
                         "non-keys, free keys on both sides of the 512th key; exact facts known by construction): mock route (propagating "
                         "enumerator) vs the Lean refineLoop and the constructed facts, z3 fresh and after find_answer, plain `sugar` and one "
                         "native backend with the reference protocol solver vs the constructed facts")
    drv = core.Driver()
    lines, meta = [], []
    for k in range(ctx.n(400, 5000)):
        fixed = k < N_FIXED
        try:
            s, keys = _fixed_session(k) if fixed else _session(ctx.rng)
        except Exception as e:
            ctx.count("gen-error:" + core.err_name(e))
            continue
        decls = "(" + " ".join(exprio.pdecl(v) for v in s.variables) + ")"
        cs = [exprio.pexpr(c) for c in s.constraints]
        try:
            dslgen.brute_models(s)
        except (exprio.IllTyped, OverflowError):
            continue
        keyflags = sx(list(s.is_answer_key))
        log = {"calls": [], "answers": []}
        with warnings.catch_warnings():
            warnings.simplefilter("ignore")
            try:
                r = core.with_timeout(10, s.solve, backend=make_mock(ctx.rng, log))
                real = [r, _key_sols(s)]
            except Exception as e:
                real = ["err", core.err_name(e)]
        answers = sx(["N" if a is None else a for a in log["answers"]])
        lines.append(f"(solve {decls} {keyflags} {answers} " + " ".join(cs) + ")")
        meta.append(("mock", cs, decls, keyflags, real, len(log["answers"])))
        # z3 route on the same program (sol fields keep whatever the mock run left there: solve() must not depend on it)
        with warnings.catch_warnings():
            warnings.simplefilter("ignore")
            try:
                r = core.with_timeout(10, s.solve, "z3")
                realz = [r, _key_sols(s)]
            except Exception as e:
                realz = ["err", core.err_name(e)]
        lines.append(f"(facts {decls} " + " ".join(cs) + ")")
        meta.append(("facts", cs, decls, keyflags, (real, realz), list(s.is_answer_key)))
        # "the same whether the backend computes such facts itself or cspuz derives them by re-solving": the same program through
        # the text-protocol backends -- plain `sugar` (cspuz's own refinement loop over an external answer finder) and one
        # backend with native deduction -- each talking to a reference solver of the Sugar protocol written from its documentation
        if (fixed or ctx.rng.random() < ctx.n(0.25, 0.5)) and all(v.id == k for k, v in enumerate(s.variables)):
            from . import c03
            for name in ("sugar", ctx.rng.choice(["sugar_extended", "csugar", "enigma_csp", "cspuz_core"])):
                try:
                    bad = c03._e2e(ctx.rng, list(s.variables), list(s.constraints), list(s.is_answer_key), name)
                except Exception as e:
                    bad = None
                    ctx.count("sugar-route:skipped:" + core.err_name(e))
                ctx.count("sugar-route:" + name)
                if bad:
                    ctx.disagree("sugar-route:" + bad[0], backend=name, what=bad[1], constraints=cs, decls=decls, keys=keyflags)
                    if not hasattr(ctx, "concrete"):
                        ctx.concrete = []
                    ctx.concrete.append(Finding("solve:" + name + ":" + bad[0], bad[1] + f" -- decls={decls} keys={keyflags} constraints={cs}",
                                                {"decls": [exprio.pdecl(v) for v in s.variables], "keys": list(s.is_answer_key),
                                                 "constraints": cs, "backend": name, "sugar_route": True}))
        # the answer must not depend on what earlier queries on the SAME unchanged Solver left behind (in the Solver, in the
        # variables or in a backend object): ask again, with find_answer() or a key promotion in between
        for rep in range(2):
            how = ctx.rng.choice(["solve-again", "find_answer-then-solve", "promote-key-then-solve"])
            with warnings.catch_warnings():
                warnings.simplefilter("ignore")
                try:
                    if how == "find_answer-then-solve":
                        fa = core.with_timeout(10, s.find_answer, "z3")
                        if realz[0] != "err" and fa != realz[0]:
                            ctx.disagree("history:find_answer-after-solve", constraints=cs, decls=decls, keys=keyflags,
                                         real=sx(fa), spec=sx(realz[0]))
                    elif how == "promote-key-then-solve":
                        rest = [v for v, k in zip(s.variables, s.is_answer_key) if not k]
                        if rest:
                            s.add_answer_key(ctx.rng.choice(rest))
                    r = core.with_timeout(10, s.solve, "z3")
                    realr = [r, _key_sols(s)]
                except Exception as e:
                    realr = ["err", core.err_name(e)]
            ctx.count("history:" + how)
            kf = sx(list(s.is_answer_key))
            lines.append(f"(facts {decls} " + " ".join(cs) + ")")
            meta.append(("facts", cs, decls, kf, (realr, realr), list(s.is_answer_key)))
        nontrivial = real[0] is True and any(s.is_answer_key)
        ctx.case({"decls": decls, "keys": keyflags, "constraints": cs[:3], "real": sx(real)}, (decls, keyflags, " ".join(cs)) if nontrivial else None)
        ctx.count(f"calls:{len(log['answers'])}")
    # LARGE programs (hundreds of answer keys; exact facts known by construction, brute force impossible): the mock route
    # against the Lean refinement loop AND the constructed facts, z3 (fresh / after find_answer) and the text-protocol backends
    # against the constructed facts
    if not hasattr(ctx, "concrete"):
        ctx.concrete = []
    for kind, n in dslgen.LARGE_CASES:
        for tag in ("mock", "z3", "z3-after-find_answer"):
            s, facts, text, r, log = _large_run(ctx.rng, kind, n, tag)
            ctx.count("large:" + tag)
            bad = _large_bad(r, s, facts)
            if bad:
                ctx.disagree("exact-facts-large:" + tag + ":" + bad[0], program=f"{kind} n={n}: {text}", what=bad[1])
                ctx.concrete.append(_large_finding(kind, n, tag, text, bad))
            if tag == "mock" and not isinstance(r, str):
                decls = "(" + " ".join(exprio.pdecl(v) for v in s.variables) + ")"
                cs = [exprio.pexpr(c) for c in s.constraints]
                answers = sx(["N" if a is None else a for a in log["answers"]])
                lines.append(f"(solve {decls} {sx(list(s.is_answer_key))} {answers} " + " ".join(cs) + ")")
                meta.append(("mock-large", f"{kind} n={n}: {text}", [r, _key_sols(s)], len(log["answers"])))
                ctx.count(f"large:calls:{len(log['answers'])}")
                ctx.case({"large": [kind, n], "program": text, "backend_calls": len(log["answers"]), "real": sx(r)}, ("large", kind, n))
        for name in ("sugar", ctx.rng.choice(["sugar_extended", "csugar", "enigma_csp", "cspuz_core"])):
            try:
                f = _large_sugar(ctx.rng, kind, n, name)
            except core.RealTimeout:
                raise
            except Exception as e:
                f = None
                ctx.count("large:sugar-route:skipped:" + core.err_name(e))
            ctx.count("large:sugar-route:" + name)
            if f:
                ctx.disagree("sugar-route-large:" + f.signature, program=f"{kind} n={n}", what=f.what)
                ctx.concrete.append(f)
    outs = drv.run(lines)
    for m, out in zip(meta, outs):
        t = core.parse_sx(out)
        if m[0] == "mock-large":
            real = m[2]
            want = [sx(real[0]), [sx(x) for x in real[1]]]
            if t[0] != want[0] or (real[0] is True and t[1] != want[1]):
                diff = [(i, a, b) for i, (a, b) in enumerate(zip(want[1], t[1])) if a != b][:6] if isinstance(t[1], list) else []
                ctx.disagree("refinement-loop-large", program=m[1], backend_calls=m[3], real_verdict=want[0], model_verdict=sx(t[0]),
                             first_differences_index_real_model=diff)
        elif m[0] == "mock":
            real = m[4]
            r = [sx(real[0]), [sx(x) for x in real[1]]] if real[0] != "err" else ["err", real[1]]
            ctx.count("verdict:" + str(real[0]))
            if real[0] == "err" or t[0] != r[0] or (real[0] is True and t[1] != r[1]):
                ctx.disagree("refinement-loop", constraints=m[1], decls=m[2], keys=m[3], real=sx(real), model=out)
        else:
            keys = m[5]
            for tag, real in ((("mock", m[4][0]), ("z3", m[4][1])) if m[4][0] is not m[4][1] else (("z3-repeated", m[4][0]),)):
                if real[0] == "err":
                    ctx.disagree("solve-exception:" + tag, constraints=m[1], decls=m[2], exception=real[1])
                    continue
                if t == "unsat":
                    if real[0] is not False:
                        ctx.disagree("exact-facts:" + tag, constraints=m[1], decls=m[2], keys=m[3], real=sx(real), spec="unsat")
                    continue
                want = [t[i] if keys[i] else "-" for i in range(len(keys))]
                if real[0] is not True or [sx(x) for x in real[1]] != want:
                    ctx.disagree("exact-facts:" + tag, constraints=m[1], decls=m[2], keys=m[3], real=sx(real), spec=sx(want))


def _exact(s):
    from cspuz.expr import BoolVar
    models = dslgen.brute_models(s)
    if not models:
        return None
    out = []
    for v in s.variables:
        nm = f"b{v.id}" if isinstance(v, BoolVar) else f"i{v.id}"
        vals = {m[nm] for m in models}
        out.append(vals.pop() if len(vals) == 1 else None)
    return out


def search(ctx, why):
    """Real solve('z3') and real solve(MockBackend) vs brute-force exact facts (harness's own evaluator)."""
    import warnings
    found = {}
    # large constructed programs first (each of the routes once)
    for kind, n in dslgen.LARGE_CASES:
        for tag in ("z3", "mock", "z3-after-find_answer"):
            s, facts, text, r, log = _large_run(ctx.rng, kind, n, tag)
            ctx.count("search:large:" + tag)
            bad = _large_bad(r, s, facts)
            if bad:
                f = _large_finding(kind, n, tag, text, bad)
                found.setdefault(f.signature, f)
        for name in ("sugar", ctx.rng.choice(["sugar_extended", "csugar", "enigma_csp", "cspuz_core"])):
            try:
                f = _large_sugar(ctx.rng, kind, n, name)
            except core.RealTimeout:
                raise
            except Exception:
                f = None
            if f:
                found.setdefault(f.signature, f)
    for k in range(ctx.n(800, 4000)):
        try:
            s, keys = _fixed_session(k) if k < N_FIXED else _session(ctx.rng)
            want = _exact(s)
        except Exception:
            continue
        cs = [exprio.pexpr(c) for c in s.constraints]
        decls = [exprio.pdecl(v) for v in s.variables]
        ctx.extra["last_case"] = {"decls": decls, "keys": list(s.is_answer_key), "constraints": cs}
        for tag in ("z3", "mock", "z3-again", "z3-after-find_answer"):
            with warnings.catch_warnings():
                warnings.simplefilter("ignore")
                try:
                    if tag == "z3-after-find_answer":
                        core.with_timeout(10, s.find_answer, "z3")
                    r = core.with_timeout(10, s.solve, "z3") if tag != "mock" else core.with_timeout(10, s.solve, backend=make_mock(ctx.rng, {"calls": [], "answers": []}))
                except Exception as e:
                    r = "err:" + core.err_name(e)
            got = [v.sol for v in s.variables]
            bad = None
            if isinstance(r, str):
                bad = f"raised {r}"
            elif r != (want is not None):
                bad = f"returned {r} but the program is {'satisfiable' if want is not None else 'unsatisfiable'}"
            elif r:
                for i, v in enumerate(s.variables):
                    if s.is_answer_key[i] and got[i] != want[i]:
                        bad = f"key #{i}: sol={got[i]!r} but exact fact is {want[i]!r}"
                        kind = "undetermined-reported" if want[i] is None else ("determined-missed" if got[i] is None else "wrong-value")
                        break
            ctx.count("search:" + tag)
            if bad:
                sig = "solve:" + tag + ":" + (kind if r is True else "verdict")
                if sig not in found:
                    found[sig] = Finding(sig, f"Solver.solve({tag}) on decls={decls} keys={list(s.is_answer_key)} constraints={cs}: {bad}",
                                         {"decls": decls, "keys": list(s.is_answer_key), "constraints": cs,
                                          "backend": "mock" if tag == "mock" else "z3"})
    return list(found.values())


def replay(ctx, data):
    """Re-run the stored program under three histories: fresh Solver; find_answer() first; solve() with only the first key, then
    the remaining keys added."""
    import warnings
    if data.get("large"):
        kind, n = data["large"]
        for _ in range(3):
            if data.get("sugar_route"):
                f = _large_sugar(ctx.rng, kind, n, data["backend"])
            else:
                s, facts, text, r, log = _large_run(ctx.rng, kind, n, data["backend"])
                bad = _large_bad(r, s, facts)
                f = _large_finding(kind, n, data["backend"], text, bad) if bad else None
            if f:
                return Finding("solve:replay", f.what, data)
        return None
    if data.get("sugar_route"):
        from . import c03
        s = exprio.build_session(data["decls"], data["constraints"], list(data["keys"]))
        bad = c03._e2e(ctx.rng, list(s.variables), list(s.constraints), list(s.is_answer_key), data["backend"])
        return Finding("solve:replay", bad[1], data) if bad else None
    for variant in ("fresh", "find_answer", "two-phase", "solve-twice"):
        keys = list(data["keys"])
        first = [i for i, k in enumerate(keys) if k][:1]
        s = exprio.build_session(data["decls"], data["constraints"], keys if variant != "two-phase" else [i in first for i in range(len(keys))])
        want = _exact(s)
        with warnings.catch_warnings():
            warnings.simplefilter("ignore")
            try:
                if variant == "find_answer":
                    core.with_timeout(10, s.find_answer, "z3")
                elif variant == "solve-twice":
                    core.with_timeout(10, s.solve, "z3")
                    core.with_timeout(10, s.find_answer, "z3")
                elif variant == "two-phase":
                    core.with_timeout(10, s.solve, "z3")
                    for i, k in enumerate(keys):
                        if k and i not in first:
                            s.add_answer_key(s.variables[i])
                for _ in range(5):
                    r = core.with_timeout(10, s.solve, "z3") if data["backend"] == "z3" else \
                        core.with_timeout(10, s.solve, backend=make_mock(ctx.rng, {"calls": [], "answers": []}))
                    if r != (want is not None):
                        return Finding("solve:replay", f"[{variant}] returned {r}", data)
                    if r:
                        for i, v in enumerate(s.variables):
                            if s.is_answer_key[i] and v.sol != want[i]:
                                return Finding("solve:replay", f"[{variant}] key #{i}: sol={v.sol!r}, exact fact {want[i]!r}", data)
            except core.RealTimeout:
                return Finding("solve:replay", f"[{variant}] does not return", data)
            except Exception as e:
                return Finding("solve:replay", f"[{variant}] raised {core.err_name(e)}", data)
    return None


def correspond(ctx):
    try:
        _correspond(ctx)
    finally:
        dslgen.take_decl_failures(ctx, "C02")
