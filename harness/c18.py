"""C18 — SegmentationBuilder2D only ever produces valid room partitions.

The real `cspuz.generator.segmentation` is driven in-process with its module-global `random` replaced (in this
process only, restored afterwards) by a recorder whose draws come from ctx.rng; the same draws are fed to the Lean
model (lean/CspuzModel/Model/Segmentation.lean) through the driver.  The invariant itself is checked by an
independent plain-Python oracle written from the property text.
"""
import copy
import itertools
import sys

from . import core
from .core import Finding, sx

THEOREMS = [
    "Cspuz.C18.C18_step",
    "Cspuz.C18.C18_part_step",
    "Cspuz.C18.C18_initial",
    "Cspuz.C18.C18_reachable",
    "Cspuz.C18.C18_pure",
    "Cspuz.C18.C18_isConnected",
    "Cspuz.C18.C18_split_halves",
    "Cspuz.C18.C18_bfs_total",
]

DEPTH = 100000  # recursion budget given to the model's `visit` (CPython's own limit is probed separately)


# ---------------------------------------------------------------------
# the recorder that replaces `random` inside cspuz.generator.segmentation


class StopWalk(Exception):
    pass


class FakeRandom:
    """Stands in for the `random` module.  Every draw is taken from `src` and recorded."""

    def __init__(self, src, max_choices=None, script=None, draw_budget=200000):
        self.src = src
        self.draw_budget = draw_budget
        self.log = []  # ("randint", a, b, v) | ("choice", n, real_index, model_index)
        self.max_choices = max_choices
        self.nchoices = 0
        self.script = list(script) if script is not None else None  # forced randint values (replay)

    def randint(self, a, b):
        if len(self.log) > self.draw_budget:
            raise StopWalk("draw budget exhausted")
        if self.script is not None:
            if not self.script:
                raise StopWalk("script exhausted")
            v = self.script.pop(0)
        else:
            v = self.src.randint(a, b)
        self.log.append(("randint", a, b, v))
        return v

    def choice(self, seq):
        if len(seq) == 0:
            raise IndexError("Cannot choose from an empty sequence")
        if self.max_choices is not None and self.nchoices >= self.max_choices:
            raise StopWalk("too many rounds")
        self.nchoices += 1
        i = self.src.randrange(len(seq))
        self.log.append(("choice", len(seq), i, model_index(seq, i)))
        return seq[i]

    # anything else the module might start using: delegate, record as foreign
    def __getattr__(self, name):
        f = getattr(self.src, name)

        def g(*a, **k):
            self.log.append(("other", name))
            return f(*a, **k)
        return g


class patched_random:
    def __init__(self, fake):
        self.fake = fake

    def __enter__(self):
        import cspuz.generator.segmentation as seg
        self.seg = seg
        # the module's source of randomness: `srandom` (cspuz.generator.srandom) since the C19 repair, the global
        # `random` module before it; replace whichever name(s) the module has
        self.saved = {}
        for name in ("srandom", "random"):
            if hasattr(seg, name):
                self.saved[name] = getattr(seg, name)
                setattr(seg, name, self.fake)
        return self.fake

    def __exit__(self, *a):
        for name, v in self.saved.items():
            setattr(self.seg, name, v)
        return False


def pairs_of(log):
    """Raw (seed_a, seed_b) pairs of the randint draws in a log slice."""
    vals = [e[3] for e in log if e[0] == "randint"]
    return [(vals[i], vals[i + 1]) for i in range(0, len(vals) - 1, 2)]


# ---------------------------------------------------------------------
# canonical forms


def is_merge(u):
    return len(u[0]) == 2 and len(u[1]) == 1


def merge_prefix(cands):
    m = 0
    while m < len(cands) and is_merge(cands[m]):
        m += 1
    return m


def canon_update(u):
    return [list(u[0]), [[list(c) for c in b] for b in u[1]]]


def canon_cands(cands):
    """merge part (an unordered set in the code) sorted; the rest in order."""
    cs = [canon_update(u) for u in cands]
    m = merge_prefix(cands)
    return sorted(cs[:m]) + cs[m:]


def model_index(cands, i):
    m = merge_prefix(cands)
    if i >= m:
        return i
    cs = [canon_update(u) for u in cands[:m]]
    return sorted(cs).index(cs[i])


def canon_blocks(bs):
    return [[list(c) for c in b] for b in bs]


def to_str(x):
    if isinstance(x, (list, tuple)):
        return [to_str(e) for e in x]
    if x is True:
        return "T"
    if x is False:
        return "F"
    if x is None:
        return "N"
    return str(x)


def cfg_sx(h, w, args, depth=DEPTH):
    ib = args.get("initial_blocks")
    return [h, w, args.get("min_num_blocks"), args.get("max_num_blocks"), args.get("min_block_size"),
            args.get("max_block_size"), bool(args.get("allow_unmet_constraints_first", False)),
            None if ib is None else canon_blocks(ib), depth]


def mk_builder(h, w, args):
    from cspuz.generator.segmentation import SegmentationBuilder2D
    return SegmentationBuilder2D(h, w, **args)


# ---------------------------------------------------------------------
# the independent oracle (from the property text, no code shared with cspuz or the model)


def oracle_bounds(h, w, args):
    """The configured bounds; None and 0 mean 'not configured' (for a maximum, 0 cannot mean anything else)."""
    def lo(v):
        return v if v else None

    return lo(args.get("min_num_blocks")), lo(args.get("max_num_blocks")), lo(args.get("min_block_size")), \
        lo(args.get("max_block_size"))


def orth_connected(cells):
    cells = set(cells)
    if not cells:
        return False
    start = next(iter(cells))
    seen = {start}
    todo = [start]
    while todo:
        y, x = todo.pop()
        for n in ((y + 1, x), (y - 1, x), (y, x + 1), (y, x - 1)):
            if n in cells and n not in seen:
                seen.add(n)
                todo.append(n)
    return len(seen) == len(cells)


def oracle_part(h, w, blocks):
    """None if `blocks` is a partition of the h x w board into non-empty orthogonally connected blocks, else why not."""
    if not isinstance(blocks, list) or not all(isinstance(b, list) for b in blocks):
        return "not-a-list-of-lists"
    count = {}
    for b in blocks:
        for c in b:
            if not (isinstance(c, tuple) and len(c) == 2):
                return "bad-cell"
            count[c] = count.get(c, 0) + 1
    for c, k in count.items():
        if not (0 <= c[0] < h and 0 <= c[1] < w):
            return "cell-outside-board"
        if k != 1:
            return "cell-in-two-places"
    for y in range(h):
        for x in range(w):
            if (y, x) not in count:
                return "cell-missing"
    for b in blocks:
        if len(b) == 0:
            return "empty-block"
        if not orth_connected(b):
            return "block-not-connected"
    return None


def oracle_bounds_ok(h, w, args, blocks):
    mn, mx, ms, xs = oracle_bounds(h, w, args)
    if mn is not None and len(blocks) < mn:
        return "too-few-blocks"
    if mx is not None and len(blocks) > mx:
        return "too-many-blocks"
    for b in blocks:
        if ms is not None and len(b) < ms:
            return "block-too-small"
        if xs is not None and len(b) > xs:
            return "block-too-large"
    return None


def oracle_inv(h, w, args, blocks):
    return oracle_part(h, w, blocks) or oracle_bounds_ok(h, w, args, blocks)


def _short_args(args):
    a = dict(args)
    ib = a.get("initial_blocks")
    if ib is not None and sum(len(b) for b in ib) > 40:
        a["initial_blocks"] = "<%d blocks, see the replay data>" % len(ib)
    return a


def _twice(blocks):
    seen, dup = set(), []
    for b in blocks:
        for c in b:
            if c in seen and c not in dup:
                dup.append(c)
            seen.add(c)
    return dup


def _short_value(v):
    if sum(len(b) for b in v) <= 40:
        return repr(v)
    dup = _twice(v)
    return "<%d blocks, %d cells%s>" % (len(v), sum(len(b) for b in v),
                                        (", cells in more than one block: %s" % dup[:6]) if dup else "")


def say_update(h, w, args, u, cur, nxt, bad):
    return f"{h}x{w} {_short_args(args)}: update {u} proposed for {_short_value(cur)} gives {_short_value(nxt)}: {bad}"


def say_initial(h, w, args, res, bad):
    return f"initial() of {h}x{w} {_short_args(args)} returned {_short_value(res)}: {bad}"


# ---------------------------------------------------------------------
# input generation


def gen_bound(rng, lo, hi):
    r = rng.random()
    if r < 0.3:
        return None
    if r < 0.4:
        return 0
    if r < 0.43:
        return rng.randint(-2, -1)
    return rng.randint(lo, hi)


def gen_args(rng, h, w):
    n = max(h * w, 1)

    def ri(a, b):
        return rng.randint(min(a, b), max(a, b))
    r = rng.random()
    args = {}
    if r < 0.15:
        return args  # all defaults
    if r < 0.7:
        # mostly satisfiable
        ms = rng.choice([None, 0, 1, 1, 2, 2, 3])
        xs = rng.choice([None, 0, n, max(2, (ms or 1) * 2), max(3, (ms or 1) * 3), ri(max(ms or 1, 1), n)])
        lo_b = -(-n // (xs or n))  # ceil
        hi_b = n // (ms or 1)
        mn = rng.choice([None, 0, 1, min(lo_b, hi_b), ri(1, max(1, hi_b))])
        mx = rng.choice([None, 0, n, max(mn or 1, lo_b), ri(max(mn or 1, 1), max(mn or 1, hi_b, 1))])
        args = {"min_num_blocks": mn, "max_num_blocks": mx, "min_block_size": ms, "max_block_size": xs}
    else:
        args = {"min_num_blocks": gen_bound(rng, 1, n), "max_num_blocks": gen_bound(rng, 1, n),
                "min_block_size": gen_bound(rng, 1, max(1, n // 2)), "max_block_size": gen_bound(rng, 1, n)}
    for k in list(args):
        if args[k] is None and rng.random() < 0.5:
            del args[k]
    if rng.random() < 0.2:
        args["allow_unmet_constraints_first"] = True
    return args


def random_partition(rng, h, w, k=None):
    """A random partition of the h x w board into connected blocks, generated independently of the builder:
    a random spanning tree of the grid graph with k-1 random tree edges removed (gives thin, branching shapes)."""
    cells = [(y, x) for y in range(h) for x in range(w)]
    edges = [((y, x), (y + 1, x)) for y in range(h - 1) for x in range(w)] + \
            [((y, x), (y, x + 1)) for y in range(h) for x in range(w - 1)]
    rng.shuffle(edges)
    parent = {c: c for c in cells}

    def find(c):
        while parent[c] != c:
            parent[c] = parent[parent[c]]
            c = parent[c]
        return c
    tree = []
    for a, b in edges:
        ra, rb = find(a), find(b)
        if ra != rb:
            parent[ra] = rb
            tree.append((a, b))
    if k is None:
        k = rng.randint(1, max(1, min(len(cells), 6)))
    rng.shuffle(tree)
    keep = tree[k - 1:] if k >= 1 else tree
    parent = {c: c for c in cells}
    for a, b in keep:
        parent[find(a)] = find(b)
    groups = {}
    order = list(cells)
    if rng.random() < 0.7:
        rng.shuffle(order)
    for c in order:
        groups.setdefault(find(c), []).append(c)
    bs = list(groups.values())
    rng.shuffle(bs)
    return bs


def malformed_blocks(rng, h, w, good):
    """Initial blocks that are NOT a partition into connected blocks (the malformed stream)."""
    bs = [list(b) for b in good] if good else [[(y, x) for y in range(h) for x in range(w)]]
    k = rng.randint(0, 5)
    if k == 0 and len(bs) >= 1 and bs[0]:
        bs[0] = bs[0] + [bs[0][0]]  # duplicate cell
    elif k == 1:
        bs.append([(h + rng.randint(0, 1), rng.randint(0, max(w - 1, 0)))])  # outside the board
    elif k == 2:
        bs.append([(-1, rng.randint(0, max(w - 1, 0)))])  # negative index (wraps around in block_id)
    elif k == 3 and h * w >= 3:
        cells = [(y, x) for y in range(h) for x in range(w)]
        rng.shuffle(cells)
        cut = rng.randint(1, len(cells) - 1)
        bs = [cells[:cut], cells[cut:]]  # usually disconnected
    elif k == 4 and bs and len(bs[0]) > 1:
        bs[0] = bs[0][:-1]  # a cell missing
    else:
        bs = bs + [[]]  # empty block
    return bs


# ---------------------------------------------------------------------
# large values (boards of 17x17 and more, values of more than 257 blocks, coordinates above 256)
#
# Everything above runs on boards <= 6x6, where block indices, block lengths and coordinates are all small numbers.
# CPython treats the integers -5..256 specially (one shared object each), dict/set/list implementations change strategy
# with size, and `visit` recurses once per cell: code that is right on every small board can be wrong on a large one.

SMALL_INT_MAX = 256


def update_kind(u):
    return "merge" if is_merge(u) else ("split" if len(u[0]) == 1 else "move")


def edge_updates(cands, per_kind=3):
    """Indices of the proposed updates that are always checked on a large value: per kind of update those replacing
    the blocks at the highest and at the lowest list indices, those replacing a block at index 255..258, and the
    first and the last proposal."""
    if not cands:
        return []
    picks = {0, len(cands) - 1}
    by_kind = {}
    for k, u in enumerate(cands):
        if u[0]:
            by_kind.setdefault(update_kind(u), []).append(k)
    for kind, ks in by_kind.items():
        hi = sorted(ks, key=lambda k: (-max(cands[k][0]), -min(cands[k][0]), k))
        lo = sorted(ks, key=lambda k: (min(cands[k][0]), max(cands[k][0]), k))
        picks.update(hi[:per_kind])
        picks.update(lo[:per_kind])
        near = [k for k in ks if any(SMALL_INT_MAX - 1 <= i <= SMALL_INT_MAX + 2 for i in cands[k][0])]
        picks.update(near[:2 * per_kind])
        both = [k for k in ks if min(cands[k][0]) > SMALL_INT_MAX]
        picks.update(both[:per_kind])
    return sorted(picks)


def small_block_partition(rng, h, w, weights):
    """A partition of the board into connected blocks of size <= len(weights) (size s drawn with weight weights[s-1]),
    grown cell by cell from the unassigned cells in row order; independent of the builder."""
    owner = {}
    blocks = []
    sizes = list(range(1, len(weights) + 1))
    for y in range(h):
        for x in range(w):
            if (y, x) in owner:
                continue
            want = rng.choices(sizes, weights)[0]
            blk = [(y, x)]
            owner[(y, x)] = len(blocks)
            while len(blk) < want:
                free = [n for (cy, cx) in blk for n in ((cy + 1, cx), (cy - 1, cx), (cy, cx + 1), (cy, cx - 1))
                        if 0 <= n[0] < h and 0 <= n[1] < w and n not in owner]
                if not free:
                    break
                n = rng.choice(free)
                owner[n] = len(blocks)
                blk.append(n)
            blocks.append(blk)
    return blocks


def singletons_checkerboard(h, w):
    """One block per cell; the cells with even y+x first: no two blocks at the first ceil(h*w/2) indices are adjacent."""
    cells = [(y, x) for y in range(h) for x in range(w)]
    return [[c] for c in cells if (c[0] + c[1]) % 2 == 0] + [[c] for c in cells if (c[0] + c[1]) % 2 == 1]


def large_cases(rng, thorough=False):
    """(label, h, w, args, steps, model, max_rounds): a handful of walks on large values.  `model` says whether the Lean
    model is asked too (measured: ~0.02 s per candidates() query on values of small blocks, 8 s on one 260-cell block)."""
    cases = []
    # 17x17, more than 257 blocks, bounds met from the start
    k = rng.randint(266, 276)
    ib = random_partition(rng, 17, 17, k)
    cases.append(("17x17:min_num_blocks=265", 17, 17, {"min_num_blocks": 265, "initial_blocks": ib}, 4, True, 150))
    # 18x18, small blocks, the blocks of more than one cell at the END of the list (indices >= 257): initial() has to split
    # until min_num_blocks is met, so every round of its own walk replaces a block at a high index
    for _ in range(50):
        ib = small_block_partition(rng, 18, 18, [93, 5, 2])
        if sum(1 for blk in ib if len(blk) == 1) > SMALL_INT_MAX + 1 and sum(1 for blk in ib if len(blk) > 1) >= 8:
            break
    ib.sort(key=len)
    args = {"min_num_blocks": len(ib) + rng.randint(3, 5), "max_block_size": 3, "initial_blocks": ib}
    cases.append(("18x18:small-blocks,initial-splits", 18, 18, args, 3, True, 80))
    # 18x18, many small blocks in random order, bounds met
    ib = small_block_partition(rng, 18, 18, [88, 9, 3])
    rng.shuffle(ib)
    cases.append(("18x18:small-blocks", 18, 18, {"max_block_size": 3, "min_block_size": rng.choice([None, 1]),
                                                 "initial_blocks": ib}, 4, True, 80))
    # 23x23, one block per cell, no two of the first 265 blocks adjacent: initial() has to merge, each merge involves a
    # block at an index >= 265
    ib = singletons_checkerboard(23, 23)
    cases.append(("23x23:singletons,initial-merges", 23, 23, {"max_num_blocks": 23 * 23 - rng.randint(3, 5), "initial_blocks": ib},
                  2, True, 80))
    # 1x330 strip: coordinates above 256 as well
    ib = small_block_partition(rng, 1, 330, [85, 15])
    if rng.random() < 0.5:
        ib.reverse()
    cases.append(("1x330:strip", 1, 330, {"max_block_size": 2, "max_num_blocks": len(ib) - rng.randint(0, 3), "initial_blocks": ib},
                  3, True, 80))
    # 2x130: ONE block of 260 cells (block length and seed indices above 256); the model needs seconds per query here
    cases.append(("2x130:one-block", 2, 130, {"min_block_size": rng.choice([None, 2])}, 1, thorough, 80))
    if thorough:
        # the whole walk of initial() from the single 289-cell block down to 265 blocks (seconds; oracle only)
        cases.append(("17x17:min_num_blocks=265,from-one-block", 17, 17, {"min_num_blocks": 265}, 3, False, 20000))
    return cases


def large_walks(ctx, model=True, check_all=30):
    walks = []
    for (label, h, w, args, steps, with_model, max_rounds) in large_cases(ctx.rng, thorough=not ctx.quick()):
        wk = Walk(ctx, h, w, args, steps, ctx.rng, check_all=check_all, max_rounds=max_rounds, model=model and with_model,
                  edges=True)
        wk.run()
        ctx.count("large:" + label + (":model+oracle" if wk.model else ":oracle-only"))
        walks.append(wk)
    return walks


# ---------------------------------------------------------------------
# one walk on the real code


class Walk:
    """Runs the real builder, collects the model queries, checks the oracle and the no-mutation clause."""

    def __init__(self, ctx, h, w, args, steps, rng, check_all=20, max_rounds=150, model=True, edges=False):
        self.ctx, self.h, self.w, self.args, self.steps, self.rng = ctx, h, w, args, steps, rng
        self.draw_budget = 200000 if not edges else 5000000  # random draws allowed inside initial()
        self.max_rounds = max_rounds  # rounds of initial()'s own walk before it is stopped ("running")
        self.model = model  # False: oracle only (the naive Lean model is too slow on this input)
        self.edges = edges  # large values: always check / prefer the updates that replace blocks at high list indices
        self.queries = []  # (line, expected canonical, kind, detail)
        self.problems = []  # (signature, what, data)
        self.check_all = check_all
        self.states = 0
        self.kinds = {}

    def q(self, line, expected, kind, detail):
        if not self.model:
            return
        self.queries.append((sx(line), to_str(expected), kind, detail))

    def problem(self, sig, what, data):
        self.problems.append((sig, what, data))

    def base(self):
        return {"h": self.h, "w": self.w, "args": self.args}

    # -- initial() -----------------------------------------------------
    def run_initial(self, max_rounds=None):
        if max_rounds is None:
            max_rounds = self.max_rounds
        b = mk_builder(self.h, self.w, self.args)
        ib_snapshot = copy.deepcopy(self.args.get("initial_blocks"))
        seen_states = []
        orig = b.candidates

        def spy(cur):
            seen_states.append(copy.deepcopy(cur))
            return orig(cur)
        b.candidates = spy
        fake = FakeRandom(self.rng, max_choices=max_rounds, draw_budget=self.draw_budget)
        outcome = None
        with patched_random(fake):
            try:
                res = b.initial()
                outcome = ["done", canon_blocks(res)]
            except StopWalk:
                res = None
                outcome = ["running", canon_blocks(seen_states[-1])]
            except RecursionError:
                raise
            except Exception as e:
                res = None
                outcome = ["err", core.err_name(e)]
        del b.candidates
        rounds = []
        cur = []
        for e in fake.log:
            if e[0] == "randint":
                cur.append(e)
            elif e[0] == "choice":
                rounds.append([e[3], pairs_of(cur)])
                cur = []
        if outcome[0] == "err":
            rounds.append([0, pairs_of(cur)])
        self.q(["c18-initial", cfg_sx(self.h, self.w, self.args), rounds], outcome, "initial",
               dict(self.base(), rounds=len(rounds)))
        self.ctx.count("initial:" + (outcome[0] if outcome[0] != "err" else "err:" + outcome[1]))
        if self.args.get("initial_blocks") != ib_snapshot:
            self.problem("purity:initial-modifies-initial_blocks", "initial() modified the builder's initial_blocks",
                         self.base())
        if res is not None:
            # the returned value must not share lists with initial_blocks
            if self.args.get("initial_blocks") is not None and res:
                res[0].append((97, 97))
                if self.args["initial_blocks"] != ib_snapshot:
                    self.problem("purity:initial-shares-initial_blocks",
                                 "mutating the value returned by initial() changed initial_blocks", self.base())
                res[0].pop()
        return b, res, outcome

    # -- candidates() / copy_with_update() ------------------------------
    def candidates(self, b, cur, script=None):
        fake = FakeRandom(self.rng, script=script)
        with patched_random(fake):
            try:
                cands = b.candidates(cur)
                out = ["ok", canon_cands(cands)]
            except StopWalk:
                raise
            except Exception as e:
                cands = None
                out = ["err", core.err_name(e)]
        draws = pairs_of(fake.log)
        rawvals = [e[3] for e in fake.log if e[0] == "randint"]
        return cands, out, draws, rawvals

    def step_checks(self, b, cur, cands, rawvals, inv_before):
        """Oracle on (a sample of) all proposed updates + the no-mutation clause."""
        idxs = list(range(len(cands)))
        if self.check_all is not None and len(idxs) > self.check_all:
            idxs = sorted(set(self.rng.sample(idxs, self.check_all)) | (set(edge_updates(cands)) if self.edges else set()))
        snap = copy.deepcopy(cur)
        for k in idxs:
            u = cands[k]
            nxt = b.copy_with_update(cur, u)
            bad = oracle_part(self.h, self.w, nxt)
            if bad is None and inv_before:
                bad = oracle_bounds_ok(self.h, self.w, self.args, nxt)
            if bad:
                self.problem("invariant:" + bad,
                             say_update(self.h, self.w, self.args, u, cur, nxt, bad),
                             dict(self.base(), state=canon_blocks(snap), draws=rawvals, cand=k, bad=bad))
            if cur != snap:
                self.problem("purity:previous-modified",
                             f"copy_with_update modified the value it was applied to ({snap} became {cur})",
                             dict(self.base(), state=canon_blocks(snap), draws=rawvals, cand=k, bad="previous-modified"))
                cur[:] = copy.deepcopy(snap)
            # mutate the RESULT in place: the previous value must not change
            usnap = copy.deepcopy(u)
            for blk in nxt:
                blk.append((98, 98))
            nxt.append([(99, 99)])
            if cur != snap:
                self.problem("purity:result-shares-previous",
                             "mutating the value returned by copy_with_update changed the value it was applied to",
                             dict(self.base(), state=canon_blocks(snap), draws=rawvals, cand=k, bad="result-shares-previous"))
                cur[:] = copy.deepcopy(snap)
            if u != usnap:
                self.ctx.count("aliasing:result-shares-append-lists-with-update-object")
                # undo, the update object is used again below
                for blk in u[1]:
                    if blk and blk[-1] == (98, 98):
                        blk.pop()
            else:
                self.ctx.count("aliasing:none")

    def run(self):
        ctx = self.ctx
        try:
            b, cur, outcome = self.run_initial()
        except RecursionError:
            self.problem("crash:RecursionError", f"initial() RecursionError on {self.h}x{self.w} {self.args}", self.base())
            return
        if cur is None:
            return
        history = []  # (live object, snapshot)
        inv = oracle_inv(self.h, self.w, self.args, cur)
        part = oracle_part(self.h, self.w, cur)
        # only MALFORMED initial_blocks excuse an invalid result; from a valid partition initial() must return a valid value
        ib = self.args.get("initial_blocks")
        given = ib is not None and oracle_part(self.h, self.w, ib) is not None
        if self.h * self.w == 0:
            self.ctx.count("initial:degenerate-board")
        elif not self.args.get("allow_unmet_constraints_first") and inv is not None and not (given and part is not None):
            self.problem("initial:" + inv, say_initial(self.h, self.w, self.args, cur, inv),
                         dict(self.base(), initial=True, bad=inv))
        if part is not None and not given:
            if self.h * self.w > 0:
                self.problem("initial:" + part, say_initial(self.h, self.w, self.args, cur, part),
                             dict(self.base(), initial=True, bad=part))
        for step in range(self.steps):
            history.append((cur, copy.deepcopy(cur)))
            part_ok = oracle_part(self.h, self.w, cur) is None
            inv_ok = part_ok and oracle_bounds_ok(self.h, self.w, self.args, cur) is None
            try:
                cands, out, draws, rawvals = self.candidates(b, cur)
            except RecursionError:
                self.problem("crash:RecursionError", "candidates RecursionError", dict(self.base(), state=canon_blocks(cur)))
                return
            except StopWalk:
                self.problem("hang:candidates", "candidates drew more than 200000 random numbers",
                             dict(self.base(), state=canon_blocks(cur)))
                return
            if cur != history[-1][1]:
                self.problem("purity:candidates-modifies-current",
                             f"candidates() modified its argument: {history[-1][1]} became {cur}",
                             dict(self.base(), state=canon_blocks(history[-1][1]), draws=rawvals, cand=0,
                                  bad="candidates-modifies-current"))
                return
            self.q(["c18-cands", cfg_sx(self.h, self.w, self.args), canon_blocks(cur), draws], out, "candidates",
                   dict(self.base(), state=canon_blocks(cur), draws=rawvals))
            self.states += 1
            ctx.case({"board": [self.h, self.w], "args": str(self.args), "state": sx(canon_blocks(cur)),
                      "candidates": 0 if cands is None else len(cands)},
                     (self.h, self.w, str(sorted(self.args.items(), key=str)), sx(canon_blocks(cur))) if cands else None)
            if cands is None:
                ctx.count("candidates:err:" + out[1])
                if part_ok:
                    self.problem("crash:candidates-" + out[1], f"candidates raised {out[1]} on the valid partition {cur}",
                                 dict(self.base(), state=canon_blocks(cur), draws=rawvals, bad="crash"))
                return
            if not cands:
                ctx.count("candidates:empty")
                return
            if part_ok:
                self.step_checks(b, cur, cands, rawvals, inv_ok)
            k = self.rng.randrange(len(cands))
            if self.edges and self.rng.random() < 0.7:
                high = [i for i, c in enumerate(cands) if c[0] and max(c[0]) > SMALL_INT_MAX]
                if high:
                    k = self.rng.choice(high)
                    ctx.count("applied:replaces-block-at-index>256")
            u = cands[k]
            kind = "merge" if is_merge(u) else ("split" if len(u[0]) == 1 else "move")
            ctx.count("applied:" + kind)
            usnap = copy.deepcopy(u)
            nxt = b.copy_with_update(cur, u)
            self.q(["c18-copy", canon_blocks(cur), canon_update(usnap)], canon_blocks(nxt), "copy_with_update",
                   dict(self.base(), state=canon_blocks(cur), update=canon_update(usnap)))
            if rawvals is not None and self.rng.random() < 0.3:
                # _is_connected / split_block directly on blocks of the current state
                self.direct_calls(cur)
            cur = nxt
        history.append((cur, copy.deepcopy(cur)))
        for live, snap in history:
            if live != snap:
                self.problem("purity:earlier-value-modified", f"an earlier value changed later in the walk: {snap} became {live}",
                             None)
                break

    def direct_calls(self, cur):
        import cspuz.generator.segmentation as seg
        blk = list(self.rng.choice(cur))
        r = self.rng.random()
        if r < 0.3:
            excl = None
        elif r < 0.85 and blk:
            excl = self.rng.choice(blk)
        else:
            excl = (self.rng.randint(-1, self.h), self.rng.randint(-1, self.w))
        if self.rng.random() < 0.25 and len(blk) > 1:
            # not a block of the partition: drop / duplicate a cell (possibly disconnected)
            i = self.rng.randrange(len(blk))
            blk = blk[:i] + blk[i + 1:] if self.rng.random() < 0.7 else blk + [blk[i]]
        try:
            got = ["ok", bool(seg._is_connected(list(blk), excl))]
        except Exception as e:
            got = ["err", core.err_name(e)]
        self.q(["c18-isconn", DEPTH, [list(c) for c in blk], None if excl is None else list(excl)], got, "_is_connected",
               dict(block=[list(c) for c in blk], excluded=excl))
        self.ctx.count("direct:_is_connected:" + str(got[1]))
        # the oracle's view: block minus excluded is connected (len 1 special-cased by the code, not by the oracle)
        if got[0] == "ok" and len(set(blk)) == len(blk) and len(blk) >= 2:
            rest = [c for c in blk if c != excl]
            want = orth_connected(rest)
            if want != got[1]:
                self.problem("is_connected:wrong", f"_is_connected({blk}, {excl}) = {got[1]} but block minus cell connected = {want}",
                             dict(block=[list(c) for c in blk], excluded=None if excl is None else list(excl), isconn=True))
        fake = FakeRandom(self.rng)
        with patched_random(fake):
            try:
                a, bb = seg.split_block(list(blk))
                got = ["ok", canon_blocks([a])[0], canon_blocks([bb])[0], 0]
            except Exception as e:
                got = ["err", core.err_name(e)]
        self.q(["c18-split", [list(c) for c in blk], pairs_of(fake.log)], got, "split_block",
               dict(block=[list(c) for c in blk], draws=[e[3] for e in fake.log if e[0] == "randint"]))
        self.ctx.count("direct:split_block:" + got[0])


def compare(ctx, walks):
    lines = []
    meta = []
    for wk in walks:
        for (line, exp, kind, detail) in wk.queries:
            lines.append(line)
            meta.append((exp, kind, detail))
    outs = core.Driver().run(lines)
    for out, (exp, kind, detail) in zip(outs, meta):
        got = core.parse_sx(out)
        if kind == "candidates" and isinstance(got, list) and got and got[0] == "ok":
            # the model's merge part is sorted by (i, j) as integers; compare like canon_cands does (as strings)
            us = got[1]
            m = 0
            while m < len(us) and len(us[m][0]) == 2 and len(us[m][1]) == 1:
                m += 1
            got = ["ok", sorted(us[:m], key=_intkey) + us[m:]]
            exp = ["ok", sorted(exp[1][:m], key=_intkey) + exp[1][m:]] if exp[0] == "ok" and len(exp[1]) >= m else exp
        if got != exp:
            ctx.disagree("model-vs-code:" + kind, detail=detail, real=sx(exp)[:600], model=sx(got)[:600])


def _intkey(u):
    return [int(v) for v in u[0]]


# ---------------------------------------------------------------------


def gen_walks(ctx, n, steps, maxdim, check_all=20):
    rng = ctx.rng
    walks = []
    pool = []  # valid partitions seen, reused as initial_blocks
    for i in range(n):
        r = rng.random()
        if r < 0.04:
            h, w = rng.choice([(0, 0), (0, 2), (3, 0), (1, 1)])
        elif r < 0.3:
            h, w = rng.randint(1, 3), rng.randint(1, 3)
        else:
            h, w = rng.randint(1, maxdim), rng.randint(1, maxdim)
        args = gen_args(rng, h, w)
        r = rng.random()
        if r < 0.12 and h * w > 0:
            good = [p for p in pool if p[0] == (h, w)]
            if good and rng.random() < 0.4:
                args["initial_blocks"] = copy.deepcopy(rng.choice(good)[1])
            else:
                args["initial_blocks"] = random_partition(rng, h, w)
            ctx.count("initial_blocks:valid")
        elif r < 0.2:
            good = [p for p in pool if p[0] == (h, w)]
            args["initial_blocks"] = malformed_blocks(rng, h, w, rng.choice(good)[1] if good else None)
            ctx.count("initial_blocks:malformed")
        wk = Walk(ctx, h, w, args, rng.randint(1, steps), rng, check_all=check_all)
        wk.run()
        walks.append(wk)
        ctx.count(f"board:{min(h, w)}x{max(h, w)}" if h * w <= 9 else "board:>9cells")
        for q in wk.queries[-1:]:
            pass
        # harvest a valid state for later walks
        for (line, exp, kind, detail) in wk.queries:
            if kind == "copy_with_update" and rng.random() < 0.05:
                st = [[tuple(int(v) for v in c) for c in b] for b in exp]
                if oracle_part(h, w, st) is None:
                    pool.append(((h, w), st))
    return walks


def probe_limits(ctx):
    """Things outside the letter of the property that a user of the builder should know (recorded as notes)."""
    import cspuz.generator.segmentation as seg
    notes = []
    # recursion depth of _is_connected
    n = 1
    lim = sys.getrecursionlimit()
    blk = [(0, x) for x in range(lim + 50)]
    try:
        seg._is_connected(blk, None)
        notes.append(f"_is_connected on a 1x{len(blk)} line did not raise (recursion limit {lim})")
    except RecursionError:
        notes.append(f"_is_connected raises RecursionError on a 1x{len(blk)} line block (recursion limit {lim}): "
                     "candidates() crashes on boards with blocks of about 1000 cells; the property text speaks about the "
                     "values produced, not about crashes")
    # model agrees when given the same frame budget
    out = core.Driver().run([sx(["c18-isconn", 200, [[0, x] for x in range(300)], None]),
                             sx(["c18-isconn", 400, [[0, x] for x in range(300)], None])])
    if out != ["(err RecursionError)", "(ok T)"]:
        ctx.disagree("model-recursion-depth", got=out)
    # initial() with unsatisfiable bounds never returns; with no candidates it raises IndexError
    fake = FakeRandom(ctx.rng, max_choices=500)
    b = mk_builder(1, 5, {"min_num_blocks": 3, "min_block_size": 2})
    with patched_random(fake):
        try:
            b.initial()
            notes.append("initial() on 1x5 with min_num_blocks=3, min_block_size=2 returned (unexpected)")
        except StopWalk:
            notes.append("initial() on a 1x5 board with min_num_blocks=3, min_block_size=2 (unsatisfiable: needs 6 cells) does "
                         "not terminate: it alternates between [2,3] and [3,2] by move updates for ever (stopped after 500 "
                         "rounds); the property text does not cover termination")
        except IndexError:
            notes.append("initial() on 1x5 with min_num_blocks=3, min_block_size=2 raises IndexError (no candidates)")
    fake = FakeRandom(ctx.rng, max_choices=500)
    b = mk_builder(1, 1, {"min_num_blocks": 2})
    with patched_random(fake):
        try:
            b.initial()
        except IndexError:
            notes.append("initial() on a 1x1 board with min_num_blocks=2 raises IndexError from random.choice([]) "
                         "(candidates is empty while the bounds are unmet)")
        except StopWalk:
            notes.append("initial() on 1x1 with min_num_blocks=2 does not terminate")
    # degenerate boards: the single block built by initial() is empty
    try:
        r0 = mk_builder(0, 3, {"min_block_size": -1, "max_num_blocks": 5}).initial()
        if r0 == [[]]:
            notes.append("initial() on a 0x3 board with min_block_size=-1, max_num_blocks=5 (or with "
                         "allow_unmet_constraints_first=True) returns [[]]: one EMPTY block; C18_initial assumes a board with "
                         "at least one cell")
    except Exception as e:
        notes.append("initial() on a 0x3 board raises " + core.err_name(e))
    # the `continue` of the merge scan also skips the other direction of the same cell
    b = mk_builder(2, 2, {"max_block_size": 2})
    cs = b.candidates([[(0, 0)], [(0, 1)], [(1, 0), (1, 1)]])
    if not any(is_merge(u) for u in cs):
        notes.append("candidates never proposes merging [(0,0)] and [(0,1)] in [[(0,0)],[(0,1)],[(1,0),(1,1)]] on 2x2 with "
                     "max_block_size=2: the size test against the block below `continue`s past the test of the right "
                     "neighbour (a missed candidate, not an invalid one; outside the property)")
    return notes


def correspond(ctx):
    ctx.extra["rule"] = (
        "random walks of <= 60 proposed updates on boards <= 6x6 (plus 0-sized and 1x1 boards) from the value returned by "
        "the real SegmentationBuilder2D.initial(), over bound configurations with each of min/max block count/size given "
        "as None, 0, negative, satisfiable or unsatisfiable values, allow_unmet_constraints_first on/off, initial_blocks "
        "absent / a valid partition / malformed (duplicate, outside, negative, disconnected, missing, empty); the module's "
        "`random` is replaced in this process by a recorder fed from the check's PRNG and the recorded draws are given to "
        "the Lean model; compared per step: candidates() (merge part as a set, split/move parts in order), "
        "copy_with_update(), initial(), and direct split_block()/_is_connected() calls; an independent oracle checks "
        "partition / connectivity / bounds of every proposed update (sampled above 20 per state) and that no earlier value "
        "is modified, also when the returned value is mutated afterwards; plus a handful of walks on LARGE values per run "
        "(17x17 with min_num_blocks=265, 18x18 with ~290 blocks of <= 3 cells where initial() has to split blocks sitting at "
        "list indices >= 257, 23x23 with one block per cell where initial() has to merge, a 1x330 strip, one 260-cell block "
        "on 2x130 [oracle only in the quick tier: the model needs seconds per query there]; on each the updates replacing "
        "the blocks at the highest / lowest indices and at indices 255..258 are always among those checked, and the model "
        "is compared as on the small boards); a case = one candidates() call, non-trivial when "
        "it proposes at least one update, distinct by (board, configuration, state)")
    walks = gen_walks(ctx, ctx.n(600, 5000), 60, 6, check_all=ctx.n(20, 40))
    walks += large_walks(ctx, model=True, check_all=ctx.n(30, 60))
    compare(ctx, walks)
    ctx.c18_problems = []
    for wk in walks:
        for (sig, what, data) in wk.problems:
            ctx.disagree("oracle:" + sig, what=what[:600], data=data)
            ctx.c18_problems.append((sig, what, data))
    if not ctx.quick():
        # thorough tier: the exhaustive small-board search also runs on the unchanged tree
        for f in search(ctx, None, walks=0):
            ctx.disagree("search:" + f.signature, what=f.what, data=f.data)
            ctx.c18_problems.append((f.signature, f.what, f.data))
        ctx.extra["exhaustive"] = ("thorough tier: every state reachable within 4 proposed updates (all seed pairs) from initial() on "
                                   "boards <= 3x3 for %d bound configurations, oracle on every proposed update" % len(SEARCH_CONFIGS))
    notes = probe_limits(ctx)
    ctx.notes.extend(notes)
    ctx.extra["aliasing"] = (
        "copy_with_update deep-copies every kept block; the appended blocks are the very list objects stored in the update "
        "(candidates builds them freshly: current[i] + current[j], list comprehensions, split_block's new lists), so the "
        "result never shares a list with the value it was applied to, but it does share the appended lists with the update "
        "object: mutating a returned problem in place changes the candidate update (and any other problem built from the "
        "same update object). build_neighbor_generator applies each update once and never mutates problems, so no "
        "previously produced problem can change. initial() uses use_deepcopy=False only on its own local intermediate "
        "values (after deepcopy(initial_blocks)); only the final one escapes.")
    ctx.extra["assumptions"] = [
        "the model's draw streams range over everything random.randint/random.choice can return; which draws the global "
        "`random` actually produces is C19's matter",
        "CPython's recursion limit is a parameter (Cfg.recDepth) of the model; the correspondence runs use boards <= 6x6 "
        "where it is never reached",
    ]


# ---------------------------------------------------------------------
# bounded search on the real code against the oracle


class CurrentModified(Exception):
    pass


class Cycler:
    """`random` replacement that enumerates seed pairs: call number c, k-th pair drawn for a block of length n in this
    call -> the ((c * 2(n-1) + k) mod n(n-1))-th ordered pair of distinct indices."""

    def __init__(self, c):
        self.c = c
        self.k = {}
        self.pending = None
        self.vals = []
        self.foreign = 0

    def randint(self, a, b):
        if len(self.vals) > 20000:
            raise StopWalk("draw budget exhausted")
        n = b + 1
        if self.pending is not None and self.pending[0] != (a, b):
            # not the second draw of a seed pair (code under test draws something else): alternate over the range
            self.foreign += 1
            v = a + (self.foreign + self.c) % max(n - a, 1)
        elif self.pending is None:
            k = self.k.get(n, 0)
            self.k[n] = k + 1
            allp = [(i, j) for i in range(n) for j in range(n) if i != j] or [(0, 0)]
            p = allp[(self.c * 2 * (n - 1) + k) % len(allp)]
            self.pending = ((a, b), p[1])
            v = p[0]
        else:
            v = self.pending[1]
            self.pending = None
        self.vals.append(v)
        return v

    def choice(self, seq):
        raise StopWalk()


def all_candidates(b, cur):
    """Every update the real candidates() can propose for `cur` (all seed pairs), with the draws that produce it."""
    out = []
    seen = set()
    ncalls = max([1] + [(len(blk) + 1) // 2 for blk in cur])
    snap = copy.deepcopy(cur)
    for c in range(ncalls):
        fake = Cycler(c)
        with patched_random(fake):
            try:
                cands = b.candidates(cur)
            except StopWalk:
                continue
        if cur != snap:
            raise CurrentModified(snap, list(fake.vals))
        for k, u in enumerate(cands):
            key = repr(u)
            if key not in seen:
                seen.add(key)
                out.append((u, list(fake.vals), k))
    return out


SEARCH_CONFIGS = [
    {}, {"min_block_size": 2}, {"max_block_size": 3}, {"min_block_size": 2, "max_block_size": 4},
    {"min_num_blocks": 2, "max_num_blocks": 3}, {"max_num_blocks": 2, "min_block_size": 0, "max_block_size": 0},
    {"min_num_blocks": 3}, {"min_block_size": 2, "max_block_size": 2},
]


def check_update(h, w, args, b, cur, u, inv_before=True):
    """Applies one update on the real code and returns the oracle's complaint (or None)."""
    snap = copy.deepcopy(cur)
    nxt = b.copy_with_update(cur, u)
    bad = oracle_part(h, w, nxt)
    if bad is None and inv_before:
        bad = oracle_bounds_ok(h, w, args, nxt)
    if bad is None and cur != snap:
        bad = "previous-modified"
    if bad is None:
        keep = copy.deepcopy(nxt)
        for blk in nxt:
            blk.append((98, 98))
        if cur != snap:
            bad = "result-shares-previous"
        for blk in nxt:
            blk.pop()
        assert nxt == keep
    return bad, nxt


def search(ctx, why, depth=4, cap=400000, walks=None):
    found = {}

    def add(sig, what, data):
        if sig not in found:
            found[sig] = Finding(sig, what[:800], data)

    # 0. what the correspondence run's oracle already saw (re-checked through replay)
    for (sig, what, data) in getattr(ctx, "c18_problems", []):
        if why is None or data is None:
            continue
        try:
            f = replay(ctx, _jsonable(data))
        except Exception:
            f = None
        if f is not None:
            add(f.signature, f.what, f.data)

    # 0b. large values (more than 257 blocks, coordinates / block lengths above 256): oracle only, many more of the
    # proposed updates per state than the correspondence run checks
    for wk in large_walks(ctx, model=False, check_all=250):
        for (sig, what, data) in wk.problems:
            if data is not None:
                add(sig, what, data)

    # 1. exhaustive: every state reachable within `depth` updates on boards <= 3x3
    total = 0
    for h in range(1, 4):
        for w in range(h, 4):
            for args in SEARCH_CONFIGS:
                b = mk_builder(h, w, dict(args))
                fake = FakeRandom(ctx.rng, max_choices=200)
                with patched_random(fake):
                    try:
                        start = b.initial()
                    except (StopWalk, IndexError):
                        continue
                    except Exception as e:
                        add("crash:initial-" + core.err_name(e), f"initial() of {h}x{w} {args} raised {core.err_name(e)}",
                            {"h": h, "w": w, "args": args, "initial": True, "bad": "crash"})
                        continue
                bad = oracle_inv(h, w, args, start)
                if bad:
                    add("initial:" + bad, say_initial(h, w, args, start, bad),
                        {"h": h, "w": w, "args": args, "initial": True, "bad": bad})
                    continue
                frontier = [start]
                seen = {repr(start)}
                for d in range(depth):
                    nxt_frontier = []
                    for cur in frontier:
                        if total >= cap:
                            break
                        total += 1
                        try:
                            cs = all_candidates(b, cur)
                        except CurrentModified as e:
                            add("purity:candidates-modifies-current", f"candidates() modified its argument {e.args[0]} ({h}x{w} {args})",
                                {"h": h, "w": w, "args": args, "state": canon_blocks(e.args[0]), "draws": e.args[1], "cand": 0,
                                 "bad": "candidates-modifies-current"})
                            continue
                        except Exception as e:
                            add("crash:candidates-" + core.err_name(e), f"candidates raised {core.err_name(e)} on {cur} ({h}x{w} {args})",
                                {"h": h, "w": w, "args": args, "state": canon_blocks(cur), "draws": [], "cand": 0, "bad": "crash"})
                            continue
                        for (u, vals, k) in cs:
                            bad, nxt = check_update(h, w, args, b, cur, u)
                            if bad:
                                add("invariant:" + bad if "previous" not in bad else "purity:" + bad,
                                    say_update(h, w, args, u, cur, nxt, bad),
                                    {"h": h, "w": w, "args": args, "state": canon_blocks(cur), "draws": vals, "cand": k, "bad": bad})
                                continue
                            r = repr(nxt)
                            if r not in seen:
                                seen.add(r)
                                nxt_frontier.append(nxt)
                    frontier = nxt_frontier
    ctx.count("search:states-expanded", total)
    if total >= cap:
        ctx.notes.append("search: state cap %d reached, the depth-%d enumeration is incomplete" % (cap, depth))
    # 2. random partitions generated independently of the builder (spanning-tree shapes), every seed pair
    if walks != 0:
        for _ in range(ctx.n(400, 4000)):
            h, w = ctx.rng.randint(1, 5), ctx.rng.randint(1, 5)
            args = ctx.rng.choice(SEARCH_CONFIGS)
            cur = random_partition(ctx.rng, h, w)
            if oracle_inv(h, w, args, cur) is not None:
                continue
            b = mk_builder(h, w, dict(args))
            try:
                cs = all_candidates(b, cur)
            except CurrentModified as e:
                add("purity:candidates-modifies-current", f"candidates() modified its argument {e.args[0]} ({h}x{w} {args})",
                    {"h": h, "w": w, "args": args, "state": canon_blocks(e.args[0]), "draws": e.args[1], "cand": 0,
                     "bad": "candidates-modifies-current"})
                continue
            except Exception as e:
                add("crash:candidates-" + core.err_name(e), f"candidates raised {core.err_name(e)} on {cur} ({h}x{w} {args})",
                    {"h": h, "w": w, "args": args, "state": canon_blocks(cur), "draws": [], "cand": 0, "bad": "crash"})
                continue
            ctx.count("search:random-partitions")
            for (u, vals, k) in cs:
                bad, nxt = check_update(h, w, args, b, cur, u)
                if bad:
                    add("invariant:" + bad if "previous" not in bad else "purity:" + bad,
                        say_update(h, w, args, u, cur, nxt, bad),
                        {"h": h, "w": w, "args": args, "state": canon_blocks(cur), "draws": vals, "cand": k, "bad": bad})
    # 3. random walks with the oracle on every proposed update (larger boards, deeper)
    nw = ctx.n(150, 1500) if walks is None else walks
    for wk in (gen_walks(ctx, nw, 60, 6, check_all=None) if nw else []):
        for (sig, what, data) in wk.problems:
            if data is not None:
                add(sig, what, data)
    return list(found.values())


def _jsonable(x):
    import json
    return json.loads(json.dumps(x, default=str))


def _tup(bs):
    return [[tuple(c) for c in b] for b in bs]


def replay(ctx, data):
    h, w = data.get("h"), data.get("w")
    if data.get("isconn"):
        import cspuz.generator.segmentation as seg
        blk = [tuple(c) for c in data["block"]]
        excl = None if data["excluded"] is None else tuple(data["excluded"])
        got = seg._is_connected(list(blk), excl)
        want = orth_connected([c for c in blk if c != excl])
        if got != want:
            return Finding("is_connected:wrong", f"_is_connected({blk}, {excl}) = {got}, block minus cell connected = {want}", data)
        return None
    if h is None:
        return None
    args = dict(data.get("args") or {})
    if args.get("initial_blocks") is not None:
        args["initial_blocks"] = _tup(args["initial_blocks"])
    b = mk_builder(h, w, args)
    if data.get("initial"):
        for seed in range(20):
            import random as _r
            fake = FakeRandom(_r.Random(seed), max_choices=300)
            with patched_random(fake):
                try:
                    res = b.initial()
                except (StopWalk, IndexError):
                    continue
                except Exception as e:
                    if args.get("initial_blocks") is None:
                        return Finding("crash:initial-" + core.err_name(e),
                                       f"initial() of {h}x{w} {args} raised {core.err_name(e)} (an intermediate value was invalid)", data)
                    continue
            bad = oracle_inv(h, w, args, res)
            if bad:
                return Finding("initial:" + bad, say_initial(h, w, args, res, bad), data)
        return None
    if "state" not in data:
        return None
    cur = _tup(data["state"])
    before = copy.deepcopy(cur)
    fake = FakeRandom(None, script=data.get("draws") or [])
    with patched_random(fake):
        try:
            cands = b.candidates(cur)
        except StopWalk:
            return None
        except Exception as e:
            if data.get("bad") == "crash":
                return Finding("crash:candidates-" + core.err_name(e), f"candidates raised {core.err_name(e)} on {cur}", data)
            return None
    if cur != before:
        return Finding("purity:candidates-modifies-current", f"candidates() modified its argument: {before} became {cur}", data)
    k = data.get("cand", 0)
    if k >= len(cands):
        return None
    inv_before = oracle_inv(h, w, args, cur) is None
    bad, nxt = check_update(h, w, args, b, cur, cands[k], inv_before)
    if bad:
        sig = ("purity:" if "previous" in bad else "invariant:") + bad
        return Finding(sig, say_update(h, w, args, cands[k], cur, nxt, bad), data)
    return None
