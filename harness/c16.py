"""C16 — Puzzle URL codecs round-trip and agree with the puzz.link/pzv format.

correspond: random problems of every module (all clue kinds, boards 1x1 .. 8x8, mostly non-square, room partitions grown as
random spanning forests, rooms and cells shuffled) through the REAL serialize_<p> / deserialize_<p> / get_puzzle_info_from_url /
compass.to_/parse_ / star_battle.problem_to_pzv_url / aquarium.problem_to_url / util.encode_array /
util.encode_grid_segmentation / util.blocks_to_block_id versus the Lean model (exact URL text, decoded problem, dimensions,
exception class), and the INDEPENDENT pzpr decoders (Lean Spec/Pzpr.lean through the driver, and the plain-Python twin below)
applied to the real URLs; plus a malformed stream (one mutation per URL; malformed arguments of the legacy encoders).

search: the real code only, against the plain-Python oracle written from the property text: round trip, dimensions,
frame order name/width/height, the pzpr twin reads the body back as the problem, legacy text == combinator text.
"""
import itertools
import re

from . import core, sergen
from . import sercommon as sc
from .core import Finding

THEOREMS = [
    "Cspuz.C16.C16_url_frame",
    "Cspuz.C16.C16_url_roundtrip_nurikabe",
    "Cspuz.C16.C16_url_roundtrip_masyu",
    "Cspuz.C16.C16_url_roundtrip_slitherlink",
    "Cspuz.C16.C16_url_roundtrip_sudoku",
    "Cspuz.C16.C16_url_roundtrip_nurimisaki",
    "Cspuz.C16.C16_url_roundtrip_yajilin",
    "Cspuz.C16.C16_url_roundtrip_heyawake",
    "Cspuz.C16.C16_url_roundtrip_lits",
    "Cspuz.C16.C16_url_roundtrip_norinori",
    "Cspuz.C16.C16_url_roundtrip_compass",
    "Cspuz.C16.C16_pzpr_grids",
    "Cspuz.C16.C16_pzpr_rooms",
    "Cspuz.C16.C16_pzpr_partition",
    "Cspuz.C16.C16_pzpr_star_battle",
    "Cspuz.C16.C16_pzpr_aquarium",
    "Cspuz.C16.C16_pzpr_compass",
    "Cspuz.C16.C16_legacy_agree",
]

PATCH_NOTES = sc.PATCH_NOTES + """
 D13 compass.parse_puzz_link_url: `width, height, body = url.split("/")[-3:]` (the URL carries the width first)
 D14 compass.parse_puzz_link_url: also read the `+xxx` form (three hex digits) that encode_array writes for 256..4095"""

GRID = ["nurikabe", "masyu", "slitherlink", "sudoku", "nurimisaki", "yajilin"]
ROOMS = ["lits", "norinori"]
URLNAME = {"slitherlink": "slither"}


def gen(ctx):
    sergen.gen_all()


# ================================================================== the independent pzpr decoder, plain-Python twin
# Written from the public description of the pzpr URL format (not from cspuz, not from the Lean model).

class PzErr(Exception):
    pass


_B36 = "0123456789abcdefghijklmnopqrstuvwxyz"


def _dv(c, base):
    v = _B36.find(c) if len(c) == 1 else -1
    if v < 0 or v >= base:
        raise PzErr("bad digit %r" % c)
    return v


def pz_frame(url):
    """-> (name, cols, rows, body)"""
    for pre in ("https://puzz.link/p?", "http://puzz.link/p?", "https://pzv.jp/p.html?", "http://pzv.jp/p.html?"):
        if url.startswith(pre):
            parts = url[len(pre):].split("/")
            if len(parts) < 4 or not parts[0]:
                raise PzErr("frame")
            if not re.fullmatch("[0-9]+", parts[1]) or not re.fullmatch("[0-9]+", parts[2]):
                raise PzErr("dims")
            return parts[0], int(parts[1]), int(parts[2]), "/".join(parts[3:])
    raise PzErr("prefix")


def pz_number16(n, s):
    """n cells of number16: -1 no clue, -2 '?', k a number; returns (cells, rest)."""
    out, i = [], 0
    while len(out) < n and i < len(s):
        c = s[i]
        if c == "-":
            if i + 3 > len(s):
                raise PzErr("trunc")
            out.append(_dv(s[i + 1], 16) * 16 + _dv(s[i + 2], 16))
            i += 3
        elif c == "+":
            if i + 4 > len(s):
                raise PzErr("trunc")
            out.append(_dv(s[i + 1], 16) * 256 + _dv(s[i + 2], 16) * 16 + _dv(s[i + 3], 16))
            i += 4
        elif c == ".":
            out.append(-2)
            i += 1
        elif "g" <= c <= "z":
            out += [-1] * (ord(c) - ord("f"))
            i += 1
        else:
            out.append(_dv(c, 16))
            i += 1
    out += [-1] * (n - len(out))
    return out[:n], s[i:]


def pz_bitmap(n, s):
    k = (n + 4) // 5
    if len(s) < k:
        raise PzErr("short bitmap")
    bits = []
    for c in s[:k]:
        v = _dv(c, 32)
        bits += [bool(v & 16), bool(v & 8), bool(v & 4), bool(v & 2), bool(v & 1)]
    return bits[:n], s[k:]


def pz_borders(rows, cols, s):
    v, s = pz_bitmap(rows * max(cols - 1, 0), s)
    hz, s = pz_bitmap(max(rows - 1, 0) * cols, s)
    cw = max(cols - 1, 0)
    vert = [v[y * cw:(y + 1) * cw] for y in range(rows)]
    hor = [hz[y * cols:(y + 1) * cols] for y in range(max(rows - 1, 0))]
    return (vert, hor), s


def pz_rooms(rows, cols, borders):
    """connected components of the cells not separated by a border; rooms by least cell, cells row-major"""
    vert, hor = borders
    seen, rooms = {}, []
    for y0 in range(rows):
        for x0 in range(cols):
            if (y0, x0) in seen:
                continue
            comp, todo = [], [(y0, x0)]
            seen[(y0, x0)] = len(rooms)
            while todo:
                y, x = todo.pop()
                comp.append((y, x))
                nb = []
                if y > 0 and not hor[y - 1][x]:
                    nb.append((y - 1, x))
                if y + 1 < rows and not hor[y][x]:
                    nb.append((y + 1, x))
                if x > 0 and not vert[y][x - 1]:
                    nb.append((y, x - 1))
                if x + 1 < cols and not vert[y][x]:
                    nb.append((y, x + 1))
                for c in nb:
                    if c not in seen:
                        seen[c] = len(rooms)
                        todo.append(c)
            rooms.append(sorted(comp))
    return rooms


def pz_fourcell(n, s):
    out, i = [], 0
    while len(out) < n and i < len(s):
        c = s[i]
        i += 1
        if "0" <= c <= "4":
            out.append(int(c))
        elif "5" <= c <= "9":
            out += [int(c) - 5, -1]
        elif "a" <= c <= "e":
            out += [ord(c) - ord("a"), -1, -1]
        elif "g" <= c <= "z":
            out += [-1] * (ord(c) - ord("f"))
        elif c == ".":
            out.append(-2)
        else:
            raise PzErr("4cell %r" % c)
    out += [-1] * (n - len(out))
    return out[:n], s[i:]


def pz_circle(n, s):
    k = (n + 2) // 3
    if len(s) < k:
        raise PzErr("short circles")
    out = []
    for c in s[:k]:
        v = _dv(c, 27)
        out += [v // 9 % 3, v // 3 % 3, v % 3]
    return out[:n], s[k:]


def pz_arrow(n, s):
    out, i = [], 0
    while len(out) < n and i < len(s):
        c = s[i]
        if "0" <= c <= "4":
            if i + 2 > len(s):
                raise PzErr("trunc")
            d = s[i + 1]
            out.append((int(c), -2 if d == "." else _dv(d, 16)))
            i += 2
        elif "5" <= c <= "9":
            if i + 3 > len(s):
                raise PzErr("trunc")
            out.append((int(c) - 5, _dv(s[i + 1], 16) * 16 + _dv(s[i + 2], 16)))
            i += 3
        elif c == "-":
            if i + 5 > len(s):
                raise PzErr("trunc")
            out.append((_dv(s[i + 1], 5), _dv(s[i + 2], 16) * 256 + _dv(s[i + 3], 16) * 16 + _dv(s[i + 4], 16)))
            i += 5
        elif "a" <= c <= "z":
            out += [None] * (ord(c) - ord("a") + 1)
            i += 1
        else:
            raise PzErr("arrow %r" % c)
    out += [None] * (n - len(out))
    return out[:n], s[i:]


def _pz_numtoken(s, i):
    if i >= len(s):
        raise PzErr("trunc")
    c = s[i]
    if c == ".":
        return -1, i + 1
    if c == "-":
        if i + 3 > len(s):
            raise PzErr("trunc")
        return _dv(s[i + 1], 16) * 16 + _dv(s[i + 2], 16), i + 3
    if c == "+":
        if i + 4 > len(s):
            raise PzErr("trunc")
        return _dv(s[i + 1], 16) * 256 + _dv(s[i + 2], 16) * 16 + _dv(s[i + 3], 16), i + 4
    return _dv(c, 16), i + 1


def pz_compass(n, s):
    out, i = [], 0
    while len(out) < n and i < len(s):
        c = s[i]
        if "g" <= c <= "z":
            out += [None] * (ord(c) - ord("f"))
            i += 1
        else:
            u, i = _pz_numtoken(s, i)
            d, i = _pz_numtoken(s, i)
            lf, i = _pz_numtoken(s, i)
            r, i = _pz_numtoken(s, i)
            out.append((u, d, lf, r))
    out += [None] * (n - len(out))
    return out[:n], s[i:]


def _rows(flat, rows, cols):
    return [flat[y * cols:(y + 1) * cols] for y in range(rows)]


def _whole(r):
    if r[1] != "":
        raise PzErr("unread text %r" % r[1])
    return r[0]


def pz_decode(kind, rows, cols, body):
    """The pzpr board of a body, canonicalised as nested lists / tuples (raises PzErr)."""
    if kind == "numgrid":
        return _rows(_whole(pz_number16(rows * cols, body)), rows, cols)
    if kind == "slither":
        return _rows(_whole(pz_fourcell(rows * cols, body)), rows, cols)
    if kind == "masyu":
        return _rows(_whole(pz_circle(rows * cols, body)), rows, cols)
    if kind == "yajilin":
        return _rows(_whole(pz_arrow(rows * cols, body)), rows, cols)
    if kind == "compass":
        return _rows(_whole(pz_compass(rows * cols, body)), rows, cols)
    if kind == "rooms":
        return pz_rooms(rows, cols, _whole(pz_borders(rows, cols, body)))
    if kind == "heyawake":
        b, rest = pz_borders(rows, cols, body)
        rooms = pz_rooms(rows, cols, b)
        return (rooms, _whole(pz_number16(len(rooms), rest)))
    if kind == "star":
        k, _, rest = body.partition("/")
        if not re.fullmatch("[0-9]+", k):
            raise PzErr("stars")
        return (int(k), pz_rooms(rows, cols, _whole(pz_borders(rows, cols, rest))))
    if kind == "aquarium":      # <borders>/<numbers outside the board: top, then left>  (the '/' is UNSURE, see Spec/Pzpr.lean)
        b, rest = pz_borders(rows, cols, body)
        if not rest.startswith("/"):
            raise PzErr("aquarium: '/' expected after the borders")
        v = _whole(pz_number16(cols + rows, rest[1:]))
        return (pz_rooms(rows, cols, b), v[:cols], v[cols:])
    raise ValueError(kind)


PZKIND = {"nurikabe": "numgrid", "sudoku": "numgrid", "nurimisaki": "numgrid", "slitherlink": "slither", "masyu": "masyu",
          "yajilin": "yajilin", "lits": "rooms", "norinori": "rooms", "heyawake": "heyawake", "compass": "compass",
          "star_battle": "star", "aquarium": "aquarium"}
PZNAME = {"nurikabe": "nurikabe", "sudoku": "sudoku", "nurimisaki": "nurimisaki", "slitherlink": "slither", "masyu": "masyu",
          "yajilin": "yajilin", "lits": "lits", "norinori": "norinori", "heyawake": "heyawake", "compass": "compass",
          "star_battle": "starbattle", "aquarium": "aquarium"}

_YDIR = {"^": 1, "v": 2, "<": 3, ">": 4}


def expected_board(p, prob):
    """What the problem looks like on a pzpr board (from the property text / module docstrings)."""
    if p == "nurikabe":
        return [[-2 if v == -1 else (-1 if v == 0 else v) for v in r] for r in prob["grid"]]
    if p == "sudoku":
        return [[-1 if v == 0 else v for v in r] for r in prob["grid"]]
    if p == "nurimisaki":
        return [[-2 if v == 0 else v for v in r] for r in prob["grid"]]
    if p in ("slitherlink", "masyu"):
        return [list(r) for r in prob["grid"]]
    if p == "yajilin":
        return [[None if v == ".." else ((0, -2) if v == "??" else (_YDIR[v[0]], int(v[1:]))) for v in r] for r in prob["grid"]]
    if p in ROOMS:
        return sc.canon_rooms(prob["rooms"])
    if p == "heyawake":
        canon = sc.canon_rooms(prob["rooms"])
        by = {tuple(sorted(r)): c for r, c in zip(prob["rooms"], prob["clues"])}
        return (canon, [by[tuple(r)] for r in canon])
    if p == "compass":
        g = [[None] * prob["w"] for _ in range(prob["h"])]
        for (y, x, u, lf, d, r) in prob["pos"]:
            g[y][x] = (u, d, lf, r)
        return g
    if p == "star_battle":
        return (prob["k"], sc.canon_rooms(_rooms_of_ids(prob["ids"])))
    if p == "aquarium":
        return (sc.canon_rooms(prob["rooms"]), list(prob["col"]), list(prob["row"]))
    raise ValueError(p)


def _rooms_of_ids(ids):
    rooms = {}
    for y, r in enumerate(ids):
        for x, v in enumerate(r):
            rooms.setdefault(v, []).append((y, x))
    return list(rooms.values())


def _canon_board(v):
    """lists / tuples / ints / None -> one comparable structure (tuples)"""
    if isinstance(v, (list, tuple)):
        return tuple(_canon_board(x) for x in v)
    if isinstance(v, bool):
        return int(v)
    return v


# ================================================================== problem generators

def _dims(rng, maxd=8):
    r = rng.random()
    if r < 0.1:
        return (1, 1)
    if r < 0.25:
        return (1, rng.randint(1, maxd)) if rng.random() < 0.5 else (rng.randint(1, maxd), 1)
    h, w = rng.randint(1, maxd), rng.randint(1, maxd)
    if h == w and rng.random() < 0.8:
        w = w % maxd + 1
    return (h, w)


_CELLS = {
    "nurikabe": [0] * 10 + [-1, -1] + list(range(1, 16)) + [16, 17, 255, 256, 4095],
    "sudoku": [0] * 8 + list(range(1, 10)) + [15, 16, 255, 256, 4095],
    "nurimisaki": [-1] * 10 + [0, 0, 1, 2, 3, 9, 15, 16, 255, 256, 4095],
    "slitherlink": [-1] * 6 + [0, 1, 2, 3, 4],
    "masyu": [0, 0, 0, 1, 2],
}
_YNUM = [0, 1, 2, 3, 9, 10, 15, 16, 17, 99, 100, 255]


def _ycell(rng):
    r = rng.random()
    if r < 0.55:
        return ".."
    if r < 0.65:
        return "??"
    return rng.choice("^v<>") + str(rng.choice(_YNUM))


def _clue(rng):
    return rng.choice([-1, -1, -1, 0, 1, 2, 5, 9, 15, 16, 17, 255, 256, 4095])


def _rect_partition(rng, h, w):
    """partition of the board into rectangles (random guillotine cuts): list of (y0, x0, y1, x1)"""
    out = []

    def cut(y0, x0, y1, x1):
        hh, ww = y1 - y0, x1 - x0
        if hh * ww == 1 or rng.random() < 0.3:
            out.append((y0, x0, y1, x1))
            return
        if hh > 1 and (ww == 1 or rng.random() < 0.5):
            m = rng.randint(y0 + 1, y1 - 1)
            cut(y0, x0, m, x1)
            cut(m, x0, y1, x1)
        else:
            m = rng.randint(x0 + 1, x1 - 1)
            cut(y0, x0, y1, m)
            cut(y0, m, y1, x1)

    cut(0, 0, h, w)
    return out


def gen_problem(rng, p, maxd=8):
    """-> dict with the arguments of the real encoder (`args`) and the typed problem."""
    h, w = _dims(rng, maxd)
    if p in _CELLS:
        g = [[rng.choice(_CELLS[p]) for _ in range(w)] for _ in range(h)]
        return {"p": p, "h": h, "w": w, "grid": g, "args": (g,), "expect": g}
    if p == "yajilin":
        g = [[_ycell(rng) for _ in range(w)] for _ in range(h)]
        return {"p": p, "h": h, "w": w, "grid": g, "args": (g,), "expect": g}
    if p in ROOMS:
        canon = sc.random_partition(rng, h, w)
        rooms = sc.shuffled_rooms(rng, canon) if rng.random() < 0.6 else canon
        return {"p": p, "h": h, "w": w, "rooms": rooms, "args": (h, w, rooms), "expect": (h, w, sc.canon_rooms(canon))}
    if p == "heyawake":
        if rng.random() < 0.25:
            rects = _rect_partition(rng, h, w)
            rng.shuffle(rects)
            prob = [(y0, x0, y1, x1, _clue(rng)) for (y0, x0, y1, x1) in rects]
            rooms = [[(y, x) for y in range(y0, y1) for x in range(x0, x1)] for (y0, x0, y1, x1, _) in prob]
            clues = [r[4] for r in prob]
            args = (h, w, prob)
        else:
            canon = sc.random_partition(rng, h, w)
            rooms = sc.shuffled_rooms(rng, canon) if rng.random() < 0.6 else canon
            clues = [_clue(rng) for _ in rooms]
            args = (h, w, rooms, clues)
        cr = sc.canon_rooms(rooms)
        by = {tuple(sorted(r)): c for r, c in zip(rooms, clues)}
        return {"p": p, "h": h, "w": w, "rooms": rooms, "clues": clues, "args": args,
                "expect": (h, w, (cr, [by[tuple(r)] for r in cr]))}
    if p == "compass":
        cells = [(y, x) for y in range(h) for x in range(w)]
        k = rng.randint(0, min(len(cells), 1 + len(cells) // 3))
        chosen = sorted(rng.sample(cells, k))
        num = lambda: rng.choice([-1, -1, 0, 1, 2, 6, 9, 10, 15, 16, 17, 40, 255] + ([256, 300, 4095] if rng.random() < 0.15 else []))
        pos = [(y, x, num(), num(), num(), num()) for (y, x) in chosen]
        return {"p": p, "h": h, "w": w, "pos": pos, "args": (h, w, pos), "expect": (h, w, pos)}
    if p == "star_battle":
        n = rng.randint(1, maxd)
        canon = sc.random_partition(rng, n, n)
        order = list(range(len(canon)))
        rng.shuffle(order)
        ids = [[0] * n for _ in range(n)]
        for i, r in zip(order, canon):
            for (y, x) in r:
                ids[y][x] = i
        k = rng.randint(0, 3)
        return {"p": p, "h": n, "w": n, "k": k, "ids": ids, "args": (n, k, ids)}
    if p == "aquarium":
        canon = sc.random_partition(rng, h, w)
        rooms = sc.shuffled_rooms(rng, canon) if rng.random() < 0.5 else canon
        row = [_clue(rng) for _ in range(h)]
        col = [_clue(rng) for _ in range(w)]
        return {"p": p, "h": h, "w": w, "rooms": rooms, "row": row, "col": col, "args": (h, w, rooms, row, col)}
    raise ValueError(p)


def real_encoder(p):
    import importlib
    m = importlib.import_module("cspuz.puzzle." + p)
    if p == "compass":
        return m.to_puzz_link_url
    if p == "star_battle":
        return m.problem_to_pzv_url
    if p == "aquarium":
        return m.problem_to_url
    return getattr(m, "serialize_" + p)


def real_decoder(p):
    import importlib
    m = importlib.import_module("cspuz.puzzle." + p)
    if p == "compass":
        return m.parse_puzz_link_url
    return getattr(m, "deserialize_" + p)


# ================================================================== separate calls, separate results
# "decoding the URL produced for a problem returns that problem" holds for EVERY decode, whatever the caller did with the
# result of an earlier one; "identical data -> identical text" holds whatever was encoded before.

COMB_PUZZLES = GRID + ROOMS + ["heyawake"]


def decode_entries(p, url):
    """Every way the real code offers to decode `url` of module `p`: [(name, thunk)]."""
    import cspuz.problem_serializer as ps
    out = [("%s(url)" % real_decoder(p).__name__, lambda: real_decoder(p)(url))]
    if p in COMB_PUZZLES:
        comb = _objs()[p][1]
        out.append(("deserialize_problem_as_url(%s_COMBINATOR, url, return_size=True)" % p.upper(),
                    lambda: ps.deserialize_problem_as_url(comb, url, return_size=True)))
        out.append(("deserialize_problem_as_url(%s_COMBINATOR, url, allowed_puzzles=[%r], allow_failure=True)" % (p.upper(), PZNAME[p]),
                    lambda: ps.deserialize_problem_as_url(comb, url, allowed_puzzles=[PZNAME[p]], allow_failure=True)))
        m = ps._DESERIALIZE_URL_REG.match(url)
        if m is not None:
            body, hh, ww = m[4], int(m[3]), int(m[2])
            out.append(("deserialize_problem(%s_COMBINATOR, %r, height=%d, width=%d)" % (p.upper(), body, hh, ww),
                        lambda: ps.deserialize_problem(comb, body, height=hh, width=ww)))
    return out


_PUZZLE_OBJECTS = []


def _objs():
    if not _PUZZLE_OBJECTS:
        _PUZZLE_OBJECTS.append(sc.puzzle_objects())
    return _PUZZLE_OBJECTS[0]


def check_alias(p, url, which=None, first=None):
    """decode -> the caller edits the decoded problem in place -> decode the same URL again: the second result is the
    problem again.  `which` selects entry points of decode_entries by index (None = all); `first` = outcome of entry 0 that
    was already computed (consumed).  Returns None or (signature, text)."""
    ents = decode_entries(p, url)
    for i, (name, thunk) in enumerate(ents):
        if which is not None and i not in which:
            continue
        bad = sc.alias_probe(thunk, 5, first if i == 0 else None)
        if bad:
            return (_sig(p, "decoded-problem-shared-between-calls"), "%s with url = %r: %s" % (name, url, _short(bad, 900)))
    return None


def vary_in_place(pb):
    """Turns the problem held by pb["args"] IN PLACE (same list objects) into another valid problem of the same module and
    board; an involution (a second call restores it).  Returns False if this problem has no such variation."""
    p, a = pb["p"], pb["args"]
    if p in GRID:
        g = a[0]
    elif p == "star_battle":
        g = a[2]
    else:
        g = None
    if g is not None:
        if len(g) >= 2 and g[0] != g[-1]:
            g.reverse()
            return True
        if g and len(g[0]) >= 2 and any(r != r[::-1] for r in g):
            for r in g:
                r.reverse()
            return True
        return False
    if p == "heyawake" and len(a) == 4 or p == "aquarium":
        for l in a[3:]:
            if l != l[::-1]:
                l.reverse()
                return True
        return False
    if p == "compass":
        pos = a[2]
        if pos and any(c[2:] != c[2:][::-1] for c in pos):
            pos[:] = [c[:2] + c[2:][::-1] for c in pos]
            return True
    return False


def check_encoder_state(pb):
    """identical data -> identical text, whatever the encoder was given before: encode, edit the argument lists in place
    into another problem, encode the SAME objects again and a fresh deep copy of them: same outcome.  -> None or (sig, text)"""
    import copy
    p = pb["p"]
    enc = real_encoder(p)
    sc.run_guarded(lambda: enc(*pb["args"]), 5)
    if not vary_in_place(pb):
        return None
    try:
        same = sc.run_guarded(lambda: enc(*pb["args"]), 5)
        fresh_args = copy.deepcopy(pb["args"])
        fresh = sc.run_guarded(lambda: enc(*fresh_args), 5)
        shown = repr(fresh_args)
    finally:
        vary_in_place(pb)
    if same != fresh:
        return (_sig(p, "encoder-remembers-earlier-argument"),
                "%s: after encoding a problem and editing its lists in place into %s, encoding the same objects gives %r but equal fresh "
                "objects give %r" % (enc.__name__, _short(shown, 600), same, fresh))
    return None


# ================================================================== s-expressions of the model ops

def _ints(l):
    return "(" + " ".join(str(v) for v in l) + ")"


def _intgrid(g):
    return "(" + " ".join(_ints(r) for r in g) + ")"


def _blocks(rooms):
    return "(" + " ".join("(" + " ".join("(%d %d)" % (y, x) for (y, x) in r) + ")" for r in rooms) + ")"


def enc_line(prob):
    p = prob["p"]
    a = prob["args"]
    if p in GRID:
        return "(c16 sergrid %s %s)" % (p, sc.val_sx(a[0]))
    if p in ROOMS:
        return "(c16 serrooms %s %d %d %s)" % (p, a[0], a[1], sc.val_sx(a[2]))
    if p == "heyawake":
        if len(a) == 3:
            return "(c16 serheyrect %d %d (%s))" % (a[0], a[1], " ".join(_ints(r) for r in a[2]))
        return "(c16 serhey %d %d %s %s)" % (a[0], a[1], sc.val_sx(a[2]), sc.val_sx(a[3]))
    if p == "compass":
        return "(c16 compto %d %d (%s))" % (a[0], a[1], " ".join(_ints(c) for c in a[2]))
    if p == "star_battle":
        return "(c16 star %d %d %s)" % (a[0], a[1], _intgrid(a[2]))
    if p == "aquarium":
        return "(c16 aqua %d %d %s %s %s)" % (a[0], a[1], _blocks(a[2]), sc.vals_sx(a[3]), sc.vals_sx(a[4]))
    raise ValueError(p)


def dec_line(p, url):
    if p == "compass":
        return "(c16 compparse %s)" % sc.cps(url)
    return "(pde %s %s)" % (p, sc.cps(url))


def compass_outcome(o):
    """real result of parse_puzz_link_url -> the model's reply text (ZeroDivisionError is `.runtimeError` in the model)"""
    if o[0] == "diverge":
        return "diverge"
    if o[0] == "err":
        return "(err %s)" % ("RuntimeError" if o[1] == "ZeroDivisionError" else o[1])
    h, w, res = o[1]
    return "(ok %d %d (%s))" % (h, w, " ".join(_ints(c) for c in res))


def compass_in_model_domain(url):
    """text on which the model's `int()` is faithful: no whitespace, no `_`, no `0x` after a `+` (see Model/PuzzleCodecs.lean)"""
    tail = "/".join(url.split("/")[-3:])
    if any(c.isspace() for c in tail) or "_" in tail:
        return False
    return not re.search(r"\+.{0,2}[xX]", tail)


def info_outcome(o):
    if o[0] != "ret":
        return "diverge" if o[0] == "diverge" else "(err %s)" % o[1]
    if o[1] is None:
        return "none"
    n, h, w = o[1]
    return "(ok %s %d %d)" % (sc.cps(n), h, w)


def board_of_reply(kind, reply):
    """reply of `(pz kind …)` -> the same canonical structure as pz_decode (None if the spec decoder refused)"""
    t = core.parse_sx(reply)
    if t == "none" or t is None:
        return None
    a = t[1:]

    def cells(g, f):
        return [[f(c) for c in row] for row in g]

    def rooms(r):
        return [[(int(c[0]), int(c[1])) for c in room] for room in r]

    if kind in ("numgrid", "slither", "masyu"):
        return cells(a[0], int)
    if kind == "yajilin":
        return cells(a[0], lambda c: None if c == "N" else (int(c[0]), int(c[1])))
    if kind == "compass":
        return cells(a[0], lambda c: None if c == "N" else tuple(int(v) for v in c))
    if kind == "rooms":
        return rooms(a[0])
    if kind == "heyawake":
        return (rooms(a[0]), [int(v) for v in a[1]])
    if kind == "star":
        return (int(a[0]), rooms(a[1]))
    if kind == "aquarium":
        return (rooms(a[0]), [int(v) for v in a[1]], [int(v) for v in a[2]])
    raise ValueError(kind)


# ================================================================== correspondence

ALL = GRID + ROOMS + ["heyawake", "compass", "star_battle", "aquarium"]


def _short(x, n=400):
    s = x if isinstance(x, str) else repr(x)
    return s if len(s) <= n else s[:n] + "…"


def _property(ctx, r, data):
    """r = None or (signature, text) from an oracle of the property itself (real code only): a disagreement of kind
    `property:` plus the concrete failing input"""
    if r is None:
        return
    ctx.count("property-oracle:FAIL")
    ctx.disagree("property:" + r[0], what=r[1])
    if not hasattr(ctx, "concrete"):
        ctx.concrete = []
    if not any(f.signature == r[0] for f in ctx.concrete):
        ctx.concrete.append(Finding(r[0], r[1], data))


def correspond(ctx):
    ctx.extra["rule"] = (
        "per module (nurikabe, masyu, slitherlink, sudoku, nurimisaki, yajilin, heyawake [both argument forms], lits, norinori, compass, "
        "star_battle, aquarium): random problems with every clue kind (numbers across 15/16/255/256/4095, '?' clues, yajilin '??' and "
        "two-digit numbers), boards 1x1..8x8 mostly NON-square incl. 1xN / Nx1, room partitions grown as random spanning forests with rooms "
        "and cells shuffled -> real encoder vs model (exact URL text or exception class); every real URL -> real decoder vs model, "
        "get_puzzle_info_from_url vs model, and the independent pzpr decoder (Lean Spec/Pzpr.lean through the driver, and its plain-Python twin) "
        "vs the problem; one-mutation URLs -> real decoder vs model; legacy util.encode_array / encode_grid_segmentation / blocks_to_block_id "
        "on valid and malformed arguments vs model; after every successful decode (module decoder, deserialize_problem_as_url with / without "
        "return_size / allowed_puzzles, deserialize_problem; blocks_to_block_id too) the returned value is edited in place and the same call "
        "repeated: same problem again; every third problem: encode, edit the argument lists in place into another problem, encode the same "
        "objects and a fresh deep copy: same text. non-trivial+distinct = (module, problem) with a produced URL, or (module, text) decoded to a value")
    ctx.extra["assumptions"] = [PATCH_NOTES,
                                "the pzpr URL format as written in lean/CspuzModel/Spec/Pzpr.lean and its Python twin in harness/c16.py (from the public "
                                "format description; pzprjs source not available offline; cross-checked only against the URLs in /repo/tests and /repo/bench)"]
    rng = ctx.rng
    drv = core.Driver()
    from cspuz.problem_serializer import get_puzzle_info_from_url
    n_per = ctx.n(1000, 30000)
    probs = []
    for p in ALL:
        for _ in range(n_per):
            probs.append(gen_problem(rng, p))
    # ---- 1. encoders
    outs = drv.run([enc_line(pb) for pb in probs])
    urls = []
    for pb, mo in zip(probs, outs):
        p = pb["p"]
        enc = real_encoder(p)
        o = sc.run_guarded(lambda: enc(*pb["args"]), 5)
        ro = sc.str_outcome(o)
        ctx.count("encode:%s:%s" % (p, "ok" if ro.startswith("(ok") else ro.strip("()").replace(" ", ":")))
        ctx.count("board:%s" % ("square" if pb["h"] == pb["w"] else "non-square"))
        ctx.case({"op": "encode", "module": p, "args": _short(pb["args"], 300), "real": _short(o[1] if o[0] == "ret" else ro, 200)},
                 ("enc", p, repr(pb["args"])) if o[0] == "ret" else None)
        if ro != mo:
            ctx.disagree("encode-model-vs-code", module=p, args=_short(pb["args"], 2000), real=_short(o[1] if o[0] == "ret" else ro, 600),
                         model=_short(sc.sx_str(core.parse_sx(mo)[1]) if mo.startswith("(ok") else mo, 600))
        if o[0] == "ret" and isinstance(o[1], str):
            urls.append((pb, o[1]))
            if len(urls) % 3 == 0:
                ctx.count("encoder-state-probe")
                _property(ctx, check_encoder_state(pb), _pb_data(pb))
    # ---- 2. decoders, info, pzpr on the real URLs
    lines, ops = [], []
    for pb, url in urls:
        p = pb["p"]
        if p not in ("star_battle", "aquarium"):
            ops.append(("dec", pb, url))
            lines.append(dec_line(p, url))
        ops.append(("info", pb, url))
        lines.append("(info %s)" % sc.cps(url))
        ops.append(("frame", pb, url))
        lines.append("(pz url %s)" % sc.cps(url))
        try:
            name, cols, rows, body = pz_frame(url)
        except PzErr:
            name, cols, rows, body = None, 0, 0, ""
        ops.append(("pz", pb, url, name, cols, rows, body))
        lines.append("(pz %s %d %d %s)" % (PZKIND[p], rows, cols, sc.cps(body)))
    outs = drv.run(lines)
    nprobe = 0
    for op, mo in zip(ops, outs):
        kind, pb, url = op[0], op[1], op[2]
        p = pb["p"]
        if kind == "dec":
            dec = real_decoder(p)
            o = sc.run_guarded(lambda: dec(url), 5)
            ro = compass_outcome(o) if p == "compass" else sc.val_outcome(o)
            ctx.count("decode:%s:%s" % (p, "ok" if ro.startswith("(ok") else ro.strip("()").replace(" ", ":")))
            ctx.case({"op": "decode", "module": p, "url": url, "real": _short(ro, 200)}, ("dec", p, url) if ro.startswith("(ok") else None)
            if ro != mo:
                ctx.disagree("decode-model-vs-code", module=p, url=url, args=_short(pb["args"], 1500), real=_short(ro, 800), model=_short(mo, 800))
            if o[0] == "ret" and o[1] is not None:
                # separate calls, separate results: the decoded value is edited in place (it is not used any more), the same
                # URL is decoded again; entry 0 = the module's decoder, plus one of the lower-level entry points in turn
                nprobe += 1
                _property(ctx, check_alias(p, url, which=(0, 1 + nprobe % 3), first=o), _pb_data(pb))
        elif kind == "info":
            o = sc.run_guarded(lambda: get_puzzle_info_from_url(url), 5)
            ro = info_outcome(o)
            ctx.case({"op": "info", "url": url, "real": _short(ro, 200)}, None)
            if ro != mo:
                ctx.disagree("info-model-vs-code", url=url, real=ro, model=mo)
        elif kind == "frame":
            try:
                f = pz_frame(url)
                tw = "(ok %s %d %d %s)" % (sc.cps(f[0]), f[1], f[2], sc.cps(f[3]))
            except PzErr:
                tw = "none"
            if tw != mo:
                ctx.disagree("pzpr-frame-spec-vs-twin", url=url, twin=tw, spec=mo)
            if tw == "none" or f[0] != PZNAME[p] or (f[1], f[2]) != (pb["w"], pb["h"]):
                ctx.disagree("pzpr-frame-vs-problem", module=p, url=url, frame=tw, expected="%s/%d/%d" % (PZNAME[p], pb["w"], pb["h"]))
        else:
            _, _, _, name, cols, rows, body = op
            exp = _canon_board(expected_board(p, pb))
            try:
                tw = _canon_board(pz_decode(PZKIND[p], rows, cols, body))
            except PzErr as e:
                tw = ("refused", str(e))
            sp = board_of_reply(PZKIND[p], mo)
            sp = ("refused",) if sp is None else _canon_board(sp)
            ctx.count("pzpr:%s:%s" % (p, "same" if sp == exp else "different"))
            ctx.case({"op": "pzpr", "module": p, "body": body}, ("pz", p, body))
            if (tw[:1] == ("refused",)) != (sp[:1] == ("refused",)) or (tw[:1] != ("refused",) and tw != sp):
                ctx.disagree("pzpr-spec-vs-twin", module=p, body=body, rows=rows, cols=cols, twin=_short(tw, 600), spec=_short(sp, 600))
            if sp != exp:
                ctx.disagree("pzpr-body-vs-problem", module=p, url=url, args=_short(pb["args"], 1500), decoded=_short(sp, 800), expected=_short(exp, 800))
    # ---- 3. malformed stream: one mutation per URL
    lines, ops = [], []
    for pb, url in urls:
        p = pb["p"]
        if p in ("star_battle", "aquarium") or rng.random() < 0.5:
            continue
        mu, how = sc.mutate_text(rng, url)
        if p == "compass" and not compass_in_model_domain(mu):
            ctx.count("mutated:compass:outside-model-domain")
            continue
        if any(0xD800 <= ord(c) <= 0xDFFF for c in mu) and p == "compass":
            continue
        ops.append((p, mu, how))
        lines.append(dec_line(p, mu))
    outs = drv.run(lines)
    for (p, mu, how), mo in zip(ops, outs):
        dec = real_decoder(p)
        o = sc.run_guarded(lambda: dec(mu), 5)
        ro = compass_outcome(o) if p == "compass" else sc.val_outcome(o)
        ctx.count("mutated:%s:%s" % (p, "ok" if ro.startswith("(ok") else ro.strip("()").replace(" ", ":")))
        ctx.case({"op": "decode-mutated", "module": p, "url": mu, "how": how, "real": _short(ro, 200)}, ("mut", p, mu) if ro.startswith("(ok") else None)
        if ro != mo:
            ctx.disagree("decode-mutated-model-vs-code", module=p, url=mu, mutation=how, real=_short(ro, 800), model=_short(mo, 800))
        if o[0] == "ret" and o[1] is not None:
            _property(ctx, check_alias(p, mu, which=(0,), first=o), {"kind": "alias-url", "module": p, "url": mu})
    # ---- 4. the legacy helper encoders
    _correspond_legacy(ctx, rng, drv)


def _legacy_item(rng, empty, bad):
    r = rng.random()
    if r < 0.45:
        return empty
    if r < 0.9 or not bad:
        return rng.choice([0, 1, 9, 15, 16, 17, 255, 256, 4095, rng.randint(0, 4095)])
    return rng.choice([-1, -2, 4096, 10 ** 6, ".", "ab", "", (1, ".", 2, 300), [3, 4], (), None, True, False, (None,), ("x", -1), [[1]]])


def _correspond_legacy(ctx, rng, drv):
    from cspuz.puzzle import util
    lines, ops = [], []
    for _ in range(ctx.n(3000, 100000)):
        bad = rng.random() < 0.3
        empty = rng.choice([None, None, -1, 0, ".."])
        marker = rng.choice(["g"] * 6 + list("0az9k") + (["G", "-"] if bad else []))
        if rng.random() < 0.5:
            n = rng.choice([0, 1, 2, 5, 19, 20, 21, 22, 40, 41, 45, rng.randint(0, 30)])
            arr = [_legacy_item(rng, empty, bad) for _ in range(n)]
            if rng.random() < 0.3:        # long runs of empties across the 'z' limit
                arr = [empty] * rng.choice([19, 20, 21, 22, 39, 40, 41, 42, 60, 61]) + arr
            dim = rng.choice([None, None, 1] + ([2, 3, 0] if bad else []))
        else:
            h, w = rng.randint(0, 5), rng.randint(0, 6)
            arr = [[_legacy_item(rng, empty, bad) for _ in range(w)] for _ in range(h)]
            if bad and arr and rng.random() < 0.3:
                arr[rng.randrange(len(arr))] = rng.choice([(1, 2), 5, None])
            dim = rng.choice([None, None, 2] + ([1] if bad else []))
        try:
            line = "(c16 encarr %s %d %s %s)" % (sc.vals_sx(arr), ord(marker), sc.val_sx(empty), "N" if dim is None else str(dim))
        except TypeError:
            continue
        ops.append(("encarr", arr, marker, empty, dim))
        lines.append(line)
    for _ in range(ctx.n(1500, 40000)):
        h, w = _dims(rng, 7)
        rooms = sc.shuffled_rooms(rng, sc.random_partition(rng, h, w))
        r = rng.random()
        if r < 0.6:
            blocks, hh, ww = rooms, h, w
        elif r < 0.8:     # negative (wrapping) and out-of-range indices, overlapping blocks
            blocks = [list(b) for b in rooms]
            b = blocks[rng.randrange(len(blocks))]
            b.append(rng.choice([(-1, 0), (0, -1), (-h, -w), (h, 0), (0, w), (-h - 1, 0), (0, 0)]))
            hh, ww = h, w
        else:
            blocks, hh, ww = rooms, max(0, h + rng.choice([-1, 1])), max(0, w + rng.choice([-1, 1]))
        ops.append(("b2id", hh, ww, blocks))
        lines.append("(c16 b2id %d %d %s)" % (hh, ww, _blocks(blocks)))
        ids = [[rng.randint(0, 3) for _ in range(w)] for _ in range(h)]
        if rng.random() < 0.5:
            ids = util.blocks_to_block_id(h, w, rooms)
        gh, gw = (h, w) if rng.random() < 0.8 else (h + rng.choice([0, 1]), w + rng.choice([0, 1]))
        ops.append(("encseg", gh, gw, ids))
        lines.append("(c16 encseg %d %d %s)" % (gh, gw, _intgrid(ids)))
    outs = drv.run(lines)
    for op, mo in zip(ops, outs):
        if op[0] == "encarr":
            _, arr, marker, empty, dim = op
            o = sc.run_guarded(lambda: util.encode_array(arr, single_empty_marker=marker, empty=empty, dim=dim), 5)
            ro = sc.str_outcome(o)
        elif op[0] == "b2id":
            _, hh, ww, blocks = op
            o = sc.run_guarded(lambda: util.blocks_to_block_id(hh, ww, blocks), 5)
            ro = "(ok %s)" % _intgrid(o[1]) if o[0] == "ret" else ("diverge" if o[0] == "diverge" else "(err %s)" % o[1])
        else:
            _, gh, gw, ids = op
            o = sc.run_guarded(lambda: util.encode_grid_segmentation(gh, gw, ids), 5)
            ro = sc.str_outcome(o)
        ctx.count("legacy:%s:%s" % (op[0], "ok" if ro.startswith("(ok") else ro.strip("()").replace(" ", ":")))
        ctx.case({"op": op[0], "args": _short(op[1:], 300), "real": _short(ro, 200)}, (op[0], repr(op[1:])) if ro.startswith("(ok") else None)
        if ro != mo:
            ctx.disagree("legacy-model-vs-code", op=op[0], args=_short(op[1:], 2000), real=_short(ro, 600), model=_short(mo, 600))
        if op[0] == "b2id" and o[0] == "ret":
            # the id grid handed out is the caller's: edited in place, the same call must give the same grid again
            bad = sc.alias_probe(lambda: util.blocks_to_block_id(hh, ww, blocks), 5, first=o)
            if bad:
                _property(ctx, ("legacy:blocks_to_block_id-result-shared-between-calls",
                                "blocks_to_block_id(%d, %d, %r): %s" % (hh, ww, blocks, _short(bad, 900))),
                          {"kind": "b2id-alias", "h": hh, "w": ww, "rooms": repr(blocks)})


# ================================================================== search: the real code against the Python oracle

def _sig(p, what):
    return "%s:%s" % (p, what)


def check_problem(pb):
    """Everything the property says about ONE problem, on the real code.  Returns None or (signature, text)."""
    from cspuz.problem_serializer import get_puzzle_info_from_url
    p = pb["p"]
    h, w = pb["h"], pb["w"]
    o = sc.run_guarded(lambda: real_encoder(p)(*pb["args"]), 5)
    if o[0] != "ret" or not isinstance(o[1], str):
        return (_sig(p, "not-encoded"), "the encoder %s on this problem" % ("raises " + o[1] if o[0] == "err" else "does not return a URL"))
    url = o[1]
    # frame: prefix name / WIDTH / HEIGHT / body
    m = re.fullmatch(r"(https://puzz\.link/p\?|http://pzv\.jp/p\.html\?)([^/]+)/([0-9]+)/([0-9]+)/(.*)", url, re.S)
    if not m or m.group(2) != PZNAME[p]:
        return (_sig(p, "url-frame"), "URL %r is not <prefix>%s/<width>/<height>/<body>" % (url, PZNAME[p]))
    if (int(m.group(3)), int(m.group(4))) != (w, h):
        return (_sig(p, "width-height-order"), "URL %r of a board with height %d and width %d carries %s/%s (puzz.link order is width/height)"
                % (url, h, w, m.group(3), m.group(4)))
    body = m.group(5)
    o = sc.run_guarded(lambda: get_puzzle_info_from_url(url), 5)
    if o[0] != "ret" or o[1] != (PZNAME[p], h, w):
        return ("get_puzzle_info:name-height-width", "get_puzzle_info_from_url(%r) = %r, expected %r" % (url, o[1] if o[0] == "ret" else o, (PZNAME[p], h, w)))
    # the independent decoder reads the body back as the problem
    exp = _canon_board(expected_board(p, pb))
    try:
        got = _canon_board(pz_decode(PZKIND[p], h, w, body))
    except PzErr as e:
        got = ("refused", str(e))
    if got != exp:
        return (_sig(p, "body-not-pzpr"), "body %r of %r: an independent pzpr decoder reads %s, the problem is %s" % (body, url, _short(got, 300), _short(exp, 300)))
    # round trip
    if "expect" in pb:
        o = sc.run_guarded(lambda: real_decoder(p)(url), 5)
        if o[0] != "ret":
            sig = "roundtrip"
            if p == "compass" and any(v >= 256 for c in pb["pos"] for v in c[2:]):
                sig = "three-digit-number-unreadable"
            return (_sig(p, sig), "decoding %r %s" % (url, "raises " + o[1] if o[0] == "err" else "does not terminate"))
        if _canon_board(o[1]) != _canon_board(pb["expect"]):
            sig = "roundtrip"
            if p == "compass" and o[1] is not None and tuple(o[1][:2]) == (w, h) and h != w:
                sig = "width-height-swapped"
            return (_sig(p, sig), "decode(encode(pb)) != pb: URL %r decodes to %s, expected %s" % (url, _short(o[1], 400), _short(pb["expect"], 400)))
        # ... on every decode, whatever the caller did with the result of an earlier one (every entry point)
        r = check_alias(p, url)
        if r:
            return r
    # identical data -> identical text, whatever was encoded before
    return check_encoder_state(pb)


def check_legacy(arr2d, empty, h, w):
    """util.encode_array and Grid(OneOf(Spaces(empty,'g'), HexInt())) on identical data (ints 0..4095 and the empty marker)."""
    from cspuz.puzzle import util
    import cspuz.problem_serializer as ps
    a = sc.run_guarded(lambda: util.encode_array(arr2d, empty=empty), 5)
    b = sc.run_guarded(lambda: ps.serialize_problem(ps.Grid(ps.OneOf(ps.Spaces(empty, "g"), ps.HexInt())), arr2d, height=h, width=w), 5)
    if a != b:
        return ("legacy:encode_array-vs-combinator", "encode_array(%r, empty=%r) -> %r but Grid(OneOf(Spaces(%r,'g'),HexInt())) -> %r" % (arr2d, empty, a, empty, b))
    flat = sum(arr2d, [])
    a = sc.run_guarded(lambda: util.encode_array(flat, empty=empty, dim=1), 5)
    b = sc.run_guarded(lambda: ps.serialize_problem(ps.Seq(ps.OneOf(ps.Spaces(empty, "g"), ps.HexInt()), len(flat)), flat, height=1, width=1), 5)
    if a != b:
        return ("legacy:encode_array-vs-combinator", "encode_array(%r, empty=%r, dim=1) -> %r but Seq(OneOf(Spaces(%r,'g'),HexInt()),%d) -> %r"
                % (flat, empty, a, empty, len(flat), b))
    return None


def check_segmentation(h, w, rooms):
    from cspuz.puzzle import util
    import cspuz.problem_serializer as ps
    a = sc.run_guarded(lambda: util.encode_grid_segmentation(h, w, util.blocks_to_block_id(h, w, rooms)), 5)
    b = sc.run_guarded(lambda: ps.serialize_problem(ps.Rooms(), rooms, height=h, width=w), 5)
    if a != b:
        return ("legacy:encode_grid_segmentation-vs-Rooms", "encode_grid_segmentation(%d, %d, blocks_to_block_id(%r)) -> %r but Rooms() -> %r" % (h, w, rooms, a, b))
    bad = sc.alias_probe(lambda: util.blocks_to_block_id(h, w, rooms), 5)
    if bad:
        return ("legacy:blocks_to_block_id-result-shared-between-calls", "blocks_to_block_id(%d, %d, %r): %s" % (h, w, rooms, _short(bad, 900)))
    return None


def _store(found, r, data):
    if r is not None and r[0] not in found:
        found[r[0]] = Finding(r[0], r[1], data)


def _pb_data(pb):
    return {"kind": "problem", "module": pb["p"], "h": pb["h"], "w": pb["w"], "args": repr(pb["args"]),
            "expect": repr(pb.get("expect")), "typed": repr({k: v for k, v in pb.items() if k not in ("args", "expect")})}


def search(ctx, why):
    rng = ctx.rng
    found = {}
    # 1. every module: small boards first (incl. every non-square shape up to 3x3), then random boards up to 8x8
    for p in ALL:
        for maxd, n in ((3, 400), (8, ctx.n(400, 3000))):
            for _ in range(n):
                pb = gen_problem(rng, p, maxd)
                _store(found, check_problem(pb), _pb_data(pb))
    # 2. compass: a clue in every cell of every board up to 3x4, every number kind (incl. the three-digit form)
    for h in range(1, 4):
        for w in range(1, 5):
            for y in range(h):
                for x in range(w):
                    for v in (-1, 0, 9, 15, 16, 255, 256, 4095):
                        pos = [(y, x, v, -1, 0, v)]
                        pb = {"p": "compass", "h": h, "w": w, "pos": pos, "args": (h, w, pos), "expect": (h, w, pos)}
                        _store(found, check_problem(pb), _pb_data(pb))
    # 3. yajilin: every clue kind in a 1x2 board
    for c in ["..", "??"] + [d + str(n) for d in "^v<>" for n in (0, 9, 15, 16, 17, 255)]:
        g = [[c, ".."]]
        pb = {"p": "yajilin", "h": 1, "w": 2, "grid": g, "args": (g,), "expect": g}
        _store(found, check_problem(pb), _pb_data(pb))
    # 4. legacy helpers vs combinators on identical data
    for _ in range(ctx.n(600, 4000)):
        h, w = _dims(rng, 7)
        empty = rng.choice([None, -1, 0])
        arr = [[(empty if rng.random() < 0.6 else rng.choice([0, 1, 15, 16, 255, 256, 4095, rng.randint(0, 4095)])) for _ in range(w)] for _ in range(h)]
        _store(found, check_legacy(arr, empty, h, w), {"kind": "legacy", "arr": repr(arr), "empty": repr(empty), "h": h, "w": w})
        rooms = sc.shuffled_rooms(rng, sc.random_partition(rng, h, w))
        _store(found, check_segmentation(h, w, rooms), {"kind": "segmentation", "h": h, "w": w, "rooms": repr(rooms)})
    for n in (19, 20, 21, 22, 40, 41, 42, 43):
        arr = [[None] * n + [7]]
        _store(found, check_legacy(arr, None, 1, n + 1), {"kind": "legacy", "arr": repr(arr), "empty": "None", "h": 1, "w": n + 1})
        arr = [[None] * n]
        _store(found, check_legacy(arr, None, 1, n), {"kind": "legacy", "arr": repr(arr), "empty": "None", "h": 1, "w": n})
    return list(found.values())


def replay(ctx, data):
    import ast
    k = data.get("kind")
    if k == "problem":
        typed = ast.literal_eval(data["typed"])
        pb = dict(typed)
        pb["args"] = ast.literal_eval(data["args"])
        exp = ast.literal_eval(data["expect"])
        if exp is not None:
            pb["expect"] = exp
        r = check_problem(pb)
        return None if r is None else Finding(r[0], r[1], data)
    if k == "legacy":
        r = check_legacy(ast.literal_eval(data["arr"]), ast.literal_eval(data["empty"]), data["h"], data["w"])
        return None if r is None else Finding(r[0], r[1], data)
    if k == "b2id-alias":
        from cspuz.puzzle import util
        rooms = ast.literal_eval(data["rooms"])
        bad = sc.alias_probe(lambda: util.blocks_to_block_id(data["h"], data["w"], rooms), 5)
        return None if bad is None else Finding("legacy:blocks_to_block_id-result-shared-between-calls", _short(bad, 900), data)
    if k == "alias-url":
        r = check_alias(data["module"], data["url"])
        return None if r is None else Finding(r[0], r[1], data)
    if k == "segmentation":
        r = check_segmentation(data["h"], data["w"], ast.literal_eval(data["rooms"]))
        return None if r is None else Finding(r[0], r[1], data)
    return None
