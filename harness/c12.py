"""C12 — Array operators and aggregate helpers have pointwise / mathematical meaning."""
import itertools
import operator
import os

from . import core
from .core import Finding, sx

THEOREMS = [
    "Cspuz.C12.C12_dunder_table",
    "Cspuz.C12.C12_pointwise",
    "Cspuz.C12.C12_rejects",
    "Cspuz.C12.C12_count_true",
    "Cspuz.C12.C12_fold_or",
    "Cspuz.C12.C12_fold_and",
    "Cspuz.C12.C12_alldifferent",
    "Cspuz.C12.C12_conv2d",
    "Cspuz.C12.C12_four_neighbors",
    "Cspuz.C12.C12_scalar_dispatch",
]

# ------------------------------------------------------------------ encoding of Python values


def _mods():
    import cspuz.array as A
    import cspuz.constraints as C
    import cspuz.expr as E
    return A, C, E


def pexpr(e):
    from .exprio import pexpr as p
    return p(e)


def pt(e):
    """parsed printed tree"""
    return core.parse_sx(pexpr(e))


def enc(x):
    """Python value -> nested list (wire form of PyV)."""
    A, C, E = _mods()
    if x is NotImplemented:
        return "NI"
    # exact classes: the model's class of an array is a tag
    t = type(x)
    if t is A.BoolArray1D:
        return ["a1", "B"] + [pt(e) for e in x.data]
    if t is A.IntArray1D:
        return ["a1", "I"] + [pt(e) for e in x.data]
    if t is A.BoolArray2D:
        return ["a2", "B", x.shape[0], x.shape[1]] + [pt(e) for e in x.data]
    if t is A.IntArray2D:
        return ["a2", "I", x.shape[0], x.shape[1]] + [pt(e) for e in x.data]
    if x is None or isinstance(x, (bool, int, E.BoolExpr, E.IntExpr)):
        return ["s", pt(x)]
    return ["o"]


def outcome(f):
    """Run f on the live code -> outcome in wire form (string)."""
    try:
        r = f()
    except RecursionError:
        return "(err RecursionError)"
    except Exception as e:  # noqa: BLE001
        return sx(["err", core.err_name(e)])
    if r is NotImplemented:
        return "NI"
    return sx(["val", enc(r)])


# ------------------------------------------------------------------ the symbolic operand kinds of the table

KINDS = ["arrB1_2", "arrB1_3", "arrB2_12", "arrB2_21", "arrI1_2", "arrI1_3", "arrI2_12", "arrI2_21",
         "bvar", "bnode", "ivar", "inode", "litT", "lit3", "none_"]
RECEIVERS = ["arrB1_2", "arrB2_12", "arrI1_2", "arrI2_12", "bvar", "bnode", "ivar", "inode"]
RECV_CLASS = {"arrB1_2": "BoolArray1D", "arrB2_12": "BoolArray2D", "arrI1_2": "IntArray1D", "arrI2_12": "IntArray2D",
              "bvar": "BoolVar", "bnode": "BoolExpr", "ivar": "IntVar", "inode": "IntExpr"}
SIDE = ["arrI1_2", "arrI2_12", "arrB2_12", "lit3", "litT", "bnode", "inode"]
BINOPS = [("&", operator.and_), ("|", operator.or_), ("^", operator.xor), ("+", operator.add), ("-", operator.sub),
          ("==", operator.eq), ("!=", operator.ne), ("<", operator.lt), ("<=", operator.le), (">", operator.gt),
          (">=", operator.ge)]
BINOP_LEAN = {"&": "and_", "|": "or_", "^": "xor", "+": "add", "-": "sub", "==": "eq", "!=": "ne", "<": "lt", "<=": "le",
              ">": "gt", ">=": "ge"}
UNOPS = [("invert", operator.invert), ("neg", operator.neg)]
DUNDERS1 = ["__and__", "__rand__", "__or__", "__ror__", "__xor__", "__rxor__", "__eq__", "__ne__", "__lt__", "__le__",
            "__gt__", "__ge__", "__add__", "__radd__", "__sub__", "__rsub__", "then"]
METHODS0 = ["__invert__", "__neg__", "fold_or", "fold_and", "count_true", "alldifferent"]
METH_LEAN = {"__invert__": "invert", "__neg__": "neg", "__and__": "and_", "__rand__": "rand", "__or__": "or_",
             "__ror__": "ror", "__xor__": "xor", "__rxor__": "rxor", "__eq__": "eq", "__ne__": "ne", "__lt__": "lt",
             "__le__": "le", "__gt__": "gt", "__ge__": "ge", "__add__": "add", "__radd__": "radd", "__sub__": "sub",
             "__rsub__": "rsub", "then": "then_", "cond": "cond", "fold_or": "foldOr", "fold_and": "foldAnd",
             "count_true": "countTrue", "alldifferent": "alldifferent"}


def kind_value(kind, p):
    A, C, E = _mods()
    b = 100 * p

    def bv(k):
        return E.BoolVar(b + k)

    def iv(k):
        return E.IntVar(b + k, -3, 3)
    if kind == "arrB1_2":
        return A.BoolArray1D([bv(0), bv(1)])
    if kind == "arrB1_3":
        return A.BoolArray1D([bv(0), bv(1), bv(2)])
    if kind == "arrB2_12":
        return A.BoolArray2D([bv(0), bv(1)], (1, 2))
    if kind == "arrB2_21":
        return A.BoolArray2D([bv(0), bv(1)], (2, 1))
    if kind == "arrI1_2":
        return A.IntArray1D([iv(0), iv(1)])
    if kind == "arrI1_3":
        return A.IntArray1D([iv(0), iv(1), iv(2)])
    if kind == "arrI2_12":
        return A.IntArray2D([iv(0), iv(1)], (1, 2))
    if kind == "arrI2_21":
        return A.IntArray2D([iv(0), iv(1)], (2, 1))
    if kind == "bvar":
        return bv(10)
    if kind == "bnode":
        return E.BoolExpr(E.Op.NOT, [bv(11)])
    if kind == "ivar":
        return iv(20)
    if kind == "inode":
        return E.IntExpr(E.Op.NEG, [iv(21)])
    if kind == "litT":
        return True
    if kind == "lit3":
        return 3
    if kind == "none_":
        return None
    raise KeyError(kind)


def defines(obj, name):
    """The class of obj defines `name` below `object` (None and foreign objects: nothing of interest)."""
    if obj is None or type(obj).__name__ == "Foreign":
        return False
    for c in type(obj).__mro__:
        if c is object:
            continue
        if name in vars(c):
            return True
    return False


def side_pairs():
    out = []
    seen = set()
    for t in KINDS:
        for f in SIDE:
            for pr in ((t, f), (f, t)):
                if pr not in seen:
                    seen.add(pr)
                    out.append(pr)
    return out


def all_forms():
    """Canonical list of experiments (wire form lists)."""
    fs = []
    for sym, _ in BINOPS:
        for a in KINDS:
            for b in KINDS:
                fs.append(["infix", sym, a, b])
    for nm, _ in UNOPS:
        for a in KINDS:
            fs.append(["unary", nm, a])
    for r in RECEIVERS:
        for m in DUNDERS1:
            if defines(kind_value(r, 0), m):
                for a in KINDS:
                    fs.append(["call1", m, r, a])
            else:
                fs.append(["call1", m, r, "none_"])
    for r in RECEIVERS:
        for m in METHODS0:
            fs.append(["call0", m, r])
    pairs = side_pairs()
    for r in RECEIVERS:
        if defines(kind_value(r, 0), "cond"):
            for t, f in pairs:
                fs.append(["condM", r, t, f])
        else:
            fs.append(["condM", r, "lit3", "lit3"])
    for x in KINDS:
        for y in KINDS:
            fs.append(["thenFn", x, y])
    for c in KINDS:
        for t, f in pairs:
            fs.append(["condFn", c, t, f])
    return fs


def run_form(form):
    """Outcome of a form on the live classes (wire string)."""
    A, C, E = _mods()
    tag = form[0]
    if tag == "infix":
        fn = dict(BINOPS)[form[1]]
        a, b = kind_value(form[2], 0), kind_value(form[3], 1)
        return outcome(lambda: fn(a, b))
    if tag == "unary":
        fn = dict(UNOPS)[form[1]]
        a = kind_value(form[2], 0)
        return outcome(lambda: fn(a))
    if tag == "call1":
        s, a = kind_value(form[2], 0), kind_value(form[3], 1)
        if not defines(s, form[1]):
            return "absent"
        return outcome(lambda: getattr(type(s), form[1])(s, a))
    if tag == "call0":
        s = kind_value(form[2], 0)
        if not defines(s, form[1]):
            return "absent"
        return outcome(lambda: getattr(type(s), form[1])(s))
    if tag == "condM":
        s, t, f = kind_value(form[1], 0), kind_value(form[2], 1), kind_value(form[3], 2)
        if not defines(s, "cond"):
            return "absent"
        return outcome(lambda: s.cond(t, f))
    if tag == "thenFn":
        x, y = kind_value(form[1], 0), kind_value(form[2], 1)
        return outcome(lambda: C.then(x, y))
    if tag == "condFn":
        c, t, f = kind_value(form[1], 0), kind_value(form[2], 1), kind_value(form[3], 2)
        return outcome(lambda: C.cond(c, t, f))
    raise KeyError(tag)


# ------------------------------------------------------------------ Lean printing of the table

OPS_LEAN = {"var": "var", "bool_constant": "boolConst", "int_constant": "intConst", "neg": "neg", "add": "add",
            "sub": "sub", "eq": "eq", "ne": "ne", "le": "le", "lt": "lt", "ge": "ge", "gt": "gt", "not": "not",
            "and": "and", "or": "or", "iff": "iff", "xor": "xor", "imp": "imp", "if": "ite", "alldiff": "alldiff",
            "graph_active_vertices_connected": "graphAVC", "graph_division": "graphDiv"}
ERR_LEAN = {"TypeError": "typeError", "ValueError": "valueError", "IndexError": "indexError", "KeyError": "keyError",
            "AssertionError": "assertionError", "RecursionError": "recursionError",
            "NotImplementedError": "notImplementedError", "RuntimeError": "runtimeError",
            "AttributeError": "attributeError"}


class OutsideModel(Exception):
    pass


def lean_expr(t):
    if isinstance(t, str):
        if t.startswith("<?"):
            raise OutsideModel(t)  # a tree holding a non-expression object (e.g. an array inside IMP / IF)
        if t == "T":
            return ".litB true"
        if t == "F":
            return ".litB false"
        if t == "N":
            return ".litNone"
        if t[0] == "b" and t[1:].isdigit():
            return f".bvar {t[1:]}"
        if t[0] == "i" and t[1:].isdigit():
            return f".ivar {t[1:]}"
        n = int(t)
        return f".litI {n}" if n >= 0 else f".litI ({n})"
    return f".node .{OPS_LEAN[t[0]]} [" + ", ".join(lean_expr(x) for x in t[1:]) + "]"


def lean_pyv(v):
    if v[0] == "s":
        return f".scalar ({lean_expr(v[1])})"
    if v[0] == "a1":
        return f".arr1 {'true' if v[1] == 'B' else 'false'} [" + ", ".join(lean_expr(x) for x in v[2:]) + "]"
    if v[0] == "a2":
        return (f".arr2 {'true' if v[1] == 'B' else 'false'} {v[2]} {v[3]} ["
                + ", ".join(lean_expr(x) for x in v[4:]) + "]")
    return ".other"


def lean_outcome(s):
    t = core.parse_sx(s)
    if t == "NI":
        return ".notImpl"
    if t == "absent":
        return ".absent"
    if t[0] == "err":
        if t[1] not in ERR_LEAN:
            raise ValueError("exception type outside the model: " + t[1])
        return f".err .{ERR_LEAN[t[1]]}"
    try:
        return f".val ({lean_pyv(t[1])})"
    except OutsideModel:
        return ".val .other"  # not a value of the model: can never equal a model outcome


def lean_form(f):
    tag = f[0]
    if tag == "infix":
        return f".infix .{BINOP_LEAN[f[1]]} .{f[2]} .{f[3]}"
    if tag == "unary":
        return f".unary .{f[1]} .{f[2]}"
    if tag == "call1":
        return f".call1 .{METH_LEAN[f[1]]} .{f[2]} .{f[3]}"
    if tag == "call0":
        return f".call0 .{METH_LEAN[f[1]]} .{f[2]}"
    return f".{tag} " + " ".join("." + k for k in f[1:])


NCHUNKS = 16
GEN_PATH = os.path.join(core.LEAN, "CspuzModel", "Gen", "DunderTable.lean")


def _check_repo_module(m):
    path = os.path.realpath(m.__file__)
    if not path.startswith(os.path.realpath(core.REPO) + os.sep):
        raise RuntimeError(f"{m.__name__} imported from {path}, not from {core.REPO}")


def gen(ctx):
    A, C, E = _mods()
    for m in (A, C, E):
        _check_repo_module(m)
    forms = all_forms()
    rows = [f"  ⟨{lean_form(f)}, {lean_outcome(run_form(f))}⟩" for f in forms]
    per = (len(rows) + NCHUNKS - 1) // NCHUNKS
    L = ["/-  GENERATED by harness/c12.py::gen from the live /repo classes on every run of ./check C12.  Do not edit.",
         "    One row per (receiver class / operator form / operand kind): what the live code returned. -/",
         "import CspuzModel.Model.ArrayOps",
         "namespace Cspuz.Gen.DunderTable",
         "open Cspuz",
         ""]
    for k in range(NCHUNKS):
        part = rows[k * per:(k + 1) * per]
        L.append(f"def chunk{k} : List Row := [")
        L.append(",\n".join(part) + "]")
        L.append("")
    L.append("def chunks : List (List Row) := [" + ", ".join(f"chunk{k}" for k in range(NCHUNKS)) + "]")
    L.append("")
    L.append("/-- The class names the receivers of the table were built from. -/")
    L.append("def receiverClasses : List String := [" + ", ".join(
        '"' + type(kind_value(r, 0)).__name__ + '"' for r in RECEIVERS) + "]")
    L.append("")
    L.append("end Cspuz.Gen.DunderTable")
    new = "\n".join(L) + "\n"
    if not os.path.exists(GEN_PATH) or open(GEN_PATH).read() != new:
        with open(GEN_PATH, "w") as f:
            f.write(new)
    ctx.extra["table_rows"] = len(rows)


# ------------------------------------------------------------------ wire <-> Python objects

INT_OPS = {"int_constant", "neg", "add", "sub", "if"}
LO, HI = -3, 3


class Foreign:
    """An object that is neither a cspuz value nor a literal nor iterable (`other` of the model)."""

    def __repr__(self):
        return "<foreign>"


def dec_expr(t):
    A, C, E = _mods()
    if isinstance(t, str):
        if t == "T":
            return True
        if t == "F":
            return False
        if t == "N":
            return None
        if t[0] == "b" and t[1:].isdigit():
            return E.BoolVar(int(t[1:]))
        if t[0] == "i" and t[1:].isdigit():
            return E.IntVar(int(t[1:]), LO, HI)
        return int(t)
    names = {o.name.lower(): o for o in E.Op}
    ops = [dec_expr(x) for x in t[1:]]
    return (E.IntExpr if t[0] in INT_OPS else E.BoolExpr)(names[t[0]], ops)


def dec(v):
    A, C, E = _mods()
    if v[0] == "s":
        return dec_expr(v[1])
    if v[0] == "a1":
        return (A.BoolArray1D if v[1] == "B" else A.IntArray1D)([dec_expr(e) for e in v[2:]])
    if v[0] == "a2":
        return (A.BoolArray2D if v[1] == "B" else A.IntArray2D)([dec_expr(e) for e in v[4:]], (int(v[2]), int(v[3])))
    return Foreign()


_ITER_KIND = [0]


def dec_nest(n):
    """Wire nest -> Python argument.  An "I" node is an iterable; which KIND of iterable (list, tuple, generator expression,
    iterator, map object) rotates deterministically: the helpers must treat them all alike (one-shot iterables included)."""
    if n[0] == "L":
        return dec(n[1])
    items = [dec_nest(x) for x in n[1:]]
    _ITER_KIND[0] += 1
    k = _ITER_KIND[0] % 5
    if k == 0:
        return items
    if k == 1:
        return tuple(items)
    if k == 2:
        return (x for x in items)
    if k == 3:
        return iter(items)
    return map(lambda x: x, items)


def nest_leaves(n):
    """Leaves (wire expressions) of a nest in iteration order; None for a foreign object."""
    if n[0] == "L":
        v = n[1]
        if v[0] == "s":
            return [v[1]]
        if v[0] == "a1":
            return list(v[2:])
        if v[0] == "a2":
            return list(v[4:])
        return [None]
    out = []
    for x in n[1:]:
        out += nest_leaves(x)
    return out


# ------------------------------------------------------------------ cases

def case_line(case):
    f = case["form"]
    ops = case.get("ops", [])
    t = f[0]
    if t == "bin":
        return sx(["c12", "bin", f[1]] + ops)
    if t == "un":
        return sx(["c12", "un", f[1]] + ops)
    if t == "call":
        return sx(["c12", "call", f[1]] + ops)
    if t == "thenF":
        return sx(["c12", "thenF"] + ops)
    if t == "condF":
        return sx(["c12", "condF"] + ops)
    if t in ("ct", "fo", "fa", "ad"):
        return sx(["c12", t] + case["nest"])
    if t == "conv":
        return sx(["c12", "conv", ops[0], f[1], f[2], f[3]])
    if t == "nb":
        return sx(["c12", "nb", ops[0], f[1]])
    if t == "nbi":
        return sx(["c12", "nbi", f[2], f[3], f[1]])
    raise KeyError(t)


def _nbargs(a):
    # int(str(.)): every coordinate is a NEW int object outside CPython's small-int cache (never identical with a shape entry)
    a = [a[0]] + [int(str(v)) for v in a[1:]]
    if a[0] == "two":
        return (a[1], a[2])
    if a[0] == "tuple":
        return ((a[1], a[2]),)
    if a[0] == "one":
        return (a[1],)
    return ((a[1], a[2]), a[3])


def _snapshot(ops):
    """identity of every array operand's buffer, its elements and its shape (an operation must leave its operands alone)"""
    snap = []
    for o in ops:
        if hasattr(o, "data") and hasattr(o, "shape"):
            snap.append((id(o.data), tuple(id(e) for e in o.data), tuple(o.shape)))
        else:
            snap.append(None)
    return snap


def run_case(case):
    """The case on the live code -> outcome wire string (`(err OperandMutated)` if the call changed an array operand)."""
    ops = [dec(o) for o in case.get("ops", [])]
    before = _snapshot(ops)
    out = _run_case(case, ops)
    if _snapshot(ops) != before:
        return "(err OperandMutated)"
    return out


def _run_case(case, ops):
    A, C, E = _mods()
    f = case["form"]
    t = f[0]
    if t == "bin":
        fn = dict(BINOPS)[f[1]]
        return outcome(lambda: fn(ops[0], ops[1]))
    if t == "un":
        fn = dict(UNOPS)[f[1]]
        return outcome(lambda: fn(ops[0]))
    if t == "call":
        s = ops[0]
        if not defines(s, f[1]):
            return "absent"
        return outcome(lambda: getattr(type(s), f[1])(s, *ops[1:]))
    if t == "thenF":
        return outcome(lambda: C.then(ops[0], ops[1]))
    if t == "condF":
        return outcome(lambda: C.cond(ops[0], ops[1], ops[2]))
    if t in ("ct", "fo", "fa", "ad"):
        fn = {"ct": C.count_true, "fo": C.fold_or, "fa": C.fold_and, "ad": C.alldifferent}[t]
        args = [dec_nest(n) for n in case["nest"]]
        try:
            return pexpr(fn(*args))
        except RecursionError:
            return "(err RecursionError)"
        except Exception as e:  # noqa: BLE001
            return sx(["err", core.err_name(e)])
    if t == "conv":
        s = ops[0]
        if not hasattr(s, "conv2d"):
            return "(err AttributeError)"
        return outcome(lambda: s.conv2d(int(f[1]), int(f[2]), f[3]))
    if t == "nb":
        s = ops[0]
        if not hasattr(s, "four_neighbors"):
            return "(err AttributeError)"
        return outcome(lambda: s.four_neighbors(*_nbargs(f[1])))
    if t == "nbi":
        try:
            H, W = int(f[2]), int(f[3])
            args = (_nbargs(f[1]) + (None,))[:2]
            r = A._four_neighbor_indices((H, W), *args)
            if H >= 0 and W >= 0:
                # the public entry points are the methods of the two 2-D classes: they must give the same list
                from cspuz.expr import BoolVar, IntVar
                rb = A.BoolArray2D([BoolVar(i) for i in range(H * W)], (H, W)).four_neighbor_indices(*[a for a in args if a is not None])
                ri = A.IntArray2D([IntVar(i, 0, 1) for i in range(H * W)], (H, W)).four_neighbor_indices(*[a for a in args if a is not None])
                if list(rb) != list(r) or list(ri) != list(r):
                    return sx(["err", "MethodsDisagree"])
            return sx([[y, x] for (y, x) in r])
        except Exception as e:  # noqa: BLE001
            return sx(["err", core.err_name(e)])
    raise KeyError(t)


# ------------------------------------------------------------------ the oracle: plain-Python reading of the property

def _kind(v):
    """'B' / 'I' / None of a wire operand, by what it IS (array class, expression class, literal type)."""
    if v[0] in ("a1", "a2"):
        return v[1]
    if v[0] == "s":
        e = v[1]
        if isinstance(e, str):
            if e in ("T", "F"):
                return "B"
            if e == "N":
                return None
            if e[0] == "b" and e[1:].isdigit():
                return "B"
            if e[0] == "i" and e[1:].isdigit():
                return "I"
            return "I"
        if e[0] in INT_OPS:
            return "I"
        if e[0] == "var":
            return None
        return "B"
    return None


def _shape(v):
    if v[0] == "a1":
        return (len(v) - 2,)
    if v[0] == "a2":
        return (int(v[2]), int(v[3]))
    return None


def _elems(v, n):
    if v[0] == "a1":
        return list(v[2:])
    if v[0] == "a2":
        return list(v[4:])
    return [v[1]] * n


def _size(sh):
    r = 1
    for d in sh:
        r *= d
    return r


PYSEM = {
    "&": lambda a, b: a and b, "|": lambda a, b: a or b, "^": lambda a, b: a != b,
    "+": lambda a, b: a + b, "-": lambda a, b: a - b, "==": lambda a, b: a == b, "!=": lambda a, b: a != b,
    "<": lambda a, b: a < b, "<=": lambda a, b: a <= b, ">": lambda a, b: a > b, ">=": lambda a, b: a >= b,
    "invert": lambda a: not a, "neg": lambda a: -a,
    "then": lambda a, b: (not a) or b, "cond": lambda c, t, f: t if c else f,
}
NEEDS = {"&": "B", "|": "B", "^": "B", "+": "I", "-": "I", "<": "I", "<=": "I", ">": "I", ">=": "I"}
REFLECTED = {"__rand__": "&", "__ror__": "|", "__rxor__": "^", "__radd__": "+", "__rsub__": "-"}
DIRECT = {"__and__": "&", "__or__": "|", "__xor__": "^", "__add__": "+", "__sub__": "-", "__eq__": "==",
          "__ne__": "!=", "__lt__": "<", "__le__": "<=", "__gt__": ">", "__ge__": ">="}


class _Asg(dict):
    """Random total assignment, filled on demand from the PRNG."""

    def __init__(self, rng):
        super().__init__()
        self.rng = rng

    def __missing__(self, k):
        v = (self.rng.random() < 0.5) if k[0] == "b" else self.rng.randint(LO, HI)
        self[k] = v
        return v


def _asgs(rng, n):
    return [_Asg(rng) for _ in range(n)]


def _vars_of(t, acc):
    if isinstance(t, str):
        if t[0] in "bi" and t[1:].isdigit() and t not in acc:
            acc.append(t)
    elif isinstance(t, list):
        for x in t[1:]:
            _vars_of(x, acc)
    return acc


def _corner_asgs(leaves):
    """Deterministic total assignments for the aggregates, so that an item lost or duplicated at a particular position shows
    whatever the PRNG does: with v the first / middle / last variable of the items (first-occurrence order) - only v true; all
    true but v; every integer variable a different value; all different but v, which repeats another one."""
    vs = []
    for e in leaves:
        _vars_of(e, vs)
    if not vs:
        return []
    num = {v: 10 + 3 * k for k, v in enumerate(vs)}
    out = [dict((v, True if v[0] == "b" else num[v]) for v in vs), dict((v, False if v[0] == "b" else num[v]) for v in vs)]
    for p in sorted({0, len(vs) // 2, len(vs) - 1}):
        sp = vs[p]
        other = vs[0] if p else vs[-1]
        out.append(dict((v, (v == sp) if v[0] == "b" else num[v]) for v in vs))
        a = dict((v, (v != sp) if v[0] == "b" else num[v]) for v in vs)
        if sp[0] == "i" and other[0] == "i":
            a[sp] = num[other]
        out.append(a)
    return out


def _ev(t, asg):
    from .exprio import ev, IllTyped
    try:
        return ("v", ev(t, asg))
    except IllTyped as e:
        return ("ill", str(e))
    except KeyError:
        return ("v", None)


def _pointwise(sem, operands, kinds_needed, result_kind, out, rng, what):
    """Check a returned value against the pointwise meaning.  operands in SEMANTIC order."""
    t = core.parse_sx(out)
    if t == "NI":
        return "returned the NotImplemented object"
    if t == "absent":
        return None
    if t[0] == "err":
        return f"raised {t[1]} on well-typed, equal-shape operands"
    r = t[1]
    shapes = [s for s in (_shape(o) for o in operands) if s is not None]
    if shapes:
        sh = shapes[0]
        if _shape(r) != sh:
            return f"result shape {_shape(r)} differs from operand shape {sh}"
        if r[1] != result_kind:
            return f"result array class kind {r[1]} but {result_kind} expected"
        n = _size(sh)
        res = _elems(r, n)
    else:
        if r[0] != "s":
            return "scalar operands gave a non-scalar"
        n = 1
        res = [r[1]]
    cols = [_elems(o, n) for o in operands]
    for asg in _asgs(rng, 3):
        for i in range(n):
            vals = []
            for c in cols:
                k, v = _ev(c[i], asg)
                if k != "v":
                    return None  # operand content itself ill-typed (not generated)
                vals.append(v)
            k, got = _ev(res[i], asg)
            want = sem(*vals)
            if k != "v":
                return f"element {i} of the result is ill-typed ({got}): {sx(res[i])}"
            if got != want or isinstance(got, bool) != isinstance(want, bool):
                return f"element {i} = {sx(res[i])} evaluates to {got}, but {what} of the operand values {vals} is {want}"
    return None


def oracle(case, out, rng):
    """None if `out` (what the live code did) is consistent with the property text, else a description."""
    f = case["form"]
    t = f[0]
    ops = case.get("ops", [])
    res = core.parse_sx(out) if t not in ("ct", "fo", "fa", "ad", "nbi") else None
    raised = isinstance(res, list) and res and res[0] == "err"

    def elementwise_form(sym, operands, needs, result_kind, all_literal_ok=False):
        kinds = [_kind(o) for o in operands]
        lits = [o[0] == "s" and isinstance(o[1], str) and not (o[1][0] in "bi" and o[1][1:].isdigit()) for o in operands]
        if all(lits):
            return None  # plain Python arithmetic on literals
        shapes = [s for s in (_shape(o) for o in operands) if s is not None]
        kinds_ok = all(k == n for k, n in zip(kinds, needs))
        if not kinds_ok:
            if sym in ("==", "!="):
                return None  # equality forms may fall back to identity comparison
            if raised:
                return None
            return "wrong-kind operand (kinds %s, required %s) was not rejected: %s" % (kinds, needs, out[:160])
        if any(s != shapes[0] for s in shapes):
            return None if raised else "shape mismatch %s was not rejected: %s" % (shapes, out[:160])
        return _pointwise(PYSEM[sym], operands, needs, result_kind, out, rng, sym)

    if t == "bin" or (t == "call" and (f[1] in DIRECT or f[1] in REFLECTED)):
        if t == "bin":
            sym, a, b = f[1], ops[0], ops[1]
        elif f[1] in DIRECT:
            sym, a, b = DIRECT[f[1]], ops[0], ops[1]
        else:
            sym, a, b = REFLECTED[f[1]], ops[1], ops[0]  # self is the RIGHT operand
        if t == "call":
            if out == "absent":
                return None
            if out == "NI":
                # a dunder may decline; then `a op b` is judged through the infix form
                return None
        if sym in NEEDS:
            needs = [NEEDS[sym]] * 2
        else:
            ka, kb = _kind(a), _kind(b)
            needs = [ka, ka] if ka is not None and ka == kb else ["I", "I"]
        result_kind = "I" if sym in ("+", "-") else "B"
        if t == "bin" and _kind(a) in ("B", "I") and _kind(b) in ("B", "I") and a[0] == "s" and b[0] == "s" \
                and sym in ("==", "!=") and _kind(a) != _kind(b):
            return None
        return elementwise_form(sym, [a, b], needs, result_kind)
    if t == "un":
        need = "B" if f[1] == "invert" else "I"
        return elementwise_form(f[1], [ops[0]], [need], need)
    if t == "thenF" or (t == "call" and f[1] == "then"):
        if out == "absent":
            return None
        return elementwise_form("then", ops[:2], ["B", "B"], "B")
    if t == "condF" or (t == "call" and f[1] == "cond"):
        if out == "absent":
            return None
        return elementwise_form("cond", ops[:3], ["B", "I", "I"], "I")
    if t in ("ct", "fo", "fa", "ad"):
        leaves = []
        for n in case["nest"]:
            leaves += nest_leaves(n)
        kinds = [None if e is None else _kind(["s", e]) for e in leaves]
        r = core.parse_sx(out)
        err = isinstance(r, list) and r and r[0] == "err"
        want_kind = "I" if t == "ad" else "B"
        if any(k != want_kind for k in kinds):
            if t == "ct":
                return None if err else f"count_true accepted a non-Boolean item (kinds {kinds}): {out[:120]}"
            if t == "ad":
                bad = [e for e, k in zip(leaves, kinds) if k != "I" and e not in ("T", "F")]
                if bad:
                    return None if err else f"alldifferent accepted a non-integer item {bad[0]}: {out[:120]}"
                return None  # Python bool literals pass isinstance(x, int): observation, not judged
            return None  # fold_or / fold_and may short-cut before reaching the item
        if err:
            return f"{t} raised {r[1]} on well-typed items"
        for asg in _asgs(rng, 3) + _corner_asgs(leaves):
            vals = []
            for e in leaves:
                k, v = _ev(e, asg)
                if k != "v":
                    return None
                vals.append(v)
            k, got = _ev(r, asg)
            want = {"ct": lambda: sum(1 for v in vals if v), "fo": lambda: any(vals), "fa": lambda: all(vals),
                    "ad": lambda: len(set(vals)) == len(vals)}[t]()
            if k != "v" or got != want or isinstance(got, bool) != isinstance(want, bool):
                shown = vals if len(vals) <= 20 else (
                    f"[{len(vals)} items, {sum(1 for v in vals if v is True)} of them true, the last five {vals[-5:]}]" if t != "ad"
                    else f"[{len(vals)} items, {len(set(vals))} different values, the last five {vals[-5:]}]")
                return f"{t} of items with values {shown} evaluates to {got} ({out[:100]}), expected {want}"
        return None
    if t == "call" and f[1] in ("fold_or", "fold_and", "count_true", "alldifferent"):
        if out == "absent" or ops[0][0] == "s":
            return None
        name = {"fold_or": "fo", "fold_and": "fa", "count_true": "ct", "alldifferent": "ad"}[f[1]]
        r = core.parse_sx(out)
        if not (isinstance(r, list) and r[0] == "val" and r[1][0] == "s"):
            return f"{f[1]}() did not return an expression: {out[:100]}"
        return oracle({"form": [name], "nest": [["L", ops[0]]]}, sx(r[1][1]), rng)
    if t == "conv":
        a = ops[0]
        h, w, op = int(f[1]), int(f[2]), f[3]
        if a[0] != "a2" or a[1] != "B":
            return None if raised else "conv2d exists on a class other than BoolArray2D"
        if op not in ("and", "or"):
            return None if raised else "conv2d accepted op=" + op
        if h < 0 or w < 0:
            return None  # negative window sizes: no meaning given by the property (observation)
        H, W = int(a[2]), int(a[3])
        if raised:
            return f"conv2d raised {res[1]}"
        r = res[1]
        rh, rw = max(0, H - h + 1), max(0, W - w + 1)
        if r[0] != "a2" or r[1] != "B" or (int(r[2]), int(r[3])) != (rh, rw) or len(r) - 4 != rh * rw:
            return f"conv2d result {r[:4]} but shape ({rh},{rw}) expected"
        data = a[4:]
        for asg in _asgs(rng, 2):
            vals = [_ev(e, asg)[1] for e in data]
            for y in range(rh):
                for x in range(rw):
                    win = [vals[(y + dy) * W + (x + dx)] for dy in range(h) for dx in range(w)]
                    want = all(win) if op == "and" else any(win)
                    k, got = _ev(r[4 + y * rw + x], asg)
                    if k != "v" or got != want:
                        return f"conv2d({h},{w},{op}) entry ({y},{x}) = {sx(r[4 + y * rw + x])} evaluates to {got}, window gives {want}"
        return None
    if t == "nb":
        a = ops[0]
        if a[0] != "a2":
            return None if raised else "four_neighbors exists on a non-2D class"
        H, W = int(a[2]), int(a[3])
        form = f[1]
        if form[0] in ("one", "tint"):
            return None if raised else "four_neighbors accepted a malformed call " + sx(form)
        y, x = int(form[1]), int(form[2])
        if not (0 <= y < H and 0 <= x < W):
            return None  # not a cell of the array: observation only
        want = [a[4 + yy * W + xx] for yy, xx in ((y - 1, x), (y + 1, x), (y, x - 1), (y, x + 1))
                if 0 <= yy < H and 0 <= xx < W]
        if raised:
            return f"four_neighbors({y},{x}) raised {res[1]}"
        r = res[1]
        if r[0] != "a1" or r[1] != a[1] or r[2:] != want:
            return f"four_neighbors({y},{x}) on {H}x{W} = {sx(r)}, expected {sx(want)} (up, down, left, right)"
        return None
    if t == "nbi":
        form = f[1]
        H, W = int(f[2]), int(f[3])
        r = core.parse_sx(out)
        err = isinstance(r, list) and r and r[0] == "err"
        if form[0] in ("one", "tint"):
            return None if err else "four_neighbor_indices accepted a malformed call"
        y, x = int(form[1]), int(form[2])
        if not (0 <= y < H and 0 <= x < W):
            return None
        want = [[str(yy), str(xx)] for yy, xx in ((y - 1, x), (y + 1, x), (y, x - 1), (y, x + 1))
                if 0 <= yy < H and 0 <= xx < W]
        if err or r != want:
            return f"four_neighbor_indices({y},{x}) on {H}x{W} = {out}, expected {sx(want)}"
        return None
    return None


# ------------------------------------------------------------------ generators (wire level, one PRNG)

def g_bool(rng, d=2):
    r = rng.random()
    if d == 0 or r < 0.45:
        return f"b{rng.randint(0, 5)}"
    if r < 0.55:
        return ["not", g_bool(rng, d - 1)]
    if r < 0.65:
        return ["and", g_bool(rng, d - 1), g_bool(rng, d - 1)]
    if r < 0.72:
        return ["or", g_bool(rng, d - 1), g_bool(rng, d - 1), g_bool(rng, d - 1)]
    if r < 0.8:
        return [rng.choice(["lt", "le", "eq", "ne", "ge", "gt"]), g_int(rng, d - 1), g_int(rng, d - 1)]
    if r < 0.88:
        return [rng.choice(["iff", "xor", "imp"]), g_bool(rng, d - 1), g_bool(rng, d - 1)]
    if r < 0.94:
        return rng.choice(["T", "F"])
    return ["bool_constant", rng.choice(["T", "F"])]


def g_int(rng, d=2):
    r = rng.random()
    if d == 0 or r < 0.5:
        return f"i{rng.randint(0, 5)}"
    if r < 0.62:
        return [rng.choice(["add", "sub"]), g_int(rng, d - 1), g_int(rng, d - 1)]
    if r < 0.7:
        return ["neg", g_int(rng, d - 1)]
    if r < 0.8:
        return ["if", g_bool(rng, d - 1), g_int(rng, d - 1), g_int(rng, d - 1)]
    if r < 0.94:
        return str(rng.randint(-2, 3))
    return ["int_constant", str(rng.randint(0, 2))]


def g_shape(rng):
    r = rng.random()
    if r < 0.45:
        return (rng.choice([0, 1, 2, 2, 3, 4]),)
    return (rng.choice([0, 1, 1, 2, 3]), rng.choice([0, 1, 2, 3]))


def g_arr(rng, kind, sh):
    g = g_bool if kind == "B" else g_int
    n = _size(sh)
    els = [g(rng, rng.choice([0, 0, 1, 2])) for _ in range(n)]
    if len(sh) == 1:
        return ["a1", kind] + els
    return ["a2", kind, sh[0], sh[1]] + els


def g_scalar(rng, kind):
    """A scalar of the requested kind: expression object or literal."""
    if kind == "B":
        e = g_bool(rng, rng.choice([0, 1, 2]))
    else:
        e = g_int(rng, rng.choice([0, 1, 2]))
    return ["s", e]


def g_junk(rng):
    r = rng.random()
    if r < 0.4:
        return ["s", "N"]
    if r < 0.7:
        return ["o"]
    return ["s", rng.choice(["T", "F", "0", "1", "7"])]


def g_operand(rng, kind, sh, p_arr=0.6, p_bad=0.12):
    """Mostly an operand of kind `kind` conforming to `sh`; sometimes wrong kind / shape / junk."""
    r = rng.random()
    if r < p_bad:
        q = rng.random()
        if q < 0.3:
            return g_junk(rng)
        if q < 0.65:
            kind = "I" if kind == "B" else "B"
        else:
            sh = g_shape(rng)
            return g_arr(rng, kind, sh)
    if rng.random() < p_arr:
        return g_arr(rng, kind, sh)
    return g_scalar(rng, kind)


def g_nest(rng, kind, d=2):
    r = rng.random()
    if d == 0 or r < 0.55:
        q = rng.random()
        if q < 0.05:
            return ["L", g_junk(rng)]
        if q < 0.1:
            return ["L", g_scalar(rng, "I" if kind == "B" else "B")]
        if q < 0.45:
            return ["L", g_arr(rng, kind if rng.random() < 0.93 else ("I" if kind == "B" else "B"), g_shape(rng))]
        return ["L", g_scalar(rng, kind)]
    return ["I"] + [g_nest(rng, kind, d - 1) for _ in range(rng.randint(0, 3))]


def gen_cases(rng, n):
    cases = []
    syms = [s for s, _ in BINOPS]
    for _ in range(n):
        r = rng.random()
        sh = g_shape(rng)
        if r < 0.34:
            sym = rng.choice(syms)
            kind = NEEDS.get(sym) or rng.choice(["B", "I"])
            a = g_operand(rng, kind, sh)
            b = g_operand(rng, kind, sh)
            cases.append({"form": ["bin", sym], "ops": [a, b]})
        elif r < 0.40:
            nm = rng.choice(["invert", "neg"])
            kind = "B" if nm == "invert" else "I"
            cases.append({"form": ["un", nm], "ops": [g_operand(rng, kind, sh, 0.8)]})
        elif r < 0.50:
            m = rng.choice(DUNDERS1[:-1])
            sym = DIRECT.get(m) or REFLECTED[m]
            kind = NEEDS.get(sym) or rng.choice(["B", "I"])
            s = g_operand(rng, kind, sh, 0.7, 0.05)
            cases.append({"form": ["call", m], "ops": [s, g_operand(rng, kind, sh)]})
        elif r < 0.58:
            cases.append({"form": ["call", "then"], "ops": [g_operand(rng, "B", sh, 0.5, 0.05), g_operand(rng, "B", sh)]})
        elif r < 0.64:
            cases.append({"form": ["thenF"], "ops": [g_operand(rng, "B", sh, 0.5), g_operand(rng, "B", sh)]})
        elif r < 0.72:
            cases.append({"form": ["call", "cond"], "ops": [g_operand(rng, "B", sh, 0.5, 0.05), g_operand(rng, "I", sh, 0.5),
                                                          g_operand(rng, "I", sh, 0.5)]})
        elif r < 0.78:
            cases.append({"form": ["condF"], "ops": [g_operand(rng, "B", sh, 0.5), g_operand(rng, "I", sh, 0.5),
                                                   g_operand(rng, "I", sh, 0.5)]})
        elif r < 0.86:
            t = rng.choice(["ct", "fo", "fa", "ad"])
            kind = "I" if t == "ad" else "B"
            cases.append({"form": [t], "nest": [g_nest(rng, kind) for _ in range(rng.randint(0, 3))]})
        elif r < 0.90:
            m = rng.choice(["fold_or", "fold_and", "count_true", "alldifferent"])
            kind = "I" if m == "alldifferent" else "B"
            cases.append({"form": ["call", m], "ops": [g_operand(rng, kind, sh, 0.8, 0.15)]})
        elif r < 0.95:
            H, W = rng.choice([0, 1, 2, 3, 4]), rng.choice([0, 1, 2, 3, 4])
            a = g_arr(rng, "B", (H, W)) if rng.random() < 0.93 else g_operand(rng, "I", (H, W), 0.9, 0.3)
            h = rng.choice([0, 1, 1, 2, 2, 3, 5, -1])
            w = rng.choice([0, 1, 1, 2, 2, 3, 5, -1])
            cases.append({"form": ["conv", h, w, rng.choice(["and", "or", "and", "or", "xor"])], "ops": [a]})
        else:
            H, W = rng.choice([1, 1, 2, 3, 4]), rng.choice([1, 2, 3, 4])
            a = g_arr(rng, rng.choice(["B", "I"]), (H, W))
            q = rng.random()
            y = rng.randint(0, H - 1) if q < 0.85 else rng.randint(-2, H + 1)
            x = rng.randint(0, W - 1) if q < 0.85 else rng.randint(-2, W + 1)
            fm = rng.choice([["two", y, x], ["two", y, x], ["tuple", y, x], ["one", y], ["tint", y, x, 0]])
            cases.append({"form": ["nb", fm], "ops": [a]})
            cases.append({"form": ["nbi", fm, H, W]})
    return cases


def literal_nest_cases():
    """Aggregates over Python literals only (no expression object among the items), in every nesting shape: "an operand
    that is a Python literal behaves like the corresponding constant"."""
    T, F = ["L", ["s", "T"]], ["L", ["s", "F"]]
    I = lambda *xs: ["I"] + list(xs)
    n = lambda v: ["L", ["s", str(v)]]
    out = []
    for t in ("ct", "fo", "fa"):
        for nest in ([], [T], [F], [T, T], [T, F, T], [I(T), I(F, I(T))], [I(), T], [I(T, T, T)], [F, I(F)]):
            out.append({"form": [t], "nest": nest})
    for nest in ([], [n(1)], [n(1), n(2)], [n(1), n(1)], [I(n(0), n(3)), n(3)], [I(n(2)), I(I(n(5)))]):
        out.append({"form": ["ad"], "nest": nest})
    # items that are themselves compound nodes of the SAME kind as the aggregate, or of the other kind, holding a Python literal
    # (what `a & False`, `True | a`, `~(a & True)` build): an aggregate that merges or simplifies its items must keep their meaning
    E = lambda t: ["L", ["s", t]]
    comp = [["and", "b100", "F"], ["and", "T", "b101"], ["or", "b100", "T"], ["or", "F", "b101"], ["and", ["and", "b100", "F"], "b101"],
            ["or", ["or", "T", "b100"], "b101"], ["not", ["and", "b100", "T"]], ["and", ["or", "b100", "T"], "b101"],
            ["or", ["and", "b100", "F"], "b101"], ["xor", "b100", "T"], ["iff", "b100", "F"], ["imp", "b100", "F"]]
    for t in ("ct", "fo", "fa"):
        for c in comp:
            out.append({"form": [t], "nest": [E(c), E("b102")]})
            out.append({"form": [t], "nest": [I(E("b102"), I(E(c))), E("b103")]})
        out.append({"form": [t], "nest": [["L", ["a1", "B"] + comp[:4]], E("b102")]})
        out.append({"form": ["call", {"ct": "count_true", "fo": "fold_or", "fa": "fold_and"}[t]], "ops": [["a1", "B"] + comp[:6]]})
    icomp = [["add", "i100", 0], ["add", ["add", "i100", 1], "i101"], ["sub", "i100", ["sub", 0, "i101"]], ["neg", ["neg", "i100"]],
             ["if", "T", "i100", "i101"], ["if", "b100", 2, "i101"]]
    for c in icomp:
        out.append({"form": ["ad"], "nest": [E(_strs(c)), E("i102")]})
    return out


def _strs(t):
    return [_strs(x) for x in t] if isinstance(t, list) else str(t)


# ---- large cases: a handful per run (the theorems hold for all sizes; the tie to the code must see big operands too)

def _big_elems(kind, n, off=0, plain=False):
    """n element trees of the kind: distinct variables (ids off..off+n-1), some compound (NOT / NEG) and some literal entries in
    between; the last eight are always plain variables (an item dropped at the end must change the value)."""
    out = []
    for k in range(n):
        v = ("b" if kind == "B" else "i") + str(off + k)
        if not plain and k < n - 8:
            if k % 7 == 3:
                v = ["not", v] if kind == "B" else ["neg", v]
            elif k % 11 == 5:
                v = ("T" if k % 2 else "F") if kind == "B" else str(1000 + off + k)
        out.append(v)
    return out


def _big_arr(kind, sh, off=0, plain=False):
    els = _big_elems(kind, _size(sh), off, plain)
    if len(sh) == 1:
        return ["a1", kind] + els
    return ["a2", kind, sh[0], sh[1]] + els


def large_cases():
    """Deterministic large instances of every aggregate / helper / elementwise form (each below ~1000 items):
    aggregates as functions over big nests (12x12 array; 134 scalars; 8x16 array followed by nested literals; 129, 256, 257, 300
    items; 128 expressions + one literal; deep nesting) and as array methods (15x15, 200, 1x200, 200x1); every infix operator, the
    unary ones, some reflected dunders, then / cond (methods and functions) on 17x16, 1x300 and length-300 arrays (array-array,
    array-scalar, scalar-array, mismatching big shapes); conv2d and four_neighbors(+indices) on 17x16, 1x300, 300x1."""
    out = []
    L = lambda v: ["L", v]
    I = lambda *xs: ["I"] + list(xs)
    for t in ("ct", "fo", "fa", "ad"):
        K = "I" if t == "ad" else "B"
        lit = (lambda j: L(["s", str(5000 + j)])) if t == "ad" else (lambda j: L(["s", "T" if j % 2 == 0 else "F"]))
        nests = [
            [L(_big_arr(K, (12, 12)))],
            [L(["s", e]) for e in _big_elems(K, 134, plain=True)],
            [L(_big_arr(K, (8, 16), plain=True)), I(lit(0), I(lit(1), lit(2))), lit(4)],
            [I(L(_big_arr(K, (129,))))],
            [L(_big_arr(K, (100,))), I(L(_big_arr(K, (3, 19), 100)), I(L(_big_arr(K, (100,), 157))))],
            [L(_big_arr(K, (16, 16)))],
            [L(["s", e]) for e in _big_elems(K, 128, plain=True)] + [lit(0)],
            [L(_big_arr(K, (300,)))],
            [I(I(I(L(_big_arr(K, (15, 15))))), lit(0)), L(["s", ("b" if K == "B" else "i") + "900"])],
            [L(_big_arr(K, (1, 130))), L(_big_arr(K, (130, 1), 130))],
        ]
        for nest in nests:
            out.append({"form": [t], "nest": nest})
    for m in ("fold_or", "fold_and", "count_true", "alldifferent"):
        K = "I" if m == "alldifferent" else "B"
        for sh in ((15, 15), (200,), (1, 200), (200, 1), (12, 12)):
            out.append({"form": ["call", m], "ops": [_big_arr(K, sh)]})
    shapes = [(17, 16), (1, 300), (300,)]
    for j, (sym, _) in enumerate(BINOPS):
        K = NEEDS.get(sym) or ("B" if j % 2 else "I")
        sc = ["s", ("b" if K == "B" else "i") + "2000"]
        litv = ["s", "T" if K == "B" else "3"]
        sh = shapes[j % 3]
        out.append({"form": ["bin", sym], "ops": [_big_arr(K, sh), _big_arr(K, sh, 1000)]})
        out.append({"form": ["bin", sym], "ops": [_big_arr(K, shapes[(j + 1) % 3]), sc if j % 2 else litv]})
        out.append({"form": ["bin", sym], "ops": [litv if j % 2 else sc, _big_arr(K, shapes[(j + 2) % 3])]})
    for sym, K in (("&", "B"), ("+", "I"), ("==", "I"), ("<", "I")):
        out.append({"form": ["bin", sym], "ops": [_big_arr(K, (17, 16)), _big_arr(K, (16, 17), 1000)]})
        out.append({"form": ["bin", sym], "ops": [_big_arr(K, (1, 300)), _big_arr(K, (300,), 1000)]})
        out.append({"form": ["bin", sym], "ops": [_big_arr(K, (300,)), _big_arr(K, (299,), 1000)]})
    for nm, K in (("invert", "B"), ("neg", "I")):
        for sh in shapes:
            out.append({"form": ["un", nm], "ops": [_big_arr(K, sh)]})
    for m, K in (("__rsub__", "I"), ("__rand__", "B"), ("__radd__", "I"), ("__ge__", "I"), ("__xor__", "B")):
        out.append({"form": ["call", m], "ops": [_big_arr(K, (17, 16)), _big_arr(K, (17, 16), 1000)]})
        out.append({"form": ["call", m], "ops": [_big_arr(K, (300,)), ["s", ("b" if K == "B" else "i") + "2000"]]})
    for sh in shapes:
        bA, bB, bs = _big_arr("B", sh), _big_arr("B", sh, 1000), ["s", "b2000"]
        iA, iB, is_ = _big_arr("I", sh), _big_arr("I", sh, 1000), ["s", "i2000"]
        out.append({"form": ["call", "then"], "ops": [bA, bB]})
        out.append({"form": ["call", "then"], "ops": [bA, bs]})
        out.append({"form": ["thenF"], "ops": [bA, bB]})
        out.append({"form": ["thenF"], "ops": [bs, bB]})
        out.append({"form": ["call", "cond"], "ops": [bA, iA, iB]})
        out.append({"form": ["call", "cond"], "ops": [bA, ["s", "2"], is_]})
        out.append({"form": ["condF"], "ops": [bA, iA, iB]})
        out.append({"form": ["condF"], "ops": [bs, iA, ["s", "1"]]})
        out.append({"form": ["condF"], "ops": [bA, is_, iB]})
    a = _big_arr("B", (17, 16))
    for (h, w, op) in ((2, 2, "and"), (3, 3, "or"), (17, 16, "and"), (1, 1, "or"), (18, 1, "and"), (1, 16, "or"), (17, 1, "and")):
        out.append({"form": ["conv", h, w, op], "ops": [a]})
    a = _big_arr("B", (1, 300))
    for (h, w, op) in ((1, 2, "or"), (1, 300, "and"), (1, 257, "or"), (2, 1, "and"), (1, 129, "and")):
        out.append({"form": ["conv", h, w, op], "ops": [a]})
    out.append({"form": ["conv", 257, 1, "or"], "ops": [_big_arr("B", (300, 1))]})
    for (H, W), K, pts in (((17, 16), "B", [(0, 0), (16, 15), (8, 8), (16, 0), (0, 15), (17, 15), (16, 16)]),
                           ((1, 300), "I", [(0, 0), (0, 299), (0, 298), (0, 256), (0, 257), (0, 258), (0, 300), (1, 299)]),
                           ((300, 1), "B", [(299, 0), (298, 0), (257, 0), (256, 0), (0, 0), (300, 0)])):
        a = _big_arr(K, (H, W), plain=True)
        for k, (y, x) in enumerate(pts):
            fm = ["two", y, x] if k % 2 == 0 else ["tuple", y, x]
            out.append({"form": ["nb", fm], "ops": [a]})
            out.append({"form": ["nbi", fm, H, W]})
    return out


def table_cases():
    """The forms of the regenerated table as ordinary cases (symbolic operands)."""
    out = []
    for f in all_forms():
        tag = f[0]
        if tag == "infix":
            out.append({"form": ["bin", f[1]], "ops": [enc(kind_value(f[2], 0)), enc(kind_value(f[3], 1))]})
        elif tag == "unary":
            out.append({"form": ["un", f[1]], "ops": [enc(kind_value(f[2], 0))]})
        elif tag == "call1":
            out.append({"form": ["call", f[1]], "ops": [enc(kind_value(f[2], 0)), enc(kind_value(f[3], 1))]})
        elif tag == "call0":
            out.append({"form": ["call", f[1]], "ops": [enc(kind_value(f[2], 0))]})
        elif tag == "condM":
            out.append({"form": ["call", "cond"], "ops": [enc(kind_value(f[1], 0)), enc(kind_value(f[2], 1)),
                                                         enc(kind_value(f[3], 2))]})
        elif tag == "thenFn":
            out.append({"form": ["thenF"], "ops": [enc(kind_value(f[1], 0)), enc(kind_value(f[2], 1))]})
        elif tag == "condFn":
            out.append({"form": ["condF"], "ops": [enc(kind_value(f[1], 0)), enc(kind_value(f[2], 1)),
                                                  enc(kind_value(f[3], 2))]})
    return out


# ------------------------------------------------------------------ classification of failures

def classify(case, why):
    f = case["form"]
    t = f[0]
    ops = case.get("ops", [])

    def has_bool_literal_in_int_position():
        if t == "bin" and f[1] in NEEDS and NEEDS[f[1]] == "I":
            pos = ops
        elif t == "bin" and f[1] in ("==", "!="):
            pos = ops
        elif t == "call" and (f[1] in DIRECT or f[1] in REFLECTED):
            pos = ops
        elif t == "un" and f[1] == "neg":
            pos = ops
        elif t in ("condF",) or (t == "call" and f[1] == "cond"):
            pos = ops[1:3]
        else:
            return False
        return any(o[0] == "s" and o[1] in ("T", "F") for o in pos) and any(o[0] in ("a1", "a2") for o in ops)
    is_then_cond = t in ("thenF", "condF") or (t == "call" and f[1] in ("then", "cond"))
    if has_bool_literal_in_int_position() and "not rejected" in why:
        return "D4:array-form-accepts-bool-literal-as-int"
    if is_then_cond:
        if "NotImplemented" in why or ": NI" in why:
            return "D5:then-cond-returns-NotImplemented"
        if "not rejected" in why or "ill-typed" in why:
            return "D5:then-cond-builds-ill-typed-node"
        return "then-cond:wrong-meaning"
    if t == "bin":
        return f"infix {f[1]}:" + ("not-rejected" if "not rejected" in why else "wrong-meaning")
    if t == "call":
        return f"method {f[1]}:" + ("not-rejected" if "not rejected" in why else "wrong-meaning")
    if t == "un":
        return f"unary {f[1]}:" + ("not-rejected" if "not rejected" in why else "wrong-meaning")
    return t + ":" + ("not-rejected" if ("accepted" in why or "not rejected" in why) else "wrong-meaning")


def describe(case):
    f = case["form"]
    if "nest" in case:
        return sx(f) + " " + " ".join(sx(n) for n in case["nest"])
    return sx(f) + " " + " ".join(sx(o) for o in case.get("ops", []))


# ------------------------------------------------------------------ check entry points

def correspond(ctx):
    ctx.extra["rule"] = (
        "every row of the regenerated table (8 receiver classes x dunders/then/cond/infix x 15 operand kinds) plus random "
        "cases from one PRNG: operands built through the real classes (arrays of variables / compound expressions / "
        "literals, shapes incl. empty, 0xN, 1xN; scalars; literals; None; foreign objects), mostly well-typed and "
        "equal-shaped; ~200 deterministic LARGE cases (aggregates over 129..300 flattened items as functions over nests and as "
        "methods of 15x15 / 200 / 1x200 arrays; every operator form, then/cond, conv2d, four_neighbors on 17x16, 1x300, 300x1, "
        "length 300); aggregates also judged under deterministic corner assignments (only the first/middle/last item true, all "
        "but it, all different, one repeat); small random cases: mostly well-typed and "
        "equal-shaped with a malformed stream (wrong kind / shape / junk); every operator form, then/cond (methods and "
        "functions), helpers over nested arguments, conv2d, four_neighbors(+indices); compared: live outcome (class, "
        "shape, every element tree, or exception type) vs the Lean model, and the live outcome vs the plain-Python "
        "pointwise oracle under random assignments; non-trivial+distinct = (form, operand kinds/shapes, outcome kind)")
    rng = ctx.rng
    cases = table_cases() + literal_nest_cases() + large_cases() + gen_cases(rng, ctx.n(20000, 200000))
    outs = core.Driver().run([case_line(c) for c in cases])
    nt = len(all_forms())
    for idx, (c, m) in enumerate(zip(cases, outs)):
        r = run_case(c)
        f = c["form"]
        okind = r.split(" ")[0].strip("()") if r.startswith("(") else r
        if r.startswith("(err"):
            okind = "err:" + core.parse_sx(r)[1]
        ctx.count("form:" + f[0] + (":" + str(f[1]) if f[0] in ("bin", "un", "call") else ""))
        ctx.count("outcome:" + okind)
        sig = (sx(f), tuple((o[0], _kind(o), _shape(o)) for o in c.get("ops", [])),
               okind, len(c.get("nest", [])))
        ctx.case({"case": describe(c)[:300], "real": r[:300]}, sig if okind not in ("absent",) else None)
        if r != m:
            ctx.disagree("model-vs-code" + ("(table)" if idx < nt else ""), case=describe(c)[:400], real=r[:300],
                         model=m[:300])
        why = oracle(c, r, rng)
        if why:
            ctx.disagree("oracle", case=describe(c)[:400], real=r[:300], why=why[:300])


def _abbr(t, keep=10):
    """Wire tree with long lists cut to their first `keep` and last 3 entries (for messages about large cases only)."""
    if not isinstance(t, list):
        return t
    t = [_abbr(x, keep) for x in t]
    if len(t) > keep + 6:
        t = t[:keep] + [f"...{len(t) - keep - 3}-more..."] + t[-3:]
    return t


def _finding(case, out, why):
    sig = classify(case, why)
    d = describe(case)
    if len(d) > 300:
        d = sx(case["form"]) + " " + " ".join(sx(_abbr(x)) for x in (case["nest"] if "nest" in case else case.get("ops", [])))
        if len(case.get("nest", [])) > 16:
            d = sx(case["form"]) + " " + sx(_abbr(case["nest"]))[1:-1]
        try:
            out_s = sx(_abbr(core.parse_sx(out)))
        except Exception:  # noqa: BLE001
            out_s = out
    else:
        out_s = out
    return Finding(sig, f"{d[:400]}  ->  {out_s[:200]} : {why[:300]}", {"case": case, "observed": out, "why": why})


def search(ctx, why):
    """Real code vs the plain-Python reading of the property: all table forms, then random cases."""
    import random
    rng = random.Random(f"C12-search-{ctx.seed}")
    found = {}
    cases = table_cases() + literal_nest_cases() + large_cases() + gen_cases(rng, 8000)
    for c in cases:
        try:
            r = run_case(c)
        except Exception as e:  # noqa: BLE001
            r = sx(["err", "harness:" + type(e).__name__])
        w = oracle(c, r, rng)
        if w:
            f = _finding(c, r, w)
            if f.signature not in found:
                found[f.signature] = f
    return list(found.values())


def replay(ctx, data):
    import random
    case = data.get("case")
    if not case:
        return None
    rng = random.Random("C12-replay")
    r = run_case(case)
    w = oracle(case, r, rng)
    if w:
        return _finding(case, r, w)
    return None
