"""C09 — active_edges_acyclic admits exactly the forests."""
from . import core, exprio, graphs, graphcorr
from .core import Finding

THEOREMS = ["Cspuz.C09.C09_exact", "Cspuz.C09.C09_total"]


def correspond(ctx):
    ctx.extra["rule"] = ("random loop-free multigraphs n<=6 (parallel edges, isolated vertices), edge flags as variables / "
                         "negations / compound expressions / constants; program emitted by the real active_edges_acyclic vs the "
                         "Lean model's program (constraint multiset); distinct by call arguments")
    graphcorr.run_cases(ctx, graphcorr.case_acyclic, ctx.n(400, 6000), "acyclic")
    if not ctx.quick():
        for f in search(ctx, None, budget=40):
            ctx.disagree("semantic", what=f.what, data=f.data)
        ctx.extra["semantic_differential"] = "thorough tier: all edge subsets of 40 loop-free multigraphs (n<=5, m<=9) on the real code vs union-find oracle (bounded test)"


def _check(n, edges, negate=False):
    from cspuz import graph as G
    mk = graphs.mk_graph(n, edges)
    m = len(edges)

    def builder(s):
        vs = [s.bool_var() for _ in range(m)]
        ie = [~v for v in vs] if negate else vs
        return lambda: G.active_edges_acyclic(s, ie, mk)
    decls, cs, base, _ = graphs.real_program(builder)
    for pat in graphs.all_patterns(m):
        fixed = {f"b{i}": pat[i] for i in range(m)}
        act = [not p for p in pat] if negate else list(pat)
        got = exprio.solve_prog(decls, cs, base, fixed) is not None
        want = graphs.edges_acyclic(n, edges, act)
        if got != want:
            return list(pat), got, want
    return None


def search(ctx, why, budget=None):
    found = {}
    for (n, edges) in graphs.small_graphs(ctx.rng, budget or ctx.n(30, 60), 5):
        if len(edges) > 9 or any(a == b for a, b in edges):
            continue
        for negate in (False, True):
            if negate and len(edges) > 6:
                continue
            try:
                bad = _check(n, edges, negate)
            except Exception as e:
                bad = ("exception", core.err_name(e), str(e)[:200])
            ctx.count("search:acyclic")
            if bad and "x" not in found:
                found["x"] = Finding("acyclic:sat-mismatch",
                                     f"active_edges_acyclic on n={n} edges={edges} flags{'(negated)' if negate else ''}={bad[0]}: satisfiable={bad[1]} expected {bad[2]}",
                                     {"n": n, "edges": edges, "negate": negate, "pattern": bad[0], "got": bad[1], "want": bad[2]})
    return list(found.values())


def replay(ctx, data):
    bad = _check(data["n"], [tuple(e) for e in data["edges"]], data.get("negate", False))
    return Finding("acyclic:replay", f"still fails: {bad}", data) if bad else None
