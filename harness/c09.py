"""C09 — active_edges_acyclic admits exactly the forests."""
from . import core, exprio, graphs, graphcorr
from .core import Finding

THEOREMS = ["Cspuz.C09.C09_exact", "Cspuz.C09.C09_total"]


def correspond(ctx):
    ctx.extra["rule"] = ("random loop-free multigraphs n<=6 (parallel edges, isolated vertices), edge flags as variables / "
                         "negations / compound expressions / constants; program emitted by the real active_edges_acyclic vs the "
                         "Lean model's program (constraint multiset); distinct by call arguments"
                         " + a handful of deterministic medium / LARGE instances per family (graphs.big_graphs: 40, 70 and 258..319 vertices -- vertex ids beyond CPython's small-int cache, more than 32 / 64 vertices --, boards up to 16x17); about half of the Graph objects are observed part-way through construction (accessors read, every graph constraint posted once on a throw-away Solver) before the remaining edges are added"
                         " + a deterministic sweep over EVERY size of a medium range (graphs.medium_graphs / medium_grids: for every n from 30 to 130 a star with a rim edge between its last two leaves and a path or cycle; boards of every height 30..130 with width 1 or 2 and a few transposed) -- block arithmetic in an encoder (sums cut into blocks of 24 / 40 / 50 ... with a leftover) changes branch at sizes nobody knows in advance")
    graphcorr.run_cases(ctx, graphcorr.case_acyclic, ctx.n(400, 6000), "acyclic", bigs=graphcorr.graph_bigs() + graphcorr.medium_bigs())
    if not ctx.quick():
        for f in search(ctx, None, budget=40):
            ctx.disagree("semantic", what=f.what, data=f.data)
        ctx.extra["semantic_differential"] = "thorough tier: all edge subsets of 40 loop-free multigraphs (n<=5, m<=9) on the real code vs union-find oracle (bounded test)"


def _check(n, edges, negate=False):
    from cspuz import graph as G
    mk = graphs.mk_graph(n, edges)
    m = len(edges)

    def builder(s):
        vs = [s.bool_var() for _ in range(m)]
        ie = [~v for v in vs] if negate else vs
        return lambda: G.active_edges_acyclic(s, ie, mk)
    decls, cs, base, _ = graphs.real_program(builder)
    for pat in graphs.all_patterns(m):
        fixed = {f"b{i}": pat[i] for i in range(m)}
        act = [not p for p in pat] if negate else list(pat)
        got = exprio.solve_prog(decls, cs, base, fixed) is not None
        want = graphs.edges_acyclic(n, edges, act)
        if got != want:
            return list(pat), got, want
    return None


def _check_patterns(n, edges, negate, patterns):
    """Selected edge sets of a medium / large graph (see graphs.edge_patterns)."""
    from cspuz import graph as G
    mk = graphs.mk_graph(n, edges)
    m = len(edges)

    def builder(s):
        vs = [s.bool_var() for _ in range(m)]
        ie = [~v for v in vs] if negate else vs
        return lambda: G.active_edges_acyclic(s, ie, mk)
    decls, cs, base, _ = graphs.real_program(builder)
    for name, act in patterns:
        fixed = {f"b{i}": (not act[i]) if negate else act[i] for i in range(m)}
        got = exprio.solve_prog(decls, cs, base, fixed) is not None
        want = graphs.edges_acyclic(n, edges, act)
        if got != want:
            return name, [edges[k] for k in range(m) if act[k]], got, want
    return None


def last_edge_patterns(n, edges):
    """[(name, flags)]: the shortest cycle through the LAST edge (if any: the path between its ends found by BFS without it, plus the
    edge), that cycle minus one edge, everything, everything but the last edge, every edge at vertex 0."""
    m = len(edges)
    out = [("all", [True] * m), ("all but the last edge", [k != m - 1 for k in range(m)]), ("edges at vertex 0", [0 in e for e in edges]),
           ("edges at vertex 0 and the last edge", [0 in e or k == m - 1 for k, e in enumerate(edges)])]
    a, b = edges[-1]
    prev, queue = {a: None}, [a]
    while queue and b not in prev:
        u = queue.pop(0)
        for k in range(m - 1):
            x, y = edges[k]
            for p, q in ((x, y), (y, x)):
                if p == u and q not in prev:
                    prev[q] = (u, k)
                    queue.append(q)
    if b in prev:
        cyc, v = {m - 1}, b
        while prev[v] is not None:
            cyc.add(prev[v][1])
            v = prev[v][0]
        out.insert(0, ("shortest cycle through the last edge", [k in cyc for k in range(m)]))
        out.insert(1, ("that cycle minus its first edge", [k in cyc and k != min(cyc) for k in range(m)]))
    return out


def search(ctx, why, budget=None):
    found = {}
    for (n, edges) in graphs.small_graphs(ctx.rng, budget or ctx.n(30, 60), 5):
        if len(edges) > 9 or any(a == b for a, b in edges):
            continue
        for negate in (False, True):
            if negate and len(edges) > 6:
                continue
            try:
                bad = _check(n, edges, negate)
            except Exception as e:
                bad = ("exception", core.err_name(e), str(e)[:200])
            ctx.count("search:acyclic")
            if bad and "x" not in found:
                found["x"] = Finding("acyclic:sat-mismatch",
                                     f"active_edges_acyclic on n={n} edges={edges} flags{'(negated)' if negate else ''}={bad[0]}: satisfiable={bad[1]} expected {bad[2]}"
                                     + graphs.history_note(n, edges),
                                     {"n": n, "edges": edges, "negate": negate, "pattern": bad[0], "got": bad[1], "want": bad[2]})
    # medium / LARGE graphs: cycles among the highest vertex ids (>= 257), maximal forests, forest + one edge
    for idx, (n, edges) in enumerate(graphs.big_graphs()):
        negate = idx % 3 == 2
        try:
            bad = _check_patterns(n, edges, negate, graphs.edge_patterns(n, edges))
        except Exception as e:
            bad = ("exception", None, core.err_name(e), str(e)[:200])
        ctx.count("search:acyclic:big")
        if bad and "big" not in found:
            found["big"] = Finding(
                "acyclic:large-graph",
                f"active_edges_acyclic on a graph with {n} vertices and {len(edges)} edges (edges {edges[:4]} ... {edges[-6:]}), active edges"
                f"{' (flags given negated)' if negate else ''} ({bad[0]}) = "
                f"{bad[1] if bad[1] is None or len(bad[1]) <= 14 else str(bad[1][:6]) + ' ... ' + str(bad[1][-6:])}: satisfiable={bad[2]} expected {bad[3]}" + graphs.history_note(n, edges),
                {"big": True, "n": n, "edges": edges, "negate": negate, "pattern_name": bad[0], "active_edges": bad[1]})
    # EVERY size of the medium range: the star whose hub has degree n - 1 and whose only cycle runs through the hub's LAST two incident
    # edges, and a path / cycle (per-vertex sums cut into blocks change branch at degrees nobody knows in advance)
    medium = []
    for n in range(graphs.MEDIUM_RANGE[0], graphs.MEDIUM_RANGE[1] + 1):
        medium.append(graphs.star_rim_graph(n))
        if n % 3 == 0:
            medium.append(graphs.cycle_graph(n) if n % 2 else graphs.path_graph(n))
    for idx, (n, edges) in enumerate(medium):
        if "medium" in found:
            break
        negate = idx % 5 == 4
        try:
            bad = _check_patterns(n, edges, negate, last_edge_patterns(n, edges)[:4])
        except Exception as e:
            bad = ("exception", None, core.err_name(e), str(e)[:200])
        ctx.count("search:acyclic:medium")
        if bad:
            found["medium"] = Finding(
                "acyclic:medium-graph",
                f"active_edges_acyclic on {graphs.instance_name(n, edges)} ({n} vertices, edges {edges[:3]} ... {edges[-3:]}), active edges"
                f"{' (flags given negated)' if negate else ''} ({bad[0]}) = "
                f"{bad[1] if bad[1] is None or len(bad[1]) <= 14 else str(bad[1][:6]) + ' ... ' + str(bad[1][-6:])}: satisfiable={bad[2]} expected {bad[3]}" + graphs.history_note(n, edges),
                {"big": True, "n": n, "edges": edges, "negate": negate, "pattern_name": bad[0], "active_edges": bad[1]})
    return list(found.values())


def replay(ctx, data):
    if data.get("big"):
        edges = [tuple(e) for e in data["edges"]]
        left, act = [tuple(e) for e in (data["active_edges"] or [])], []
        for e in edges:
            if e in left:
                left.remove(e)
                act.append(True)
            else:
                act.append(False)
        bad = _check_patterns(data["n"], edges, data.get("negate", False), [(data.get("pattern_name"), act)])
        return Finding("acyclic:replay", f"still fails: {bad}", data) if bad else None
    bad = _check(data["n"], [tuple(e) for e in data["edges"]], data.get("negate", False))
    return Finding("acyclic:replay", f"still fails: {bad}", data) if bad else None
