"""C11 — Bundled puzzle solvers agree with the puzzles' published rules."""
import importlib
import warnings

from . import core, exprio
from .core import Finding, sx
from . import puzzles

THEOREMS_BASE = ["Cspuz.C11.C11_compose"]


def _mods():
    return puzzles.load_all()


def theorems():
    t = list(THEOREMS_BASE)
    for m in _mods():
        t += list(getattr(m, "THEOREMS", []))
    return t


class _Lazy(list):
    def __iter__(self):
        return iter(theorems())

    def __len__(self):
        return len(theorems())


THEOREMS = _Lazy()


def capture_program(mod, problem):
    """Run the real solve_<name> with a recording Solver substituted in the puzzle module (no backend call)."""
    from cspuz import Solver
    pm = importlib.import_module("cspuz.puzzle." + mod.NAME)
    rec = {}

    class Rec(Solver):
        def solve(self, backend=None):
            rec["solver"] = self
            return False

        def find_answer(self, backend=None):
            rec["solver"] = self
            return False
    old = pm.Solver
    pm.Solver = Rec
    try:
        args, kwargs = mod.solve_args(problem)
        res = getattr(pm, "solve_" + mod.NAME)(*args, **kwargs)
    finally:
        pm.Solver = old
    s = rec["solver"]
    keys = [exprio.pexpr(k) for k in mod.keys(problem, res[1:])]
    marked = [exprio.pexpr(v) for v, k in zip(s.variables, s.is_answer_key) if k]
    return exprio.pprog(s), keys, marked


def real_solve(mod, problem):
    pm = importlib.import_module("cspuz.puzzle." + mod.NAME)
    args, kwargs = mod.solve_args(problem)
    with warnings.catch_warnings():
        warnings.simplefilter("ignore")
        res = core.with_timeout(60, getattr(pm, "solve_" + mod.NAME), *args, **kwargs)
    is_sat = res[0]
    ks = mod.keys(problem, res[1:])
    return bool(is_sat), [k.sol for k in ks]


def exact_by_rules(mod, problem):
    sols = None
    count = 0
    for ans in mod.answer_space(problem):
        if mod.rule_check(problem, ans):
            count += 1
            if sols is None:
                sols = list(ans)
            else:
                for i, v in enumerate(ans):
                    if sols[i] is not None and sols[i] != v:
                        sols[i] = None
    return count, sols


def differential(mod, problem):
    """None if the real solver agrees with the rules, else a description."""
    try:
        is_sat, got = real_solve(mod, problem)
    except core.RealTimeout:
        raise
    except Exception as e:
        return f"solve_{mod.NAME} raised {core.err_name(e)}: {str(e)[:120]}"
    count, want = exact_by_rules(mod, problem)
    if is_sat != (count > 0):
        return f"solve_{mod.NAME} reports {'a solution' if is_sat else 'no solution'} but {count} rule-obeying grids exist"
    if is_sat and got != want:
        bad = [i for i in range(len(want)) if got[i] != want[i]]
        return (f"solve_{mod.NAME}: decided cells differ from the cells on which all {count} rule-obeying grids agree at key "
                f"positions {bad[:6]} (solver {[got[i] for i in bad[:6]]}, rules {[want[i] for i in bad[:6]]})")
    return None


def correspond(ctx):
    ctx.extra["rule"] = ("per puzzle module: small random well-formed instances (non-square boards, edge clues, zero clues); (a) the "
                         "program posted by the real solve_<p> (recording Solver) vs the Lean model's program where a model exists; (b) real "
                         "solve_<p> through z3 vs exact facts by brute force over all answer grids with an independent rule checker; "
                         "distinct by (puzzle, problem)")
    drv = core.Driver()
    status = {}
    for mod in _mods():
        status[mod.NAME] = getattr(mod, "STATUS", "differential only")
        n_corr = ctx.n(12, 150)
        n_diff = ctx.n(6, 60)
        probs = [mod.gen_problem(ctx.rng, ctx.tier) for _ in range(max(n_corr, n_diff))]
        if getattr(mod, "LEAN_CMD", None):
            lines, reals = [], []
            for pb in probs[:n_corr]:
                try:
                    reals.append(("ok",) + capture_program(mod, pb))
                except Exception as e:
                    reals.append(("err", core.err_name(e)))
                lines.append(mod.lean_line(pb))
            outs = drv.run(lines)
            for pb, real, out in zip(probs, reals, outs):
                ctx.count(f"{mod.NAME}:program")
                ctx.case({"puzzle": mod.NAME, "problem": pb}, (mod.NAME, repr(pb)))
                t = core.parse_sx(out)
                if real[0] == "err":
                    if t != ["err", real[1]]:
                        ctx.disagree("program:" + mod.NAME, problem=pb, real=real[1], model=out[:500])
                    continue
                if not (isinstance(t, list) and t and t[0] == "res"):
                    ctx.disagree("program:" + mod.NAME, problem=pb, real=real[1][:500], model=out[:500])
                    continue
                rp = exprio.canon_prog(real[1])
                mp = exprio.canon_prog(sx(t[1]))
                if rp != mp or real[2] != t[2] or sorted(real[3]) != sorted(t[2]):
                    ctx.disagree("program:" + mod.NAME, problem=pb, real=rp[:1500], model=mp[:1500], real_keys=real[2][:10], model_keys=t[2][:10])
        for pb in probs[:n_diff]:
            ctx.count(f"{mod.NAME}:differential")
            ctx.case({"puzzle": mod.NAME, "problem": pb}, (mod.NAME, "d", repr(pb)))
            d = differential(mod, pb)
            if d:
                ctx.disagree("rules:" + mod.NAME, problem=pb, what=d)
    ctx.extra["per_puzzle_status"] = status


def search(ctx, why):
    found = {}
    for mod in _mods():
        for k in range(ctx.n(25, 200)):
            pb = mod.gen_problem(ctx.rng, ctx.tier)
            ctx.extra["last_case"] = {"puzzle": mod.NAME, "problem": pb}
            d = differential(mod, pb)
            if d:
                found[mod.NAME] = Finding("rules:" + mod.NAME + ":" + getattr(mod, "classify", lambda pb, d: "mismatch")(pb, d),
                                          d + f" -- problem {pb}", {"puzzle": mod.NAME, "problem": pb})
                break
    return list(found.values())


def replay(ctx, data):
    for mod in _mods():
        if mod.NAME == data.get("puzzle"):
            d = differential(mod, data["problem"])
            return Finding("rules:" + mod.NAME, d, data) if d else None
    return None
