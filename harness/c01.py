"""C01 — find_answer decides satisfiability and leaves a genuine model in .sol (z3 backend)."""
from . import core, exprio, dslgen
from .core import Finding, sx

THEOREMS = ["Cspuz.C01.C01_translation_faithful", "Cspuz.C01.C01_z3_backend_correct", "Cspuz.C01.C01_find_answer_exact", "Cspuz.C01.C01_session"]


def _classify(cs_text):
    t = " ".join(cs_text)
    if "bool_constant" in t or "int_constant" in t:
        return "constant-operator"
    if "(alldiff" in t:
        return "alldiff"
    return "other"


def _posts(s):
    """the `ensure` calls as made (form + printed items) when they cannot be reconstructed from the Solver alone"""
    p = getattr(s, "_verif_posts", None)
    return p if p is not None and sum(len(t) for _, t in p) != len(s.constraints) else None


def _one(rng, incremental=False, corner=None):
    """Build a session through the real DSL, solve with the real z3 backend, compare with brute force.
    Returns None or (kind, detail)."""
    from cspuz.expr import BoolVar
    s, bools, ints = dslgen.corner_session(corner) if corner is not None else dslgen.random_session(rng)
    steps = 1
    if incremental:
        steps = rng.randint(2, 3)
    for step in range(steps):
        if step > 0:
            # keep declaring / constraining between solves
            if rng.random() < 0.5:
                bools.append(s.bool_var())
            else:
                ints.append(s.int_var(rng.randint(-2, 0), rng.randint(0, 2)))
            g = dslgen.Gen(rng, s, bools, ints)
            dslgen.post(s, g, rng, 2)
        cs = [exprio.pexpr(c) for c in s.constraints]
        try:
            models = dslgen.brute_models(s)
        except exprio.IllTyped:
            return None
        except OverflowError:
            return None
        try:
            r = s.find_answer("z3")
        except Exception as e:
            return ("exception:" + _classify(cs), {"constraints": cs, "decls": [exprio.pdecl(v) for v in s.variables],
                                                  "exception": core.err_name(e), "step": step, "posts": _posts(s)})
        if r != (len(models) > 0):
            return ("verdict:" + _classify(cs), {"constraints": cs, "decls": [exprio.pdecl(v) for v in s.variables],
                                                "find_answer": r, "models": len(models), "step": step, "posts": _posts(s)})
        if r:
            asg = {(f"b{v.id}" if isinstance(v, BoolVar) else f"i{v.id}"): v.sol for v in s.variables}
            if asg not in models:
                return ("sol-not-a-model:" + _classify(cs), {"constraints": cs, "decls": [exprio.pdecl(v) for v in s.variables],
                                                           "sol": asg, "step": step, "posts": _posts(s)})
    return None


def _asg_text(s, asg):
    from cspuz.expr import BoolVar
    return [asg[f"b{v.id}"] if isinstance(v, BoolVar) else asg[f"i{v.id}"] for v in s.variables]


def _rand_asg(rng, s):
    from cspuz.expr import BoolVar
    a = {}
    for v in s.variables:
        if isinstance(v, BoolVar):
            a[f"b{v.id}"] = rng.random() < 0.5
        else:
            a[f"i{v.id}"] = rng.randint(v.lo - 1, v.hi + 1)
    return a


def _z3_value(term, zvars, s, asg):
    """Value of what the real _convert_expr returned, under asg (Python constant or z3 term)."""
    import z3
    from cspuz.expr import BoolVar
    if isinstance(term, bool):
        return term
    if isinstance(term, int):
        return term
    subst = []
    for v in s.variables:
        if isinstance(v, BoolVar):
            subst.append((zvars[v.id], z3.BoolVal(asg[f"b{v.id}"])))
        else:
            subst.append((zvars[v.id], z3.IntVal(asg[f"i{v.id}"])))
    r = z3.simplify(z3.substitute(term, *subst))
    if z3.is_true(r):
        return True
    if z3.is_false(r):
        return False
    return r.as_long()


def _correspond(ctx):
    import z3
    from cspuz.backend import z3 as zb
    from cspuz.expr import BoolVar
    ctx.extra["rule"] = ("random sessions built THROUGH THE REAL DSL (all operators, reflected forms, helper constructors with nested "
                         "lists, Python literals, empty / constant-only forms, depth<=3, <=3 bools and <=3 ints with small domains); "
                         "per constraint: the real _convert_expr result evaluated by z3 under random assignments vs the Lean model's "
                         "convertExpr/zeval vs the Lean reference semantics eval; per session: real find_answer('z3') verdict and sol vs "
                         "the Lean model count by enumeration; non-trivial = at least one operator node, distinct by program text.  MEDIUM sizes: "
                         "for EVERY operand count n = 30..260 two deterministic sessions (dslgen.medium_session: n variables, all but one "
                         "or two pinned by unit constraints, one constraint over all n through count_true ==/>=, a direct n-ary + of "
                         "cond terms, fold_or, fold_and or alldifferent; satisfiable with 1-2 known models or unsatisfiable by parity of "
                         "n): real verdict and sol vs the models known by construction (NOT vs a Lean enumeration: 2^n), and the n-ary "
                         "node itself through the real _convert_expr vs Lean zval/eval under one assignment")
    drv = core.Driver()
    nsess = ctx.n(500, 6000)
    lines, meta = [], []
    for k in range(nsess):
        try:
            s, bools, ints = dslgen.corner_session(k) if k < dslgen.N_CORNERS else dslgen.random_session(ctx.rng)
        except Exception as e:
            ctx.count("gen-error:" + core.err_name(e))
            continue
        decls = "(" + " ".join(exprio.pdecl(v) for v in s.variables) + ")"
        cs = [exprio.pexpr(c) for c in s.constraints]
        # (a) per-constraint translation semantics
        zb.Z3Backend(s.variables)  # makes sure cspuz.backend.z3.z3 is loaded
        be = zb.Z3Backend(s.variables)
        for c, ct in zip(s.constraints, cs):
            try:
                term = zb._convert_expr(c, be.variables_dict)
                terr = None
            except Exception as e:
                term, terr = None, core.err_name(e)
            for _ in range(2):
                asg = _rand_asg(ctx.rng, s)
                at = sx(_asg_text(s, asg))
                if terr is None:
                    try:
                        val = _z3_value(term, be.variables_dict, s, asg)
                        val = sx(val)
                    except Exception as e:
                        val = "(err " + core.err_name(e) + ")"
                else:
                    val = "(err " + terr + ")"
                try:
                    ref = exprio.ev(core.parse_sx(ct), asg)
                    ref = sx(ref)
                except exprio.IllTyped:
                    ref = "N"
                lines.append(f"(zval {decls} {ct} {at})")
                meta.append(("zval", ct, at, val))
                lines.append(f"(eval {decls} {ct} {at})")
                meta.append(("eval", ct, at, ref))
            lines.append(f"(convert {ct})")
            meta.append(("kind", ct, "", "py" if isinstance(term, (bool, int)) else ("z3" if terr is None else "err")))
        # (b) end to end
        try:
            r = s.find_answer("z3")
            sol = None
            if r:
                sol = {(f"b{v.id}" if isinstance(v, BoolVar) else f"i{v.id}"): v.sol for v in s.variables}
            out = ("ok", r, sol)
        except Exception as e:
            out = ("err", core.err_name(e), None)
        try:
            shadow = len(dslgen.brute_models(s))     # meaning of the construction steps themselves, independent of the DSL
        except Exception:
            shadow = None
        lines.append(f"(models {decls} " + " ".join(cs) + ")")
        meta.append(("models", cs, decls, out, s, shadow))
        ctx.case({"decls": decls, "constraints": cs[:3]}, " ".join(cs) if any("(" in c for c in cs) else None)
    _medium_stream(ctx, lines, meta)
    _session_stream(ctx, drv)
    outs = drv.run(lines)
    for m, out in zip(meta, outs):
        if m[0] in ("zval", "eval"):
            ctx.count(m[0])
            if out != m[3]:
                ctx.disagree("translation-semantics" if m[0] == "zval" else "reference-eval", constraint=m[1], assignment=m[2],
                             real=m[3], model=out)
        elif m[0] == "kind":
            t = core.parse_sx(out)
            k = t[0] if isinstance(t, list) else "?"
            ctx.count("convert:" + m[3])
            if k != m[3]:
                ctx.disagree("translation-kind", constraint=m[1], real=m[3], model=out[:200])
        else:
            t = core.parse_sx(out)
            cnt = int(t[0])
            res = m[3]
            if m[5] is not None and m[5] != cnt:
                ctx.disagree("dsl-construction", constraints=m[1], decls=m[2], models_by_construction_meaning=m[5], models_of_built_tree=cnt)
            ctx.count("find_answer:" + (str(res[1])))
            if res[0] == "err":
                ctx.disagree("find_answer-exception", constraints=m[1], decls=m[2], exception=res[1], lean_models=cnt)
            elif res[1] != (cnt > 0):
                ctx.disagree("find_answer-verdict", constraints=m[1], decls=m[2], real=res[1], lean_models=cnt)
            elif res[1]:
                s = m[4]
                asg = res[2]
                bad = [c for c in m[1] if exprio.ev(core.parse_sx(c), asg) is not True]
                from cspuz.expr import IntVar
                oob = [v.id for v in s.variables if isinstance(v, IntVar) and not (v.lo <= asg[f"i{v.id}"] <= v.hi)]
                if bad or oob:
                    ctx.disagree("find_answer-sol-not-model", constraints=m[1], decls=m[2], sol=asg, violated=bad, out_of_bounds=oob)


def _medium_plan(full):
    """(n, form, satisfiable) for the medium-size family: every operand count n in dslgen.MEDIUM_NS gets one of the three ADD
    forms (rotating with a period that is not aligned with n: (n + n // 6) % 3; satisfiable iff n is even) and one of fold_or /
    fold_and / alldifferent (rotating, satisfiable iff n is odd).  full=True: every form in both variants for every n."""
    F = dslgen.MEDIUM_FORMS
    plan = []
    for n in dslgen.MEDIUM_NS:
        if full:
            plan += [(n, f, sat) for f in F for sat in (True, False)]
            continue
        plan.append((n, F[(n + n // 6) % 3], n % 2 == 0))
        plan.append((n, F[3 + (n + n // 6 + 1) % 3], n % 2 == 1))
    return plan


def _medium_one(n, form, sat):
    """One medium session through the real find_answer('z3') against the models known by construction: None or (kind, detail)."""
    from cspuz.expr import BoolVar
    s, bools, ints = dslgen.medium_session(n, form, sat)
    models = s._verif_models
    detail = {"medium": [n, form, sat], "what": s._verif_text, "models": len(models)}
    try:
        r = s.find_answer("z3")
    except Exception as e:
        return ("exception:medium:" + form, dict(detail, exception=core.err_name(e)))
    if r != (len(models) > 0):
        return ("verdict:medium:" + form, dict(detail, find_answer=r))
    if r:
        asg = {(f"b{v.id}" if isinstance(v, BoolVar) else f"i{v.id}"): v.sol for v in s.variables}
        if asg not in models:
            diff = {k: v for k, v in asg.items() if v != models[0].get(k)}
            return ("sol-not-a-model:medium:" + form, dict(detail, sol_differs_from_first_model_at=diff))
    return None


def _medium_stream(ctx, lines, meta):
    """The medium-size family (dslgen.medium_session): real verdict and sol against the models known by construction (no Lean
    model count: 2^n assignments).  The n-ary node of each session also goes through the per-constraint translation check (real
    _convert_expr under z3 vs the Lean zval / eval): the ADD node itself (an integer: any change of value shows) under a random
    assignment; the OR / AND / ALLDIFF constraint under the first model (or the pinned values) or that with one position
    changed (one more true/false operand, one repeated value)."""
    from cspuz.backend import z3 as zb
    from cspuz.expr import BoolVar
    for n, form, sat in _medium_plan(not ctx.quick()):
        s, bools, ints = dslgen.medium_session(n, form, sat)
        models = s._verif_models
        text = s._verif_text
        ctx.case({"medium": text}, text)
        ctx.count("medium:" + form + (":sat" if sat else ":unsat"))
        names = [(f"b{v.id}" if isinstance(v, BoolVar) else f"i{v.id}") for v in s.variables]
        for m in models:
            if not all(sh(m) is True or sh(m) == True for sh in s._verif_sems):  # noqa: E712
                ctx.disagree("harness-medium-model", medium=text)
        c = s.constraints[s._verif_nary]
        if form in ("count_eq", "count_ge", "add_cond"):
            c = c.operands[0]
            asg = _rand_asg(ctx.rng, s)
            meant = sum(1 for k in names if asg[k])
        else:
            asg = dict(s._verif_point)
            if (n // 3) % 2:
                j = (3 * n) // 7
                asg[names[j]] = (not asg[names[j]]) if bools else asg[names[j + 1]]
            meant = s._verif_sems[s._verif_nary](asg)
        ct = exprio.pexpr(c)
        decls = "(" + " ".join(exprio.pdecl(v) for v in s.variables) + ")"
        be = zb.Z3Backend(s.variables)
        at = sx(_asg_text(s, asg))
        try:
            val = sx(_z3_value(zb._convert_expr(c, be.variables_dict), be.variables_dict, s, asg))
        except Exception as e:
            val = "(err " + core.err_name(e) + ")"
        try:
            ref = exprio.ev(core.parse_sx(ct), asg)
        except exprio.IllTyped:
            ref = "N"
        if type(ref) is not type(meant) or ref != meant:
            ctx.disagree("dsl-construction", medium=text, assignment=at[:300], meaning=meant, built_tree=ref)
        lines.append(f"(zval {decls} {ct} {at})")
        meta.append(("zval", text + " " + ct[:200], at[:400], val))
        lines.append(f"(eval {decls} {ct} {at})")
        meta.append(("eval", text + " " + ct[:200], at[:400], sx(ref)))
        try:
            r = s.find_answer("z3")
        except Exception as e:
            ctx.disagree("find_answer-exception", medium=text, exception=core.err_name(e), models_by_construction=len(models))
            continue
        ctx.count("find_answer:" + str(r))
        if r != (len(models) > 0):
            ctx.disagree("find_answer-verdict", medium=text, real=r, models_by_construction=len(models))
        elif r:
            sol = {k: v.sol for k, v in zip(names, s.variables)}
            if sol not in models:
                ctx.disagree("find_answer-sol-not-model", medium=text,
                             sol_differs_from_first_model_at={k: v for k, v in sol.items() if v != models[0][k]})


def _session_stream(ctx, drv):
    """The Solver state machine itself: random interleavings of declarations (scalars and arrays), nested ensure() with an
    occasional non-Boolean item, add_answer_key (duplicates, non-variables), find_answer.  Per-operation outcomes and the final
    (variables, is_answer_key, constraints) are compared with the Lean `SolverState.step` run on the same operations; the
    external solver's answers are fed to the model as recorded."""
    from cspuz import Solver
    from cspuz.expr import BoolVar
    rng = ctx.rng
    lines, reals = [], []
    for _ in range(ctx.n(150, 2000)):
        s = Solver()
        s._verif_sems = []
        ops, outs = [], []
        bools, ints = [], []
        for step in range(rng.randint(2, 9)):
            r = rng.random()
            if r < 0.2 or not (bools or ints):
                if rng.random() < 0.5:
                    v = s.bool_var()
                    bools.append(v)
                    ops.append(["bv"])
                    outs.append(["var", v.id])
                else:
                    lo = rng.randint(-2, 1)
                    hi = lo + rng.randint(0, 2)
                    v = s.int_var(lo, hi)
                    ints.append(v)
                    ops.append(["iv", lo, hi])
                    outs.append(["var", v.id])
            elif r < 0.3:
                n = rng.randint(0, 3)
                if rng.random() < 0.5:
                    a = s.bool_array(n) if rng.random() < 0.5 else s.bool_array((1, n))
                    bools += list(a)
                    for v in a:
                        ops.append(["bv"])
                        outs.append(["var", v.id])
                else:
                    a = s.int_array(n, 0, 1)
                    ints += list(a)
                    for v in a:
                        ops.append(["iv", 0, 1])
                        outs.append(["var", v.id])
            elif r < 0.6:
                g = dslgen.Gen(rng, s, bools, ints)
                items = [g.bool_expr(rng.randint(0, 2))[0] for _ in range(rng.randint(0, 3))]
                if rng.random() < 0.15:
                    items.insert(rng.randint(0, len(items)), rng.choice([3, None]) if rng.random() < 0.6 or not ints else rng.choice(ints))
                nest = items
                if len(items) >= 2 and rng.random() < 0.4:
                    nest = [items[0], items[1:]]

                def pn(x):
                    return ["l"] + [pn(y) for y in x] if isinstance(x, list) else exprio.pexpr(x)
                try:
                    # any kind of iterable must behave like the list (one-shot iterables included)
                    arg = nest if rng.random() < 0.6 else ((x for x in nest) if rng.random() < 0.5 else iter(tuple(nest)))
                    s.ensure(arg)
                    out = "ok"
                except Exception as e:
                    out = ["err", core.err_name(e)]
                ops.append(["ens", pn(nest)])
                outs.append(out)
            elif r < 0.8:
                pool = bools + ints
                ks = [rng.choice(pool) for _ in range(rng.randint(0, 2))]
                if rng.random() < 0.1:
                    ks.append(rng.choice([True, 5]) if rng.random() < 0.5 or not bools else ~rng.choice(bools))
                try:
                    s.add_answer_key(ks)
                    out = "ok"
                except Exception as e:
                    out = ["err", core.err_name(e)]
                ops.append(["key", ["l"] + [exprio.pexpr(k) for k in ks]])
                outs.append(out)
            else:
                try:
                    res = s.find_answer("z3")
                    sol = [v.sol for v in s.variables]
                    ans = "N" if not res else [("T" if x else "F") if isinstance(x, bool) else x for x in sol]
                    ops.append(["find", ans])
                    outs.append([res, ["N" if x is None else x for x in sol]])
                except Exception as e:
                    ops.append(["find", "N"])
                    outs.append([["err", core.err_name(e)], []])
        final = [outs, [exprio.pdecl(v) for v in s.variables], list(s.is_answer_key), [exprio.pexpr(c) for c in s.constraints]]
        lines.append(sx(["session"] + ops))
        reals.append(final)
    res = drv.run(lines)
    for line, real, out in zip(lines, reals, res):
        ctx.count("session")
        ctx.case({"session": line[:300]}, line)
        want = core.parse_sx(sx(real))
        got = core.parse_sx(out)
        if want != got:
            # the z3 backend leaves sol untouched on UNSAT / the model resets nothing either: compare as printed
            ctx.disagree("session-state-machine", session=line[:1500], real=sx(real)[:1500], model=out[:1500])


def search(ctx, why):
    found = {}
    for n, form, sat in _medium_plan(not ctx.quick()):
        try:
            bad = _medium_one(n, form, sat)
        except Exception as e:
            bad = ("harness-exception", {"exception": repr(e), "medium": [n, form, sat]})
        ctx.count("search:medium-sessions")
        if bad and bad[0] not in found:
            kind, d = bad
            found[kind] = Finding("find_answer:" + kind, f"find_answer('z3') {kind}: {d}", d)
    for k in range(ctx.n(1500, 6000)):
        try:
            bad = _one(ctx.rng, incremental=(k % 3 == 0), corner=(k if k < dslgen.N_CORNERS else None))
        except Exception as e:
            bad = ("harness-exception", {"exception": repr(e)})
        ctx.count("search:sessions")
        if bad and bad[0] not in found:
            kind, d = bad
            found[kind] = Finding("find_answer:" + kind, f"find_answer('z3') {kind}: {d}", d)
    return list(found.values())


def replay(ctx, data):
    from cspuz.expr import BoolVar
    if data.get("medium"):
        bad = _medium_one(*data["medium"])
        return Finding("find_answer:replay", f"{bad[0]}: {bad[1]}", data) if bad else None
    s = exprio.build_session(data["decls"], data["constraints"], posts=data.get("posts"))
    if data.get("posts"):
        meant = exprio.build_session(data["decls"], [t for _, ts in data["posts"] for t in ts])
        models = dslgen.brute_models(meant)
    else:
        models = dslgen.brute_models(s)
    try:
        r = s.find_answer("z3")
    except Exception as e:
        return Finding("find_answer:replay", f"raised {core.err_name(e)}", data)
    if r != (len(models) > 0):
        return Finding("find_answer:replay", f"returned {r} with {len(models)} models", data)
    if r:
        asg = {(f"b{v.id}" if isinstance(v, BoolVar) else f"i{v.id}"): v.sol for v in s.variables}
        if asg not in models:
            return Finding("find_answer:replay", f"sol {asg} is not a model", data)
    return None


def correspond(ctx):
    try:
        _correspond(ctx)
    finally:
        dslgen.take_decl_failures(ctx, "C01")
