"""C01 — find_answer decides satisfiability and leaves a genuine model in .sol (z3 backend)."""
from . import core, exprio, dslgen
from .core import Finding, sx

THEOREMS = []


def _classify(cs_text):
    t = " ".join(cs_text)
    if "bool_constant" in t or "int_constant" in t:
        return "constant-operator"
    if "(alldiff" in t:
        return "alldiff"
    return "other"


def _one(rng, incremental=False):
    """Build a session through the real DSL, solve with the real z3 backend, compare with brute force.
    Returns None or (kind, detail)."""
    from cspuz.expr import BoolVar
    s, bools, ints = dslgen.random_session(rng)
    steps = 1
    if incremental:
        steps = rng.randint(2, 3)
    for step in range(steps):
        if step > 0:
            # keep declaring / constraining between solves
            if rng.random() < 0.5:
                bools.append(s.bool_var())
            else:
                ints.append(s.int_var(rng.randint(-2, 0), rng.randint(0, 2)))
            g = dslgen.Gen(rng, s, bools, ints)
            s.ensure(g.bool_expr(rng.randint(0, 2)))
        cs = [exprio.pexpr(c) for c in s.constraints]
        try:
            models = dslgen.brute_models(s)
        except exprio.IllTyped:
            return None
        except OverflowError:
            return None
        try:
            r = s.find_answer("z3")
        except Exception as e:
            return ("exception:" + _classify(cs), {"constraints": cs, "decls": [exprio.pdecl(v) for v in s.variables],
                                                  "exception": core.err_name(e), "step": step})
        if r != (len(models) > 0):
            return ("verdict:" + _classify(cs), {"constraints": cs, "decls": [exprio.pdecl(v) for v in s.variables],
                                                "find_answer": r, "models": len(models), "step": step})
        if r:
            asg = {(f"b{v.id}" if isinstance(v, BoolVar) else f"i{v.id}"): v.sol for v in s.variables}
            if asg not in models:
                return ("sol-not-a-model:" + _classify(cs), {"constraints": cs, "decls": [exprio.pdecl(v) for v in s.variables],
                                                           "sol": asg, "step": step})
    return None


def correspond(ctx):
    ctx.extra["rule"] = "see DESIGN.md C01"


def search(ctx, why):
    found = {}
    for k in range(ctx.n(1500, 6000)):
        try:
            bad = _one(ctx.rng, incremental=(k % 3 == 0))
        except Exception as e:
            bad = ("harness-exception", {"exception": repr(e)})
        ctx.count("search:sessions")
        if bad and bad[0] not in found:
            kind, d = bad
            found[kind] = Finding("find_answer:" + kind, f"find_answer('z3') {kind}: {d}", d)
    return list(found.values())


def replay(ctx, data):
    return None
