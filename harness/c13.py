"""C13 — Array indexing and slicing follow Python nested-list semantics."""
from . import core
from .core import Finding, sx

THEOREMS = ["Cspuz.C13.C13_getitem", "Cspuz.C13.C13_reshape", "Cspuz.C13.C13_nested", "Cspuz.C13.C13_nested_getitem"]


def _arrays(h, w, nested=False):
    """The h x w array whose element (y, x) is variable y*w+x, built from the flat row-major buffer + shape, or (nested)
    from the equivalent Python list of lists / tuple of generators with the shape inferred (needs h >= 1)."""
    from cspuz.array import BoolArray2D, IntArray2D
    from cspuz.expr import BoolVar, IntVar
    if nested:
        return (BoolArray2D([[BoolVar(y * w + x) for x in range(w)] for y in range(h)]),
                IntArray2D(tuple(iter([IntVar(y * w + x, 0, 1) for x in range(w)]) for y in range(h))))
    return (BoolArray2D([BoolVar(i) for i in range(h * w)], (h, w)),
            IntArray2D([IntVar(i, 0, 1) for i in range(h * w)], (h, w)))


def _canon(res):
    from cspuz.array import Array1D, Array2D
    if isinstance(res, Array2D):
        return ["arr2", res.shape[0], res.shape[1]] + [e.id for e in res.data]
    if isinstance(res, Array1D):
        return ["arr1"] + [e.id for e in res.data]
    return ["scalar", res.id]


def _fresh(v):
    """The index value handed to the real code.  Python `bool`s stay bools (a bool IS an int: rows[True][False] is ordinary list
    indexing); an int is re-made from its decimal text, so that outside CPython's small-int cache (-5..256) it is a NEW object -
    equal to, but never identical with, a shape entry, a literal or an earlier index (what arithmetic / parsing give a caller)."""
    if type(v) is int:
        return int(str(v))
    return v


def _pykey(k):
    if k[0] == "i":
        return _fresh(k[1])
    return slice(_fresh(k[1]), _fresh(k[2]), _fresh(k[3]))


def _pykey2(key):
    if key[0] == "one":
        return _pykey(key[1])
    if key[0] == "pair":
        return (_pykey(key[1]), _pykey(key[2]))
    return [tuple(_fresh(c) for c in p) for p in key[1:]]


def _w(x):
    """Wire form for the Lean model: its indices are integers, and Python's `bool` is a subclass of `int` (True == 1, False == 0),
    so a bool index / slice component / coordinate is sent as 1 / 0.  (The plain-Python oracles get the bools themselves.)"""
    if isinstance(x, bool):
        return int(x)
    if isinstance(x, (list, tuple)):
        return [_w(e) for e in x]
    return x


def real2(arr, key):
    return _real_obj(arr, _pykey2(key))


def _real_obj(arr, pykey):
    """arr[pykey] for the Python key OBJECT given (not rebuilt: a caller's list stays the caller's list)."""
    before = (id(arr.data), tuple(id(e) for e in arr.data), tuple(arr.shape))
    try:
        out = _canon(arr[pykey])
    except Exception as e:
        out = ["err", core.err_name(e)]
    if (id(arr.data), tuple(id(e) for e in arr.data), tuple(arr.shape)) != before:
        return ["err", "SourceArrayMutated"]      # indexing must leave the indexed array alone
    return out


# ---------------------------------------------------------------------------------------------
# object histories: several lookups on ONE array object, and ONE coordinate-list object that the caller mutates in place between
# lookups.  A lookup is a function of the array's contents and the key's CURRENT contents - never of an earlier lookup.
# A scenario is (shapes, steps); the arrays of `shapes` are built once, then the steps run in order:
#   ("k", a, key)     arrays[a][key]  with a freshly built Python key (wire form as everywhere in this file)
#   ("L", a)          arrays[a][cells] with THE shared list object `cells`
#   ("new", pairs) ("app", pair) ("ext", pairs) ("del", i) ("set", i, pair) ("clear",)   rebind / mutate `cells` in place
HISTORY_SHAPES = [(1, 1), (2, 3), (3, 3), (3, 4), (5, 2), (1, 300)]
FAMILIES = ("bool-flat", "int-flat", "bool-nested", "int-nested")


def _history_scenarios():
    full = ("s", None, None, None)
    out = []
    for (h, w) in HISTORY_SHAPES:
        # one key list growing, getting an out-of-range pair, shrinking, being overwritten, emptied, refilled
        out.append(("mutated-key-list", [(h, w)], [
            ("new", ((0, 0), (h - 1, w - 1))), ("L", 0), ("app", (-1, 0)), ("L", 0), ("L", 0), ("app", (h, 0)), ("L", 0),
            ("del", -1), ("L", 0), ("set", 0, (0, w - 1)), ("L", 0), ("del", 0), ("L", 0), ("clear",), ("L", 0),
            ("ext", ((h - 1, 0), (0, 0), (-h, -w))), ("L", 0), ("app", (0, w)), ("L", 0), ("set", -1, (0, -w)), ("L", 0),
            ("set", 1, (True, False)), ("L", 0), ("del", 1), ("L", 0), ("clear",), ("app", (-h - 1, 0)), ("L", 0), ("set", 0, (-h, 0)),
            ("L", 0)]))
        # the first lookup with the list fails, the list is repaired in place
        out.append(("key-list-repaired", [(h, w)], [
            ("new", ((0, 0), (0, w))), ("L", 0), ("set", 1, (0, w - 1)), ("L", 0), ("app", (h - 1, 0)), ("L", 0)]))
        # different keys, one after the other, on one array object; identical lookups repeated; equal-but-different keys
        out.append(("interleaved-keys", [(h, w)], [
            ("k", 0, ("one", ("i", 0))), ("k", 0, ("one", ("s", None, None, -1))), ("k", 0, ("pair", ("i", 0), ("i", w - 1))),
            ("k", 0, ("pair", full, ("i", 0))), ("k", 0, ("coords", (0, 0))), ("k", 0, ("one", ("i", 0))), ("k", 0, ("one", ("i", -1))),
            ("k", 0, ("pair", ("i", 0), ("i", 0))), ("k", 0, ("pair", ("i", 0), ("i", 0))), ("k", 0, ("one", ("i", True))),
            ("k", 0, ("one", ("i", 1))), ("k", 0, ("one", ("i", False))), ("k", 0, ("one", ("i", 0))),
            ("k", 0, ("pair", ("i", False), ("i", False))), ("k", 0, ("pair", ("i", 0), ("i", 0))), ("k", 0, ("one", ("i", h))),
            ("k", 0, ("one", ("i", 0))), ("k", 0, ("coords", (0, 0), (h - 1, w - 1))), ("k", 0, ("coords", (0, 0), (h - 1, w - 1))),
            ("k", 0, ("coords", (0, 0))), ("k", 0, ("coords",)), ("k", 0, ("one", full)), ("k", 0, ("pair", full, full)),
            ("k", 0, ("one", ("s", 0, None, None))), ("k", 0, ("one", full)), ("k", 0, ("pair", ("s", None, None, -1), full)),
            ("k", 0, ("pair", full, ("s", None, None, -1))), ("k", 0, ("pair", ("i", -1), ("i", -1))), ("k", 0, ("coords", (-1, -1))),
            ("k", 0, ("pair", ("i", h - 1), ("i", w - 1))), ("k", 0, ("one", ("i", h - 1))), ("k", 0, ("one", ("i", -h))),
            ("k", 0, ("one", ("i", -h - 1))), ("k", 0, ("one", ("i", -h)))]))
        # one key list used on two arrays of different shapes in turn, mutated in between
        out.append(("key-list-two-arrays", [(h, w), (h + 1, w + 2)], [
            ("new", ((0, 0), (h - 1, w - 1))), ("L", 0), ("L", 1), ("app", (-1, -1)), ("L", 1), ("L", 0), ("app", (h, w + 1)), ("L", 0),
            ("L", 1), ("k", 0, ("pair", ("i", -1), full)), ("k", 1, ("pair", ("i", -1), full)), ("set", 0, (h - 1, 0)), ("L", 1),
            ("L", 0), ("del", 2), ("L", 0), ("L", 1)]))
    return out


def _history_arrays(shapes, family):
    return [_arrays(h, w, nested=family.endswith("nested"))[0 if family.startswith("bool") else 1] for (h, w) in shapes]


def _run_history(shapes, steps, family):
    """-> [(step index, array index, the key in wire form as it stands at that moment, real result)] for every lookup step."""
    arrs = _history_arrays(shapes, family)
    cells = []
    obs = []

    def pair(p):
        return tuple(_fresh(c) for c in p)
    for i, st in enumerate(steps):
        op = st[0]
        if op == "k":
            obs.append((i, st[1], st[2], real2(arrs[st[1]], st[2])))
        elif op == "L":
            key = ("coords",) + tuple(cells)
            obs.append((i, st[1], key, _real_obj(arrs[st[1]], cells)))
            if ("coords",) + tuple(cells) != key:
                obs[-1] = (i, st[1], key, ["err", "KeyListMutated"])     # a lookup must leave the caller's key alone
        elif op == "new":
            cells = [pair(p) for p in st[1]]
        elif op == "app":
            cells.append(pair(st[1]))
        elif op == "ext":
            cells.extend(pair(p) for p in st[1])
        elif op == "del":
            del cells[st[1]]
        elif op == "set":
            cells[st[1]] = pair(st[2])
        elif op == "clear":
            cells.clear()
        else:
            raise ValueError(op)
    return obs


def _history_fail(shapes, steps, families=FAMILIES):
    """First lookup of the scenario whose result differs from what the list of lists gives for the key's contents at that moment."""
    for family in families:
        for (i, a, key, r) in _run_history(shapes, steps, family):
            h, w = shapes[a]
            o = oracle2(h, w, key)
            if r != o:
                return {"shapes": [list(s) for s in shapes], "steps": list(steps[:i + 1]), "family": family, "shape": [h, w], "key": key,
                        "real": r, "expected": o}
    return None


def _history_finding(label, f):
    return Finding("getitem:history",
                   f"{f['family']} arrays of shapes {f['shapes']}: after the steps {sx(f['steps'][:-1])[:400]} (k = lookup with a new key, "
                   f"L = lookup with the caller's one list object, new/app/ext/del/set/clear = that list rebound / mutated in place) the "
                   f"lookup {sx(f['steps'][-1])} with key {sx(f['key'])[:200]} on the {f['shape'][0]}x{f['shape'][1]} array returns "
                   f"{sx(f['real'])[:200]} but the list of lists gives {sx(f['expected'])[:200]} ({label})",
                   {"history": {"shapes": f["shapes"], "steps": f["steps"], "family": f["family"]}, "real": f["real"],
                    "expected": f["expected"]})


def real1(n, k, boolean=True):
    from cspuz.array import BoolArray1D, IntArray1D
    from cspuz.expr import BoolVar, IntVar
    a = BoolArray1D([BoolVar(i) for i in range(n)]) if boolean else IntArray1D([IntVar(i, 0, 1) for i in range(n)])
    try:
        return _canon(a[_pykey(k)])
    except Exception as e:
        return ["err", core.err_name(e)]


def oracle2(h, w, key):
    """Per-axis Python list semantics on the equivalent list of lists (independent of cspuz)."""
    rows = [[y * w + x for x in range(w)] for y in range(h)]

    def axis(n, k):
        r = list(range(n))[_pykey(k)]
        return (True, [r]) if k[0] == "i" else (False, r)

    try:
        if key[0] == "coords":
            out = []
            for y, x in key[1:]:
                (_, [yy]) = axis(h, ("i", y))
                (_, [xx]) = axis(w, ("i", x))
                out.append(rows[yy][xx])
            return ["arr1"] + out
        ky = key[1]
        kx = key[2] if key[0] == "pair" else ("s", None, None, None)
        yf, ys = axis(h, ky)
        xf, xs = axis(w, kx)
        els = [rows[y][x] for y in ys for x in xs]
        if yf and xf:
            return ["scalar", els[0]]
        if not (yf or xf):
            return ["arr2", len(ys), len(xs)] + els
        return ["arr1"] + els
    except Exception as e:
        return ["err", core.err_name(e)]


def oracle1(n, k):
    try:
        r = list(range(n))[_pykey(k)]
        return ["scalar", r] if k[0] == "i" else ["arr1"] + r
    except Exception as e:
        return ["err", core.err_name(e)]


NESTED_FORMS = ("list", "tuple", "iter")


def _wrap(seq, form):
    seq = list(seq)
    return seq if form == "list" else tuple(seq) if form == "tuple" else iter(seq)


def real_nested(rows, form="list", boolean=True):
    """Array2D(rows) with the shape inferred, on the REAL classes: rows of BoolVar / IntVar carrying the given ids, the rows and
    the outer sequence being lists, tuples or one-shot iterators.  -> ["ok", h, w, id...] or ["err", ExceptionClass]."""
    from cspuz.array import BoolArray2D, IntArray2D
    from cspuz.expr import BoolVar, IntVar
    mk = (lambda i: BoolVar(i)) if boolean else (lambda i: IntVar(i, 0, 1))
    data = _wrap([_wrap([mk(i) for i in r], form) for r in rows], form)
    try:
        a = (BoolArray2D if boolean else IntArray2D)(data)
        return ["ok"] + list(a.shape) + [e.id for e in a.data]
    except Exception as e:
        return ["err", core.err_name(e)]


def oracle_nested(rows):
    """The property's reading, plain Python: the array equivalent to the list of lists `rows` has shape (len(rows), len(rows[0]))
    and row-major data; no rows / rows of different lengths cannot be an array (ValueError)."""
    if len(rows) == 0 or any(len(r) != len(rows[0]) for r in rows):
        return ["err", "ValueError"]
    return ["ok", len(rows), len(rows[0])] + [e for r in rows for e in r]


def _nested_cases(rng, maxh=4, maxw=4, ids="random"):
    """(label, nested list of ids): every shape 1x0 .. maxh x maxw, the empty list, a single empty row, and for every shape the
    jagged variants with one short / one long row at every row position (the first row included)."""
    cases = [("empty", []), ("rect", [[]])]
    for h in range(1, maxh + 1):
        for w in range(0, maxw + 1):
            if ids == "random":
                pool = rng.sample(range(0, 1000), h * w + 1)
            else:
                pool = list(range(h * w + 1))
            rows = [pool[y * w:(y + 1) * w] for y in range(h)]
            if (h, w) != (1, 0):
                cases.append(("rect", rows))
            if h >= 2:
                for y in range(h):
                    if w >= 1:
                        cases.append(("jagged-short", [r[:-1] if i == y else list(r) for i, r in enumerate(rows)]))
                    cases.append(("jagged-long", [list(r) + [pool[h * w]] if i == y else list(r) for i, r in enumerate(rows)]))
    return cases


BOOL_SLICES = [("s", True, None, None), ("s", None, True, None), ("s", None, None, True), ("s", False, True, True),
               ("s", True, False, -1), ("s", None, None, False), ("s", False, None, 2), ("s", -1, False, True)]


def _axis_keys(bound, steps):
    """Every int index in [-bound, bound], the two bools (ints of an unusual kind: True == 1, False == 0), every slice with bounds
    in [-bound-1, bound+1] or None and the given steps, and a few slices with bool components."""
    ks = [("i", i) for i in range(-bound, bound + 1)] + [("i", True), ("i", False)]
    opts = [None] + list(range(-bound - 1, bound + 2))
    for a in opts:
        for b in opts:
            for c in steps:
                ks.append(("s", a, b, c))
    return ks + BOOL_SLICES


def _bool_cases():
    """(h, w, key): bools as integer indices in every key position (single key, both pair components, next to ints and slices,
    coordinate pairs) on every shape 0x0 .. 3x3."""
    B = (True, False)
    full = ("s", None, None, None)
    cases = []
    for h in range(0, 4):
        for w in range(0, 4):
            for b in B:
                cases.append((h, w, ("one", ("i", b))))
                cases.append((h, w, ("pair", ("i", b), full)))
                cases.append((h, w, ("pair", full, ("i", b))))
                cases.append((h, w, ("pair", ("i", b), ("s", None, None, -1))))
                cases.append((h, w, ("pair", ("s", True, None, None), ("i", b))))
                cases.append((h, w, ("coords", (b, b))))
                for c in B:
                    cases.append((h, w, ("pair", ("i", b), ("i", c))))
                for i in range(-w - 1, w + 1):
                    cases.append((h, w, ("pair", ("i", b), ("i", i))))
                    cases.append((h, w, ("coords", (b, i))))
                for i in range(-h - 1, h + 1):
                    cases.append((h, w, ("pair", ("i", i), ("i", b))))
                    cases.append((h, w, ("coords", (i, b))))
            cases.append((h, w, ("coords", (True, False), (False, True), (0, 0))))
            cases.append((h, w, ("coords", (h - 1, True), (True, False), (False, -1))))
    return cases


LONG = 300


def _long_cases():
    """(h, w, key) on the long thin arrays 1 x 300 and 300 x 1: indices, slice bounds and coordinates at and beyond +-257 (outside
    CPython's small-int cache: equal ints are distinct objects there; `_pykey` makes every one a fresh object), around the length
    and its negative."""
    n = LONG
    full = ("s", None, None, None)
    idx = [255, 256, 257, 258, n - 2, n - 1, n, n + 1, -255, -256, -257, -258, -(n - 1), -n, -n - 1]
    sl = [("s", 257, None, None), ("s", None, 257, None), ("s", 256, 259, None), ("s", -258, -256, None), ("s", None, -257, None),
          ("s", n - 1, 255, -1), ("s", n, None, -257), ("s", 1, None, 257), ("s", 257, 257, None), ("s", -n - 1, -n + 1, None),
          ("s", 258, 256, True), ("s", None, None, 299)]
    cases = []
    for (h, w) in ((1, n), (n, 1)):
        long_first = h == n
        for i in idx:
            k = ("i", i)
            if long_first:
                cases += [(h, w, ("one", k)), (h, w, ("pair", k, ("i", 0))), (h, w, ("pair", k, full)), (h, w, ("pair", k, ("i", False))),
                          (h, w, ("coords", (i, 0))), (h, w, ("coords", (i, -1), (0, 0), (i, False)))]
            else:
                cases += [(h, w, ("pair", ("i", 0), k)), (h, w, ("pair", full, k)), (h, w, ("pair", ("i", -1), k)),
                          (h, w, ("pair", ("i", False), k)), (h, w, ("coords", (0, i))), (h, w, ("coords", (-1, i), (0, 0), (False, i)))]
        for k in sl:
            if long_first:
                cases += [(h, w, ("one", k)), (h, w, ("pair", k, ("i", 0))), (h, w, ("pair", k, full))]
            else:
                cases += [(h, w, ("pair", full, k)), (h, w, ("pair", ("i", 0), k)), (h, w, ("pair", ("s", None, None, -1), k))]
        # the same index twice in one key (two equal ints, two objects), and the last element addressed both ways
        cases.append((h, w, ("coords", (h - 1, w - 1), (-1, -1), (h - 1, w - 1))))
    return cases


def _long_cases_1d():
    n = LONG
    ks = [("i", i) for i in (256, 257, 258, n - 1, n, -257, -258, -n, -n - 1)]
    ks += [("s", 257, None, None), ("s", None, -257, None), ("s", n - 1, 255, -1), ("s", 1, None, 257), ("s", 258, 256, True)]
    return [(n, k) for k in ks]


def _cases(ctx):
    rng = ctx.rng
    maxdim = ctx.n(4, 6)
    bound = ctx.n(5, 8)
    steps = [None] + list(range(-ctx.n(3, 4), ctx.n(3, 4) + 1))
    keys = _axis_keys(bound, steps)
    full = ("s", None, None, None)
    cases = []
    # exhaustive single-axis sweep (both axes) on every small shape
    for h in range(0, maxdim + 1):
        for w in range(0, maxdim + 1):
            for k in keys:
                cases.append((h, w, ("one", k)))
                cases.append((h, w, ("pair", full, k)))
                if k[0] == "s" and rng.random() < 0.1:
                    cases.append((h, w, ("pair", k, ("i", rng.randint(-w - 1, w)))))
    # random pairs
    for _ in range(ctx.n(30000, 400000)):
        h = rng.randint(0, maxdim)
        w = rng.randint(0, maxdim)
        cases.append((h, w, ("pair", rng.choice(keys), rng.choice(keys))))
    # large bounds / large arrays
    for _ in range(ctx.n(2000, 20000)):
        h = rng.randint(1, 12)
        w = rng.randint(1, 12)

        def big():
            r = rng.random()
            if r < 0.3:
                return ("i", rng.randint(-15, 15))
            return ("s", rng.choice([None, rng.randint(-40, 40)]), rng.choice([None, rng.randint(-40, 40)]),
                    rng.choice([None, rng.randint(-13, 13)]))
        cases.append((h, w, ("pair", big(), big())))
    # coordinate lists
    for _ in range(ctx.n(2000, 20000)):
        h = rng.randint(0, maxdim)
        w = rng.randint(0, maxdim)
        n = rng.randint(0, 4)
        cases.append((h, w, ("coords",) + tuple((rng.randint(-h - 1, h), rng.randint(-w - 1, w)) for _ in range(n))))
    # coordinate lists in which some components are bools
    for _ in range(ctx.n(1000, 10000)):
        h = rng.randint(0, maxdim)
        w = rng.randint(0, maxdim)

        def comp(d):
            return rng.choice([True, False]) if rng.random() < 0.4 else rng.randint(-d - 1, d)
        cases.append((h, w, ("coords",) + tuple((comp(h), comp(w)) for _ in range(rng.randint(1, 4)))))
    # deterministic corners: bools in every key position; indices beyond +-257 on long thin arrays
    return _bool_cases() + _long_cases() + cases


def correspond(ctx):
    ctx.extra["rule"] = ("exhaustive sweep of every per-axis key (ints and slices with bounds in [-b-1,b+1] or None, steps in "
                         "[-s,s] or None, the two bools as indices, slices with bool components) on every shape up to d x d, plus random key pairs, "
                         "large bounds, coordinate lists (ints and bools); bools in every key position on 0x0..3x3; indices, slice bounds and "
                         "coordinates at and beyond +-257 on 1x300 / 300x1 / length-300 arrays; every int handed to the real code is a fresh "
                         "object; bools go to the Lean model as 1/0; "
                         "real Array2D/Array1D __getitem__ vs Lean model vs Lean spec vs CPython list-of-lists oracle; "
                         "a case is non-trivial+distinct by (shape, key) when the selection is non-empty or an error; "
                         "object histories (deterministic, shapes " + str(HISTORY_SHAPES) + ", Bool/Int, flat/nested): one coordinate-list object "
                         "looked up, mutated in place (append, out-of-range append, del, item assignment, clear, extend) and looked up again "
                         "on the same array and on two arrays in turn; repeated identical lookups; int / bool / slice / pair / list keys "
                         "interleaved on one array object - each lookup vs the model and the list of lists for the key's current contents; "
                         "nested-list constructor: every shape 1x0..4x4 with random distinct ids, the empty list, one short / one long row at "
                         "every position, random rectangular/jagged lists; rows as lists, tuples, iterators; Bool and Int classes; real "
                         "(shape, ids) or exception class vs the model's ofNested (distinct by the nested list)")
    cases = _cases(ctx)
    drv = core.Driver()
    lines = []
    for (h, w, key) in cases:
        lines.append(sx(["gi2", h, w, _w(key)]))
        lines.append(sx(["spec2", h, w, _w(key)]))
    outs = drv.run(lines)
    arrs = {}
    for idx, (h, w, key) in enumerate(cases):
        if (h, w) not in arrs:
            arrs[(h, w)] = _arrays(h, w)
        ba, ia = arrs[(h, w)]
        r = real2(ba, key)
        r2 = real2(ia, key)
        o = oracle2(h, w, key)
        m = core.parse_sx(outs[2 * idx])
        s = core.parse_sx(outs[2 * idx + 1])
        rs = [str(x) for x in r]
        os_ = [str(x) for x in o]
        kind = r[0] if r[0] != "err" else "err:" + r[1]
        ctx.count("result:" + kind)
        ctx.count("key:" + key[0])
        nontrivial = (r[0] == "err") or len(r) > (3 if r[0] == "arr2" else 1)
        ctx.case({"shape": [h, w], "key": sx(key), "real": sx(r)}, (h, w, sx(key)) if nontrivial else None)
        if r != r2:
            ctx.disagree("bool-vs-int-array", shape=[h, w], key=sx(key), bool=sx(r), int=sx(r2))
        if h >= 1:
            # the same array built from the equivalent list of lists (shape inferred) must behave identically
            if ("n", h, w) not in arrs:
                arrs[("n", h, w)] = _arrays(h, w, nested=True)
            nb, ni = arrs[("n", h, w)]
            ctx.count("nested-constructor")
            if real2(nb, key) != r or real2(ni, key) != r:
                ctx.disagree("nested-list-constructor", shape=[h, w], key=sx(key), flat=sx(r), nested_bool=sx(real2(nb, key)),
                             nested_int=sx(real2(ni, key)))
        if rs != m:
            ctx.disagree("model-vs-code", shape=[h, w], key=sx(key), real=sx(r), model=sx(m))
        if os_ != s:
            ctx.disagree("spec-vs-cpython", shape=[h, w], key=sx(key), cpython=sx(o), spec=sx(s))
    # object histories (deterministic): lookups one after the other on one array object, one key list mutated in place in between
    hobs = []
    for (label, shapes, steps) in _history_scenarios():
        for family in FAMILIES:
            for (i, a, key, r) in _run_history(shapes, steps, family):
                hobs.append((label, shapes, steps, family, i, a, key, r))
    outs = drv.run([sx(["gi2", shapes[a][0], shapes[a][1], _w(key)]) for (_, shapes, _, _, _, a, key, _) in hobs])
    for (label, shapes, steps, family, i, a, key, r), out in zip(hobs, outs):
        h, w = shapes[a]
        m = core.parse_sx(out)
        o = oracle2(h, w, key)
        ctx.count("history:" + label)
        ctx.case({"history": label, "shape": [h, w], "step": i, "key": sx(key)[:120], "real": sx(r)[:120]},
                 ("history", label, h, w, family, i))
        if [str(x) for x in r] != m:
            ctx.disagree("model-vs-code:history", scenario=label, family=family, shapes=[list(s) for s in shapes],
                         steps=sx(steps[:i + 1])[:600], key=sx(key)[:200], real=sx(r)[:200], model=sx(m)[:200])
        if [str(x) for x in o] != m:
            ctx.disagree("spec-vs-cpython:history", shape=[h, w], key=sx(key)[:200], cpython=sx(o)[:200], model=sx(m)[:200])
    # the nested-list constructor itself: Array2D(rows) with the shape inferred (_infer_shape + _flatten) vs the model's ofNested
    ncases = _nested_cases(ctx.rng, 4, 4)
    for _ in range(ctx.n(300, 3000)):
        h = ctx.rng.randint(1, 6)
        lens = [ctx.rng.randint(0, 5)] * h
        if ctx.rng.random() < 0.5:
            lens = [l if ctx.rng.random() < 0.7 else ctx.rng.randint(0, 5) for l in lens]
        rows = [[ctx.rng.randint(0, 999) for _ in range(l)] for l in lens]
        ncases.append(("random-rect" if len(set(lens)) == 1 else "random-jagged", rows))
    outs = drv.run([sx(["nested"] + rows) for (_, rows) in ncases])
    for (label, rows), out in zip(ncases, outs):
        m = core.parse_sx(out)
        o = oracle_nested(rows)
        ctx.count("nested-ctor:" + label)
        ctx.case({"nested": sx(rows), "model": out}, ("nested", sx(rows)))
        if [str(x) for x in o] != m:
            ctx.disagree("nested-constructor-spec", nested=sx(rows), model=out, list_of_lists=sx(o))
        for form in NESTED_FORMS:
            for b in (True, False):
                r = real_nested(rows, form, b)
                ctx.count("nested-ctor-form:" + form)
                if [str(x) for x in r] != m:
                    ctx.disagree("nested-constructor", nested=sx(rows), rows_as=form, cls="BoolArray2D" if b else "IntArray2D",
                                 real=sx(r), model=out)
    # 1-D arrays
    lines = []
    c1 = []
    keys = _axis_keys(ctx.n(5, 8), [None] + list(range(-3, 4)))
    for n in range(0, ctx.n(5, 7)):
        for k in keys:
            c1.append((n, k))
    c1 += _long_cases_1d()
    lines = [sx(["gi1", n, _w(k)]) for (n, k) in c1]
    outs = drv.run(lines)
    for (n, k), out in zip(c1, outs):
        r = real1(n, k)
        r2 = real1(n, k, boolean=False)
        o = oracle1(n, k)
        m = core.parse_sx(out)
        ctx.case({"n": n, "key": sx(k), "real": sx(r)}, ("1d", n, sx(k)) if len(r) > 1 else None)
        ctx.count("1d")
        if [str(x) for x in r] != m or r != r2:
            ctx.disagree("model-vs-code-1d", n=n, key=sx(k), real=sx(r), model=sx(m))
        if [str(x) for x in o] != m:
            ctx.disagree("spec-vs-cpython-1d", n=n, key=sx(k), cpython=sx(o), spec=sx(m))
    # slice.indices model vs CPython
    lines = []
    c2 = []
    for n in range(0, 6):
        for k in keys:
            if k[0] == "s":
                c2.append((n, k))
                lines.append(sx(["sliceidx", n, _w(k[1]), _w(k[2]), _w(k[3])]))
    outs = drv.run(lines)
    for (n, k), out in zip(c2, outs):
        try:
            r = list(slice(k[1], k[2], k[3]).indices(n))
        except Exception as e:
            r = ["err", core.err_name(e)]
        ctx.count("slice.indices")
        if [str(x) for x in r] != core.parse_sx(out):
            ctx.disagree("sliceIndices-vs-cpython", n=n, key=sx(k), cpython=sx(r), model=out)
    # flatten / reshape
    from cspuz.array import BoolArray1D, BoolArray2D
    from cspuz.expr import BoolVar
    lines = []
    c3 = []
    for n in range(0, 13):
        for h in range(0, 5):
            for w in range(0, 5):
                c3.append((n, h, w))
                lines.append(sx(["reshape", n, h, w]))
    outs = drv.run(lines)
    from cspuz.array import IntArray1D, IntArray2D
    from cspuz.expr import IntVar
    for (n, h, w), out in zip(c3, outs):
        a = BoolArray1D([BoolVar(i) for i in range(n)])
        try:
            b = a.reshape((h, w))
            r = _canon(b)
            if _canon(b.flatten()) != ["arr1"] + list(range(n)):
                ctx.disagree("flatten-order", n=n, h=h, w=w)
            if h * w == n and n > 0:
                b2 = BoolArray2D([BoolVar(i) for i in range(n)], (h, w)).reshape((w, h))
                if [e.id for e in b2.data] != list(range(n)):
                    ctx.disagree("reshape2d-order", n=n, h=h, w=w)
        except Exception as e:
            r = ["err", core.err_name(e)]
        # the integer classes have their own reshape / flatten methods: same outcome, same class family
        try:
            ib = IntArray1D([IntVar(i, 0, 1) for i in range(n)]).reshape((h, w))
            ri = _canon(ib)
            ok = isinstance(ib, IntArray2D) and isinstance(ib.flatten(), IntArray1D) and _canon(ib.flatten()) == ["arr1"] + list(range(n))
            if h * w == n and n > 0:
                ib2 = IntArray2D([IntVar(i, 0, 1) for i in range(n)], (h, w)).reshape((w, h))
                ok = ok and isinstance(ib2, IntArray2D) and _canon(ib2) == ["arr2", w, h] + list(range(n))
            if not ok:
                ctx.disagree("int-reshape-flatten", n=n, h=h, w=w)
        except Exception as e:
            ri = ["err", core.err_name(e)]
        if ri != r:
            ctx.disagree("int-vs-bool-reshape", n=n, h=h, w=w, int=sx(ri), bool=sx(r))
        ctx.case({"reshape": [n, h, w], "real": sx(r)}, ("reshape", n, h, w))
        if [str(x) for x in r] != core.parse_sx(out):
            ctx.disagree("reshape", n=n, h=h, w=w, real=sx(r), model=out)


def _fail(h, w, key):
    ba, ia = _arrays(h, w)
    r = real2(ba, key)
    o = oracle2(h, w, key)
    if r != o:
        return r, o
    r = real2(ia, key)
    if r != o:
        return r, o
    if h >= 1:
        for a in _arrays(h, w, nested=True):
            r = real2(a, key)
            if r != o:
                return r, o, "nested"
    return None


def _classify(key, r, o):
    def neg(k):
        return k[0] == "s" and k[3] is not None and k[3] < 0
    def zero(k):
        return k[0] == "s" and k[3] == 0
    ks = [k for k in key[1:] if isinstance(k, tuple) and k and k[0] in ("i", "s")] if key[0] != "coords" else []
    if any(zero(k) for k in ks):
        return "zero-step"
    if any(neg(k) for k in ks):
        return "negative-step"
    return "other"


def search(ctx, why):
    """All (shape <= 3x3, per-axis key) combinations on the real code against CPython list semantics (keys: ints, the two bools,
    slices incl. bool components; coordinate pairs of ints / bools), then the long thin arrays with indices beyond +-257."""
    full = ("s", None, None, None)
    keys = _axis_keys(4, [None, -2, -1, 0, 1, 2])
    found = {}
    selects = set()

    def prefer(cls, f):
        """Keep the first failing input of a class, but let one on which the list of lists SELECTS something replace one on which
        the list of lists raises as well (only the exception class differs): the clearer witness."""
        good = f[1][:1] != ["err"]
        if cls not in found or (good and cls not in selects):
            if good:
                selects.add(cls)
            return True
        return False
    # the nested-list constructor: real (shape, ids) / exception vs the plain list-of-lists reading
    import random as _random
    for (label, rows) in _nested_cases(_random.Random(0), 4, 4, ids="sequential"):
        for form in NESTED_FORMS:
            for b in (True, False):
                r = real_nested(rows, form, b)
                o = oracle_nested(rows)
                if r != o and "ctor" not in found:
                    found["ctor"] = Finding(
                        "constructor:nested",
                        f"{'BoolArray2D' if b else 'IntArray2D'}({rows}) (rows as {form}) gives {sx(r)} but the list of lists is {sx(o)}",
                        {"nested": rows, "form": form, "boolean": b, "real": r, "expected": o})
    for h in range(0, 4):
        for w in range(0, 4):
            for k in keys:
                for key in (("one", k), ("pair", full, k), ("pair", k, ("i", 0)), ("pair", ("i", 0), k),
                            ("pair", k, ("s", 1, None, 2)), ("pair", ("s", None, None, -1), k)):
                    f = _fail(h, w, key)
                    if f:
                        cls = "nested-list-constructor" if len(f) == 3 else _classify(key, *f[:2])
                        if cls not in found:
                            found[cls] = Finding(
                                "getitem:" + cls,
                                f"Array2D[{sx(key)}] on shape {h}x{w} returns {sx(f[0])} but the list of lists gives {sx(f[1])}",
                                {"h": h, "w": w, "key": key, "real": f[0], "expected": f[1]})
            for y in list(range(-h - 1, h + 1)) + [True, False]:
                for x in list(range(-w - 1, w + 1)) + [True, False]:
                    key = ("coords", (y, x))
                    f = _fail(h, w, key)
                    if f and prefer("coords", f):
                        found["coords"] = Finding("getitem:coords", f"Array2D[[({y},{x})]] on {h}x{w}: {sx(f[0])} vs {sx(f[1])}",
                                                  {"h": h, "w": w, "key": key, "real": f[0], "expected": f[1]})
    # deterministic corners: bools as indices in every key position; indices / slice bounds / coordinates beyond +-257 on 1x300, 300x1
    for (h, w, key) in _bool_cases() + _long_cases():
        f = _fail(h, w, key)
        if f:
            cls = "nested-list-constructor" if len(f) == 3 else "coords" if key[0] == "coords" else _classify(key, *f[:2])
            if prefer(cls, f):
                found[cls] = Finding("getitem:" + cls,
                                     f"Array2D[{sx(key)}] on shape {h}x{w} returns {sx(f[0])[:200]} but the list of lists gives {sx(f[1])[:200]}",
                                     {"h": h, "w": w, "key": key, "real": f[0], "expected": f[1]})
    for (n, k) in [(n, k) for n in range(0, 5) for k in keys] + _long_cases_1d():
        for b in (True, False):
            r = real1(n, k, b)
            o = oracle1(n, k)
            if r != o and "1d" not in found:
                found["1d"] = Finding("getitem:1d", f"Array1D[{sx(k)}] on length {n}: {sx(r)[:200]} vs list {sx(o)[:200]}",
                                      {"n": n, "key": k, "real": r, "expected": o, "one_d": True})
    # reshape / flatten
    from cspuz.array import BoolArray1D
    from cspuz.expr import BoolVar
    for n in range(0, 10):
        for h in range(0, 4):
            for w in range(0, 4):
                a = BoolArray1D([BoolVar(i) for i in range(n)])
                try:
                    b = a.reshape((h, w))
                    ok = (h * w == n) and [e.id for e in b.data] == list(range(n)) and b.shape == (h, w) \
                        and [e.id for e in b.flatten().data] == list(range(n))
                except ValueError:
                    ok = h * w != n
                except Exception:
                    ok = False
                if not ok and "reshape" not in found:
                    found["reshape"] = Finding("reshape", f"reshape of length {n} to {h}x{w} misbehaves", {"n": n, "h": h, "w": w, "reshape": True})
    # object histories: one key list mutated in place between lookups, different keys interleaved on one array object
    for (label, shapes, steps) in _history_scenarios():
        f = _history_fail(shapes, steps)
        if f and "history" not in found:
            found["history"] = _history_finding(label, f)
    return list(found.values())


def replay(ctx, data):
    if "nested" in data:
        rows = [list(r) for r in data["nested"]]
        o = oracle_nested(rows)
        for form in ([data["form"]] if data.get("form") in NESTED_FORMS else []) + list(NESTED_FORMS):
            for b in (bool(data.get("boolean", True)), not bool(data.get("boolean", True))):
                r = real_nested(rows, form, b)
                if r != o:
                    return Finding("constructor:nested", f"Array2D({rows}) (rows as {form}) gives {sx(r)} but the list of lists is {sx(o)}", data)
        return None
    if data.get("reshape"):
        fs = [f for f in search(ctx, {}) if f.signature == "reshape"]
        return fs[0] if fs else None
    if data.get("one_d"):
        k = tuple(data["key"])
        for b in (True, False):
            r = real1(data["n"], k, b)
            o = oracle1(data["n"], k)
            if r != o:
                return Finding("getitem:1d", f"{sx(r)} vs {sx(o)}", data)
        return None
    def tup(k):
        return tuple(tup(x) if isinstance(x, list) else x for x in k)
    if "history" in data:
        hd = data["history"]
        shapes = [tuple(s) for s in hd["shapes"]]
        steps = [tup(st) for st in hd["steps"]]
        fam = hd.get("family")
        f = _history_fail(shapes, steps, ([fam] if fam in FAMILIES else []) + [x for x in FAMILIES if x != fam])
        return _history_finding("replayed", f) if f else None
    if "key" not in data:
        return None
    key = tup(data["key"])
    f = _fail(data["h"], data["w"], key)
    if f:
        return Finding("getitem:" + _classify(key, *f), f"Array2D[{sx(key)}] on {data['h']}x{data['w']}: {sx(f[0])} vs list-of-lists {sx(f[1])}", data)
    return None
