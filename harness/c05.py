"""C05 — division_connected holds exactly for labelings whose classes are connected."""
import itertools

from . import core, exprio, graphs, graphcorr
from .core import Finding

THEOREMS = ["Cspuz.C05.C05_aux_exact", "Cspuz.C05.C05_prim_exact", "Cspuz.C05.C05_total"]


def correspond(ctx):
    ctx.extra["rule"] = ("random multigraphs n<=6 and grids (with (y,x) roots), k in 1..4, label expressions as IntVars / literals / "
                         "compound, roots lists with None holes, allow_empty_group on/off, both routes; emitted program of the real "
                         "division_connected / _division_connected vs the Lean model (constraint multiset)"
                         " + a handful of deterministic medium / LARGE instances per family (graphs.big_graphs: 40, 70 and 258..319 vertices -- vertex ids beyond CPython's small-int cache, more than 32 / 64 vertices --, boards up to 16x17); about half of the Graph objects are observed part-way through construction (accessors read, every graph constraint posted once on a throw-away Solver) before the remaining edges are added")
    graphcorr.run_cases(ctx, graphcorr.case_divconn, ctx.n(400, 5000), "divconn", bigs=graphcorr.graph_bigs() + graphcorr.grid_bigs() + graphcorr.medium_bigs("rotate") + graphcorr.medium_grid_bigs())
    graphcorr.run_cases(ctx, graphcorr.case_divconn_prim, ctx.n(200, 2500), "divconn_prim", bigs=graphcorr.graph_bigs("large") + graphcorr.medium_bigs())
    if not ctx.quick():
        for f in search(ctx, None, budget=30):
            ctx.disagree("semantic", what=f.what, data=f.data)


def spec(n, edges, k, lab, roots, allow_empty):
    for c in range(k):
        vs = [v for v in range(n) if lab[v] == c]
        if not vs and not allow_empty:
            return False
        if not exprio.connected(vs, [(u, v) for u, v in edges if lab[u] == c and lab[v] == c]):
            return False
    if roots:
        for c, r in enumerate(roots):
            if r is not None and lab[r] != c:
                return False
    return True


def _check(n, edges, k, roots, allow_empty, prim, as_list=False):
    from cspuz import graph as G
    from cspuz.array import IntArray1D
    mk = graphs.mk_graph(n, edges)

    def builder(s):
        vs = [s.int_var(0, k - 1) for _ in range(n)]
        dv = vs if as_list else IntArray1D(vs)
        if prim:
            return lambda: G._division_connected(s, dv, k, mk, roots=roots, allow_empty_group=allow_empty, use_graph_primitive=True)
        return lambda: G.division_connected(s, dv, k, mk, roots=roots, allow_empty_group=allow_empty)
    decls, cs, base, _ = graphs.real_program(builder)
    for lab in itertools.product(range(k), repeat=n):
        fixed = {f"i{i}": lab[i] for i in range(n)}
        got = exprio.solve_prog(decls, cs, base, fixed) is not None
        want = spec(n, edges, k, lab, roots, allow_empty)
        if got != want:
            return list(lab), got, want
    return None


def _check_grid(h, w, k, roots, allow_empty):
    """public 2-D entry: IntArray2D + roots given as (y, x) coordinates (with None holes)."""
    from cspuz import graph as G
    n = h * w
    edges = graphs.grid_edges(h, w)

    def builder(s):
        arr = s.int_array((h, w), 0, k - 1)
        return lambda: G.division_connected(s, arr, k, roots=roots, allow_empty_group=allow_empty)
    decls, cs, base, _ = graphs.real_program(builder)
    flat = None if roots is None else [None if r is None else r[0] * w + r[1] for r in roots]
    for lab in itertools.product(range(k), repeat=n):
        got = exprio.solve_prog(decls, cs, base, {f"i{i}": lab[i] for i in range(n)}) is not None
        want = spec(n, edges, k, lab, flat, allow_empty)
        if got != want:
            return list(lab), got, want
    return None


def block_labelings(n, edges, k):
    """[(name, labels)] for a medium / large graph: contiguous index blocks (normally connected), a class split in two far-apart
    pieces, labels rotated (so that given roots carry the wrong label), one class empty, a single vertex relabelled at either end."""
    cut = [round(n * j / k) for j in range(k + 1)]
    blocks = [max(c for c in range(k) if cut[c] <= v) for v in range(n)]
    out = [("index-blocks", blocks), ("index-blocks-reversed", [k - 1 - b for b in blocks]),
           ("rotated", [(b + 1) % k for b in blocks])]
    split = list(blocks)
    for v in range(n - max(2, n // 10), n):
        split[v] = 0                      # class 0 gets a second piece at the top of the index range
    out.append(("class-0-in-two-pieces", split))
    if k >= 2:
        out.append(("class-k-1-empty", [min(b, k - 2) for b in blocks]))
    one = list(blocks)
    one[n - 1] = 0
    out.append(("last-vertex-relabelled-0", one))
    one = list(blocks)
    one[0] = k - 1
    out.append(("first-vertex-relabelled-k-1", one))
    out.append(("all-0", [0] * n))
    return out


def _check_labelings(n, edges, k, roots, allow_empty, as_list, labelings, grid=None):
    """Selected labelings of a medium / large instance (aux route; graph form, or the IntArray2D form with (y, x) roots)."""
    from cspuz import graph as G
    from cspuz.array import IntArray1D

    def builder(s):
        if grid:
            arr = s.int_array(grid, 0, k - 1)
            r2 = None if roots is None else [None if r is None else (r // grid[1], r % grid[1]) for r in roots]
            return lambda: G.division_connected(s, arr, k, roots=r2, allow_empty_group=allow_empty)
        vs = [s.int_var(0, k - 1) for _ in range(n)]
        dv = vs if as_list else IntArray1D(vs)
        return lambda: G.division_connected(s, dv, k, mk, roots=roots, allow_empty_group=allow_empty)
    mk = None if grid else graphs.mk_graph(n, edges)
    decls, cs, base, _ = graphs.real_program(builder)
    for name, lab in labelings:
        want = spec(n, edges, k, lab, roots, allow_empty)
        try:
            got = exprio.solve_prog(decls, cs, base, {f"i{i}": lab[i] for i in range(n)}, timeout_ms=BIG_TIMEOUT_MS) is not None
        except exprio.Unknown:
            UNDECIDED[0] += 1       # (refuting a spanning forest on a large board is hard for z3: not a verdict)
            continue
        if got != want:
            return name, lab, got, want
    return None


BIG_TIMEOUT_MS = 2500
UNDECIDED = [0]


def _runs(lab):
    """run-length form of a long labeling (for messages)"""
    out, i = [], 0
    while i < len(lab):
        j = i
        while j < len(lab) and lab[j] == lab[i]:
            j += 1
        out.append("%d x%d" % (lab[i], j - i))
        i = j
    return "[" + ", ".join(out) + "]"


def search(ctx, why, budget=None):
    found = {}
    rng = ctx.rng
    for (h, w, k, roots) in ((1, 3, 2, [None, (0, 2)]), (2, 2, 3, [None, (0, 0), (1, 1)]), (2, 3, 2, [(1, 2), None]),
                             (2, 2, 2, [None, None]), (3, 1, 3, [(2, 0), None, (0, 0)]), (2, 3, 3, [None, (0, 0), (1, 2)])):
        for allow_empty in (False, True):
            if "grid" in found or k ** (h * w) > 800:
                continue
            try:
                bad = _check_grid(h, w, k, roots, allow_empty)
            except Exception as e:
                bad = ("exception", core.err_name(e), str(e)[:200])
            ctx.count("search:grid")
            if bad:
                found["grid"] = Finding("divconn:grid-roots", f"division_connected on a {h}x{w} IntArray2D, k={k}, roots={roots}, "
                                        f"allow_empty_group={allow_empty}, labels={bad[0]}: satisfiable={bad[1]} expected {bad[2]}",
                                        {"grid": [h, w], "k": k, "roots": roots, "allow_empty": allow_empty, "labels": bad[0]})
    seen_n3 = []
    for (n, edges) in graphs.reversed_specials() + graphs.small_graphs(rng, budget or ctx.n(10, 30), 4):
        if n > 4:
            continue
        ks = [1, 2, 3]
        if n == 3 and edges and len(seen_n3) < 2:
            seen_n3.append(1)
            ks.append(n + 2)          # more labels than vertices (only meaningful with empty groups): on two 3-vertex graphs
        for k in ks:
            if k ** n > (40 if ctx.quick() else 300) and k <= 3:
                continue
            for allow_empty in ((False, True) if k <= 3 else (True,)):
                roots_opts = [None, [None] * k, [rng.choice([None, rng.randrange(n)]) for _ in range(k)]]
                for roots in roots_opts:
                    for prim in (False, True):
                        if prim and n > 3:
                            continue
                        for as_list in ((False, True) if not prim else (False, True)):
                            key = ("prim" if prim else "aux") + (":list" if as_list else "")
                            if key in found:
                                continue
                            try:
                                bad = _check(n, edges, k, roots, allow_empty, prim, as_list)
                            except Exception as e:
                                bad = ("exception", core.err_name(e), str(e)[:200])
                            ctx.count("search:" + key)
                            if bad:
                                found[key] = Finding(
                                    "divconn:" + key,
                                    f"division_connected(route={key}) n={n} edges={edges} k={k} roots={roots} allow_empty_group={allow_empty} "
                                    f"labels={bad[0]}: satisfiable={bad[1]} expected {bad[2]}" + graphs.history_note(n, edges),
                                    {"n": n, "edges": edges, "k": k, "roots": roots, "allow_empty": allow_empty, "prim": prim,
                                     "as_list": as_list, "labels": bad[0]})
    # medium and LARGE instances: root vertices with ids >= 257, classes at both ends of the index range
    bigs = [(n, es, None) for n, es in graphs.big_graphs()] + [(h * w, graphs.grid_edges(h, w), (h, w)) for h, w in graphs.BIG_GRIDS]
    for idx, (n, edges, grid) in enumerate(bigs):
        for k in ((2, 3) if n <= 64 else (2 + idx % 2,)):
            blocks = block_labelings(n, edges, k)
            lab0 = blocks[0][1]
            for roots in (None, [None] * (k - 1) + [n - 1], [None if c == 1 else max(v for v in range(n) if lab0[v] == c) - c for c in range(k)]):
                if n > 64 and roots is None:
                    continue            # (large boards without roots mostly end undecided; what is special about LARGE is the roots)
                allow_empty = (idx + k) % 2 == 0
                as_list = (idx % 2 == 1)
                key = "big:grid" if grid else "big"
                if key in found:
                    continue
                try:
                    bad = _check_labelings(n, edges, k, roots, allow_empty, as_list, blocks, grid)
                except Exception as e:
                    bad = ("exception", None, core.err_name(e), str(e)[:200])
                ctx.count("search:" + key)
                if UNDECIDED[0]:
                    ctx.count("search:big:undecided-within-%dms" % BIG_TIMEOUT_MS, UNDECIDED[0])
                    UNDECIDED[0] = 0
                if bad:
                    shown = None if roots is None else (roots if not grid else [None if r is None else (r // grid[1], r % grid[1]) for r in roots])
                    found[key] = Finding(
                        "divconn:large-" + ("grid" if grid else "graph"),
                        (f"division_connected on a {grid[0]}x{grid[1]} IntArray2D" if grid else
                         f"division_connected on a graph with {n} vertices and {len(edges)} edges (edges {edges[:4]} ... {edges[-6:]}, labels as a {'list' if as_list else 'IntArray1D'})")
                        + f", k={k}, roots={shown}, allow_empty_group={allow_empty}, labels ({bad[0]}) = {_runs(bad[1]) if bad[1] else None}: "
                        f"satisfiable={bad[2]} expected {bad[3]}" + ("" if grid else graphs.history_note(n, edges)),
                        {"big": True, "n": n, "edges": edges, "bgrid": list(grid) if grid else None, "k": k, "roots": roots,
                         "allow_empty": allow_empty, "as_list": as_list, "labels": bad[1], "labels_name": bad[0]})
    return list(found.values())


def replay(ctx, data):
    if data.get("big"):
        bad = _check_labelings(data["n"], [tuple(e) for e in data["edges"]], data["k"], data["roots"], data["allow_empty"], data["as_list"],
                               [(data.get("labels_name"), data["labels"])], tuple(data["bgrid"]) if data.get("bgrid") else None)
        return Finding("divconn:replay", f"still fails: {str(bad)[:300]}", data) if bad else None
    if "grid" in data:
        roots = None if data["roots"] is None else [None if r is None else tuple(r) for r in data["roots"]]
        bad = _check_grid(data["grid"][0], data["grid"][1], data["k"], roots, data["allow_empty"])
        return Finding("divconn:replay", f"still fails: {bad}", data) if bad else None
    bad = _check(data["n"], [tuple(e) for e in data["edges"]], data["k"], data["roots"], data["allow_empty"], data["prim"], data.get("as_list", False))
    return Finding("divconn:replay", f"still fails: {bad}", data) if bad else None
