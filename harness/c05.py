"""C05 — division_connected holds exactly for labelings whose classes are connected."""
import itertools

from . import core, exprio, graphs, graphcorr
from .core import Finding

THEOREMS = ["Cspuz.C05.C05_aux_exact", "Cspuz.C05.C05_prim_exact", "Cspuz.C05.C05_total"]


def correspond(ctx):
    ctx.extra["rule"] = ("random multigraphs n<=6 and grids (with (y,x) roots), k in 1..4, label expressions as IntVars / literals / "
                         "compound, roots lists with None holes, allow_empty_group on/off, both routes; emitted program of the real "
                         "division_connected / _division_connected vs the Lean model (constraint multiset)")
    graphcorr.run_cases(ctx, graphcorr.case_divconn, ctx.n(400, 5000), "divconn")
    graphcorr.run_cases(ctx, graphcorr.case_divconn_prim, ctx.n(200, 2500), "divconn_prim")
    if not ctx.quick():
        for f in search(ctx, None, budget=30):
            ctx.disagree("semantic", what=f.what, data=f.data)


def spec(n, edges, k, lab, roots, allow_empty):
    for c in range(k):
        vs = [v for v in range(n) if lab[v] == c]
        if not vs and not allow_empty:
            return False
        if not exprio.connected(vs, [(u, v) for u, v in edges if lab[u] == c and lab[v] == c]):
            return False
    if roots:
        for c, r in enumerate(roots):
            if r is not None and lab[r] != c:
                return False
    return True


def _check(n, edges, k, roots, allow_empty, prim, as_list=False):
    from cspuz import graph as G
    from cspuz.array import IntArray1D
    mk = graphs.mk_graph(n, edges)

    def builder(s):
        vs = [s.int_var(0, k - 1) for _ in range(n)]
        dv = vs if as_list else IntArray1D(vs)
        if prim:
            return lambda: G._division_connected(s, dv, k, mk, roots=roots, allow_empty_group=allow_empty, use_graph_primitive=True)
        return lambda: G.division_connected(s, dv, k, mk, roots=roots, allow_empty_group=allow_empty)
    decls, cs, base, _ = graphs.real_program(builder)
    for lab in itertools.product(range(k), repeat=n):
        fixed = {f"i{i}": lab[i] for i in range(n)}
        got = exprio.solve_prog(decls, cs, base, fixed) is not None
        want = spec(n, edges, k, lab, roots, allow_empty)
        if got != want:
            return list(lab), got, want
    return None


def _check_grid(h, w, k, roots, allow_empty):
    """public 2-D entry: IntArray2D + roots given as (y, x) coordinates (with None holes)."""
    from cspuz import graph as G
    n = h * w
    edges = graphs.grid_edges(h, w)

    def builder(s):
        arr = s.int_array((h, w), 0, k - 1)
        return lambda: G.division_connected(s, arr, k, roots=roots, allow_empty_group=allow_empty)
    decls, cs, base, _ = graphs.real_program(builder)
    flat = None if roots is None else [None if r is None else r[0] * w + r[1] for r in roots]
    for lab in itertools.product(range(k), repeat=n):
        got = exprio.solve_prog(decls, cs, base, {f"i{i}": lab[i] for i in range(n)}) is not None
        want = spec(n, edges, k, lab, flat, allow_empty)
        if got != want:
            return list(lab), got, want
    return None


def search(ctx, why, budget=None):
    found = {}
    rng = ctx.rng
    for (h, w, k, roots) in ((1, 3, 2, [None, (0, 2)]), (2, 2, 3, [None, (0, 0), (1, 1)]), (2, 3, 2, [(1, 2), None]),
                             (2, 2, 2, [None, None]), (3, 1, 3, [(2, 0), None, (0, 0)]), (2, 3, 3, [None, (0, 0), (1, 2)])):
        for allow_empty in (False, True):
            if "grid" in found or k ** (h * w) > 800:
                continue
            try:
                bad = _check_grid(h, w, k, roots, allow_empty)
            except Exception as e:
                bad = ("exception", core.err_name(e), str(e)[:200])
            ctx.count("search:grid")
            if bad:
                found["grid"] = Finding("divconn:grid-roots", f"division_connected on a {h}x{w} IntArray2D, k={k}, roots={roots}, "
                                        f"allow_empty_group={allow_empty}, labels={bad[0]}: satisfiable={bad[1]} expected {bad[2]}",
                                        {"grid": [h, w], "k": k, "roots": roots, "allow_empty": allow_empty, "labels": bad[0]})
    for (n, edges) in graphs.reversed_specials() + graphs.small_graphs(rng, budget or ctx.n(10, 30), 4):
        if n > 4:
            continue
        for k in (1, 2, 3):
            if k ** n > (40 if ctx.quick() else 300):
                continue
            for allow_empty in (False, True):
                roots_opts = [None, [None] * k, [rng.choice([None, rng.randrange(n)]) for _ in range(k)]]
                for roots in roots_opts:
                    for prim in (False, True):
                        if prim and n > 3:
                            continue
                        for as_list in ((False, True) if not prim else (False, True)):
                            key = ("prim" if prim else "aux") + (":list" if as_list else "")
                            if key in found:
                                continue
                            try:
                                bad = _check(n, edges, k, roots, allow_empty, prim, as_list)
                            except Exception as e:
                                bad = ("exception", core.err_name(e), str(e)[:200])
                            ctx.count("search:" + key)
                            if bad:
                                found[key] = Finding(
                                    "divconn:" + key,
                                    f"division_connected(route={key}) n={n} edges={edges} k={k} roots={roots} allow_empty_group={allow_empty} "
                                    f"labels={bad[0]}: satisfiable={bad[1]} expected {bad[2]}",
                                    {"n": n, "edges": edges, "k": k, "roots": roots, "allow_empty": allow_empty, "prim": prim,
                                     "as_list": as_list, "labels": bad[0]})
    return list(found.values())


def replay(ctx, data):
    if "grid" in data:
        roots = None if data["roots"] is None else [None if r is None else tuple(r) for r in data["roots"]]
        bad = _check_grid(data["grid"][0], data["grid"][1], data["k"], roots, data["allow_empty"])
        return Finding("divconn:replay", f"still fails: {bad}", data) if bad else None
    bad = _check(data["n"], [tuple(e) for e in data["edges"]], data["k"], data["roots"], data["allow_empty"], data["prim"], data.get("as_list", False))
    return Finding("divconn:replay", f"still fails: {bad}", data) if bad else None
