"""C05 — division_connected holds exactly for labelings whose classes are connected."""
import itertools

from . import core, exprio, graphs, graphcorr
from .core import Finding

THEOREMS = ["Cspuz.C05.C05_aux_exact", "Cspuz.C05.C05_prim_exact", "Cspuz.C05.C05_total"]


def correspond(ctx):
    ctx.extra["rule"] = ("random multigraphs n<=6 and grids (with (y,x) roots), k in 1..4, label expressions as IntVars / literals / "
                         "compound, roots lists with None holes, allow_empty_group on/off, both routes; emitted program of the real "
                         "division_connected / _division_connected vs the Lean model (constraint multiset)")
    graphcorr.run_cases(ctx, graphcorr.case_divconn, ctx.n(400, 5000), "divconn")
    graphcorr.run_cases(ctx, graphcorr.case_divconn_prim, ctx.n(200, 2500), "divconn_prim")
    if not ctx.quick():
        for f in search(ctx, None, budget=30):
            ctx.disagree("semantic", what=f.what, data=f.data)


def spec(n, edges, k, lab, roots, allow_empty):
    for c in range(k):
        vs = [v for v in range(n) if lab[v] == c]
        if not vs and not allow_empty:
            return False
        if not exprio.connected(vs, [(u, v) for u, v in edges if lab[u] == c and lab[v] == c]):
            return False
    if roots:
        for c, r in enumerate(roots):
            if r is not None and lab[r] != c:
                return False
    return True


def _check(n, edges, k, roots, allow_empty, prim, as_list=False):
    from cspuz import graph as G
    from cspuz.array import IntArray1D
    mk = graphs.mk_graph(n, edges)

    def builder(s):
        vs = [s.int_var(0, k - 1) for _ in range(n)]
        dv = vs if as_list else IntArray1D(vs)
        if prim:
            return lambda: G._division_connected(s, dv, k, mk, roots=roots, allow_empty_group=allow_empty, use_graph_primitive=True)
        return lambda: G.division_connected(s, dv, k, mk, roots=roots, allow_empty_group=allow_empty)
    decls, cs, base, _ = graphs.real_program(builder)
    for lab in itertools.product(range(k), repeat=n):
        fixed = {f"i{i}": lab[i] for i in range(n)}
        got = exprio.solve_prog(decls, cs, base, fixed) is not None
        want = spec(n, edges, k, lab, roots, allow_empty)
        if got != want:
            return list(lab), got, want
    return None


def search(ctx, why, budget=None):
    found = {}
    rng = ctx.rng
    for (n, edges) in graphs.small_graphs(rng, budget or ctx.n(10, 30), 4):
        if n > 4:
            continue
        for k in (1, 2, 3):
            if k ** n > (40 if ctx.quick() else 300):
                continue
            for allow_empty in (False, True):
                roots_opts = [None, [None] * k, [rng.choice([None, rng.randrange(n)]) for _ in range(k)]]
                for roots in roots_opts:
                    for prim in (False, True):
                        if prim and n > 3:
                            continue
                        for as_list in ((False, True) if not prim else (False, True)):
                            key = ("prim" if prim else "aux") + (":list" if as_list else "")
                            if key in found:
                                continue
                            try:
                                bad = _check(n, edges, k, roots, allow_empty, prim, as_list)
                            except Exception as e:
                                bad = ("exception", core.err_name(e), str(e)[:200])
                            ctx.count("search:" + key)
                            if bad:
                                found[key] = Finding(
                                    "divconn:" + key,
                                    f"division_connected(route={key}) n={n} edges={edges} k={k} roots={roots} allow_empty_group={allow_empty} "
                                    f"labels={bad[0]}: satisfiable={bad[1]} expected {bad[2]}",
                                    {"n": n, "edges": edges, "k": k, "roots": roots, "allow_empty": allow_empty, "prim": prim,
                                     "as_list": as_list, "labels": bad[0]})
    return list(found.values())


def replay(ctx, data):
    bad = _check(data["n"], [tuple(e) for e in data["edges"]], data["k"], data["roots"], data["allow_empty"], data["prim"], data.get("as_list", False))
    return Finding("divconn:replay", f"still fails: {bad}", data) if bad else None
