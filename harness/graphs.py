"""Shared helpers for the graph-constraint properties (C04-C10): graph generators, program capture, specs."""
import itertools

from . import core
from .core import sx
from . import exprio


def rand_graph(rng, nmax=6, allow_parallel=True, allow_loops=False, nmin=1):
    n = rng.randint(nmin, nmax)
    kind = rng.random()
    edges = []
    if kind < 0.15:      # path
        edges = [(i, i + 1) for i in range(n - 1)]
    elif kind < 0.25:    # cycle
        edges = [(i, (i + 1) % n) for i in range(n)] if n >= 3 else [(i, i + 1) for i in range(n - 1)]
    elif kind < 0.33:    # star
        edges = [(0, i) for i in range(1, n)]
    elif kind < 0.40:    # complete
        edges = [(i, j) for i in range(n) for j in range(i + 1, n)]
    else:                # Erdos-Renyi, often with isolated vertices
        p = rng.choice([0.2, 0.35, 0.5, 0.7])
        edges = [(i, j) for i in range(n) for j in range(i + 1, n) if rng.random() < p]
    edges = [(a, b) if rng.random() < 0.5 else (b, a) for a, b in edges]
    rng.shuffle(edges)
    if allow_parallel and edges and rng.random() < 0.3:
        for _ in range(rng.randint(1, 2)):
            a, b = rng.choice(edges)
            edges.insert(rng.randint(0, len(edges)), (b, a) if rng.random() < 0.5 else (a, b))
    if allow_loops and rng.random() < 0.1:
        v = rng.randrange(n)
        edges.insert(rng.randint(0, len(edges)), (v, v))
    return n, edges


def _mix(n, edges):
    """Deterministic small hash of a graph description (no Python hash(): that one is salted per process)."""
    x = n * 7 + len(edges) * 13
    for k, (a, b) in enumerate(edges):
        x = (x * 31 + a * 5 + b * 3 + k) % 1000003
    return x


def limited(seconds, fn, *a, **kw):
    """core.with_timeout, but safe to use inside another time limit (the outer one then stays in force)."""
    import signal
    if signal.getitimer(signal.ITIMER_REAL)[0] > 0:
        return fn(*a, **kw)
    return core.with_timeout(seconds, fn, *a, **kw)


def post_everything(g):
    """Post every public graph constraint of cspuz.graph on a THROW-AWAY Solver with the graph as it is now.  Posting a constraint
    must not leave anything behind on (or keyed by) the Graph object: adjacency snapshots, memoised neighbour lists, cached line
    graphs ... -- `add_edge` afterwards must still count for every later call.  Each call is guarded (an exception here is not what
    is being tested) and time-limited (core.RealTimeout propagates like everywhere else)."""
    from cspuz import Solver, graph as G
    from cspuz.array import BoolArray1D, IntArray1D
    n, m = g.num_vertices, len(g)
    posts = []
    for acyclic in (False, True):
        for prim in (False, True):
            posts.append(lambda s, acyclic=acyclic, prim=prim: G.active_vertices_connected(
                s, [s.bool_var() for _ in range(n)], g, acyclic=acyclic, use_graph_primitive=prim))
    posts.append(lambda s: G.active_vertices_connected(s, s.bool_array(n), g))
    posts.append(lambda s: G.active_vertices_not_adjacent(s, [s.bool_var() for _ in range(n)], g))
    posts.append(lambda s: G.active_vertices_not_adjacent_and_not_segmenting(s, s.bool_array(n), g))
    posts.append(lambda s: G.active_edges_acyclic(s, [s.bool_var() for _ in range(m)], g))
    for prim in (False, True):
        posts.append(lambda s, prim=prim: G.active_edges_single_cycle(s, [s.bool_var() for _ in range(m)], g, use_graph_primitive=prim))
        posts.append(lambda s, prim=prim: G.active_edges_single_path(s, s.bool_array(m), g, use_graph_primitive=prim))
    for allow_empty in (False, True):
        posts.append(lambda s, ae=allow_empty: G.division_connected(
            s, [s.int_var(0, 1) for _ in range(n)], 2, g, roots=[None, n - 1] if n else None, allow_empty_group=ae))
    posts.append(lambda s: G._division_connected(s, s.int_array(n, 0, 1), 2, g, use_graph_primitive=True))
    posts.append(lambda s: G.division_connected_variable_groups(s, graph=g))
    posts.append(lambda s: G.division_connected_variable_groups(s, graph=g, group_size=[s.int_var(1, max(1, n)) for _ in range(n)]))
    for prim in (False, True):
        posts.append(lambda s, prim=prim: G.division_connected_variable_groups_with_borders(
            s, group_size=[s.int_var(1, max(1, n)) if v % 2 else None for v in range(n)], is_border=[s.bool_var() for _ in range(m)],
            graph=g, use_graph_primitive=prim))
    for post in posts:
        try:
            limited(20, post, Solver())
        except Exception:
            pass


OBSERVE_POST_MAX_N = 40


def observe_at(n, edges):
    """Where (before which add_edge) the graph under construction is observed, or None: about half of the graphs with at least two
    edges, at a split point that varies with the graph."""
    m = len(edges)
    if m < 2:
        return None
    x = _mix(n, edges)
    return (1 + (x // 2) % (m - 1)) if x % 2 == 0 else None


def mk_graph(n, edges):
    """The Graph object for (n, edges).  About half of the graphs (with >= 2 edges) are OBSERVED part-way through their
    construction before the remaining edges are added: every public accessor is read, the line graph is taken, and (up to
    OBSERVE_POST_MAX_N vertices) every public graph constraint is POSTED once on a throw-away Solver (`post_everything`).  Reading a
    graph or posting a constraint on it must not freeze or alias anything: `add_edge` afterwards must still count."""
    from cspuz.graph import Graph
    g = Graph(n)
    at = observe_at(n, edges)
    for k, (a, b) in enumerate(edges):
        if k == at:
            _ = [list(x) for x in g.incident_edges]
            _ = (len(g), list(g), g[0], g.num_vertices, list(g.edges))
            _ = g.line_graph()
            if n <= OBSERVE_POST_MAX_N:
                post_everything(g)
        g.add_edge(a, b)
    return g


def grid_edges(h, w):
    es = []
    for y in range(h):
        for x in range(w):
            if x < w - 1:
                es.append((y * w + x, y * w + x + 1))
            if y < h - 1:
                es.append((y * w + x, (y + 1) * w + x))
    return es


# ------------------------------------------------------------------ medium and LARGE deterministic graphs
#
# Small exhaustive families never see what depends on the SIZE of an instance: vertex ids >= 257 are not interned by CPython (`is`
# instead of `==` on indices goes wrong only there), cardinality constraints cut into index blocks (32, 64 ...) are exact below the
# block size, rank domains derived from a diameter are large enough on small boards.  These graphs have few degrees of freedom but
# all the features the small ones have: mixed edge orientation, a parallel edge, cycles at both ends of the index range.

LARGE_SIZES = (258, 263, 300, 319)
MEDIUM_SIZES = (40, 70)


def long_graph(n):
    """Path over all n vertices (every third edge stored high-to-low), a triangle on the three LOWEST and one on the three HIGHEST
    indices (its chord stored as (n-1, n-3)), a 4-cycle 33-34-35-36, two long chords and one parallel edge near the top."""
    es = [(i, i + 1) if i % 3 else (i + 1, i) for i in range(n - 1)]
    es += [(2, 0), (n - 1, n - 3), (36, 33), (5, n - 10), (n - 20, 37), (n - 5, n - 6)]
    return n, es


def sparse_graph(n):
    """n vertices, 12 edges: a triangle on the three highest indices, a short path below it, a triangle on 0,1,2 and one link;
    everything else isolated (cheap for the solvers and for the model's line graph)."""
    es = [(n - 1, n - 3), (n - 3, n - 2), (n - 1, n - 2), (n - 8, n - 7), (n - 6, n - 7), (n - 6, n - 5),
          (0, 1), (2, 1), (2, 0), (1, n - 8), (n - 5, n - 11), (n - 12, n - 11)]
    return n, es


def big_graphs(kind="all"):
    """Deterministic (n, edges) list.  kind: 'all' (medium + long + sparse), 'sparse' (only few-edge graphs), 'large' (n >= 258)."""
    out = []
    if kind == "all":
        out += [long_graph(n) for n in MEDIUM_SIZES]
    if kind in ("all", "large"):
        out += [long_graph(LARGE_SIZES[0]), long_graph(LARGE_SIZES[2])]
    if kind == "sparse":
        out += [sparse_graph(MEDIUM_SIZES[0])]
    out += [sparse_graph(LARGE_SIZES[1]), sparse_graph(LARGE_SIZES[3])] if kind != "sparse" else [sparse_graph(LARGE_SIZES[0]), sparse_graph(LARGE_SIZES[2])]
    return out


# ---- every size of a MEDIUM range, cheap shapes only.  Encoders that cut a sum / a conjunction into blocks (24, 40, 50 ... items) and
# treat the leftover block separately change branch at sizes k*block + 1, k*block - 1 ...: which sizes those are is not known in
# advance, so ALL sizes of the range are visited, with shapes that cost next to nothing: a path, a cycle, and a star whose hub (vertex
# 0, degree n - 1) gets its spokes in index order and whose LAST two leaves are joined by a rim edge (the only cycle runs through the
# hub's last two incident edges).

MEDIUM_RANGE = (30, 130)


def path_graph(n):
    return n, [(i, i + 1) if i % 3 else (i + 1, i) for i in range(n - 1)]


def cycle_graph(n):
    return n, path_graph(n)[1] + [(n - 1, 0)]


def star_rim_graph(n):
    return n, [(0, i) if i % 4 else (i, 0) for i in range(1, n)] + [(n - 2, n - 1)]


def medium_graphs(stars="all"):
    """For every n of MEDIUM_RANGE: the star with a rim edge (stars='all'; 'rotate': only every third n, those with n % 3 == 2 -- hub
    degrees 31, 34, ... -- ; 'none') and a path (n even) or a cycle (n odd)."""
    out = []
    for n in range(MEDIUM_RANGE[0], MEDIUM_RANGE[1] + 1):
        if stars == "all" or (stars == "rotate" and n % 3 == 2):
            out.append(star_rim_graph(n))
        if stars == "rotate" and n % 3 == 2:
            continue
        out.append(cycle_graph(n) if n % 2 else path_graph(n))
    return out


def medium_grids():
    """Tall thin boards of every height of MEDIUM_RANGE (width 1 or 2) and a few transposed ones."""
    out = [(h, 2 if h % 3 else 1) for h in range(MEDIUM_RANGE[0], MEDIUM_RANGE[1] + 1)]
    return out + [(1, 41), (2, 51), (2, 81), (1, 101), (2, 121), (3, 17), (3, 27), (17, 3)]


def instance_name(n, edges):
    edges = [tuple(e) for e in edges]
    for f in (long_graph, sparse_graph, path_graph, cycle_graph, star_rim_graph):
        if f(n)[1] == edges:
            return "graphs.%s(%d)" % (f.__name__, n)
    return "graph with %d vertices, %d edges" % (n, len(edges))


BIG_GRIDS = ((6, 7), (16, 17), (13, 20))        # cells: 42, 272, 260
BIG_FRAMES = ((5, 5), (6, 6), (15, 16))         # lattice points: 36, 49, 272


def history_note(n, edges):
    """Text for a finding: how the Graph object was built (see mk_graph)."""
    at = observe_at(n, edges)
    if at is None:
        return ""
    return (" [Graph object history: Graph(%d), the first %d add_edge calls, every accessor read%s, then the remaining add_edge calls]"
            % (n, at, " and every graph constraint posted once on a throw-away Solver" if n <= OBSERVE_POST_MAX_N else ""))


def bool_forms(rng, solver, nvars_bool, nvars_int, n, allow_const=True, plain=False):
    """n boolean items built from the solver's first variables: variables, negations, compound expressions, constants.
    Returns the list of python objects."""
    from cspuz.expr import BoolVar
    bs = [v for v in solver.variables if isinstance(v, BoolVar)][:nvars_bool]
    ins = [v for v in solver.variables if not isinstance(v, BoolVar)][:nvars_int]
    out = []
    for k in range(n):
        r = rng.random()
        v = bs[k % len(bs)] if bs else None
        if plain or r < 0.55 or v is None:
            out.append(v if v is not None else True)
        elif r < 0.68:
            out.append(~v)
        elif r < 0.78:
            out.append(v & rng.choice(bs))
        elif r < 0.84:
            out.append(v | ~rng.choice(bs))
        elif r < 0.90 and ins:
            out.append(rng.choice(ins) >= 1)
        elif allow_const:
            out.append(rng.random() < 0.6)
        else:
            out.append(v)
    return out


def run_real(fn):
    """fn(solver) -> extra result to print.  Returns canonical text."""
    raise NotImplementedError


def capture(build):
    """build(solver) must declare the caller's variables, return (base, callable) -- then the callable is run and
    the emitted fragment printed.  Returns ('ok', progtext, result) or ('err', name)."""
    from cspuz import Solver
    s = Solver()
    try:
        call = build(s)
        base = len(s.variables)
        cbase = len(s.constraints)
        res = core.with_timeout(30, call)      # posting constraints on a small graph takes milliseconds
        return ("ok", exprio.pprog(s, base, cbase), res, s)
    except Exception as e:
        return ("err", core.err_name(e), None, s)


def canon(text):
    return exprio.canon_prog(text)


def model_out_canon(out):
    t = core.parse_sx(out)
    if isinstance(t, list) and t and t[0] == "prog":
        return exprio.canon_prog(out)
    if isinstance(t, list) and t and t[0] == "res":
        return sx(["res", core.parse_sx(exprio.canon_prog(sx(t[1]))), t[2]])
    return sx(t)


# ------------------------------------------------------------------ graph-theory oracles (plain Python)


def is_connected(n, edges, active):
    vs = [v for v in range(n) if active[v]]
    return exprio.connected(vs, [(u, v) for u, v in edges if active[u] and active[v]])


def is_tree_or_empty(n, edges, active):
    vs = [v for v in range(n) if active[v]]
    if not vs:
        return True
    es = [(u, v) for u, v in edges if active[u] and active[v]]
    return exprio.connected(vs, es) and len(es) == len(vs) - 1


def edges_acyclic(n, edges, act):
    p = list(range(n))

    def f(x):
        while p[x] != x:
            p[x] = p[p[x]]
            x = p[x]
        return x
    for k, (u, v) in enumerate(edges):
        if act[k]:
            if f(u) == f(v):
                return False
            p[f(u)] = f(v)
    return True


def all_patterns(n):
    return itertools.product([False, True], repeat=n)


# ------------------------------------------------------------------ semantic search on the REAL code


def reversed_specials():
    """Small graphs whose edges are stored high-to-low or in mixed orientation (`add_edge(2, 1)`): code that
    canonicalises an edge by `i < j` on the STORED pair silently skips these."""
    return [(2, [(1, 0)]), (3, [(1, 0), (2, 1)]), (3, [(0, 1), (2, 1)]), (4, [(0, 1), (2, 1), (3, 2)]), (4, [(1, 0), (2, 1), (3, 2)]),
            (3, [(1, 0), (2, 1), (0, 2)]), (4, [(1, 0), (2, 0), (3, 0)]), (4, [(1, 0), (2, 1), (3, 2), (0, 3)]),
            (4, [(3, 2), (1, 0)])]


def small_graphs(rng, count, nmax=5, allow_parallel=True):
    """Deterministic family of small graphs: special shapes first, then random ones."""
    out = [(1, []), (2, []), (2, [(0, 1)]), (2, [(0, 1), (1, 0)]), (3, [(0, 1), (1, 2)]), (3, [(0, 1), (1, 2), (2, 0)]),
           (3, [(0, 1)]), (4, [(0, 1), (2, 3)]), (4, [(0, 1), (1, 2), (2, 3), (3, 0)]), (4, [(0, 1), (0, 2), (0, 3)]),
           (4, [(0, 1), (1, 2), (2, 3), (3, 0), (0, 2)]), (5, [(0, 1), (1, 2), (2, 3), (3, 4)]),
           (5, [(0, 1), (1, 2), (2, 0), (3, 4)]), (4, [(1, 0), (1, 2), (2, 1), (3, 2)]),
           (5, [(0, 1), (1, 2), (2, 3), (3, 4), (4, 0)]), (5, [(0, 1), (0, 2), (0, 3), (0, 4), (1, 2), (3, 4)]),
           (4, [(i, j) for i in range(4) for j in range(i + 1, 4)]), (5, [(i, j) for i in range(5) for j in range(i + 1, 5)]),
           (5, [(0, 1), (1, 2), (2, 3), (3, 4), (0, 2), (1, 3)]), (3, [(0, 1), (0, 1), (1, 2)]),
           (5, [(0, 1), (0, 1), (2, 3), (3, 4), (4, 2)]), (4, [(0, 1), (1, 0), (2, 3), (3, 2)]),
           (4, [(0, 1), (1, 2), (2, 0)]), (5, [(0, 1), (1, 2), (2, 3), (3, 0), (0, 1)])]
    if not allow_parallel:
        out = [(n, es) for n, es in out if len({frozenset(e) for e in es}) == len(es)]
    while len(out) < count:
        out.append(rand_graph(rng, nmax, allow_parallel=allow_parallel))
    return out[:count]


def real_program(call_builder, timeout=30):
    """call_builder(solver) -> callable.  Runs the real generator on a real Solver; returns
    (decls, constraints, base, result) parsed, or raises."""
    from cspuz import Solver
    s = Solver()
    call = call_builder(s)
    base = len(s.variables)
    cbase = len(s.constraints)
    res = core.with_timeout(timeout, call)
    decls, cs = exprio.parse_prog(exprio.pprog(s, base, cbase))
    return decls, cs, base, res


# ------------------------------------------------------------------ targeted patterns for medium / large instances
#
# On a graph with hundreds of vertices the searches cannot enumerate; they decide a few dozen patterns chosen so that every kind of
# verdict occurs at BOTH ends of the index range (the expected verdict always comes from the plain-Python oracle, never from the
# name of the pattern).


def vertex_patterns(n, edges):
    """[(name, [bool] * n)]: activity patterns."""
    mid = n // 2
    win = range(250, 263) if n > 263 else range(max(0, mid - 6), min(n, mid + 7))
    sets = [("none", set()), ("all", set(range(n))), ("top3", set(range(n - 3, n))), ("top8", set(range(max(0, n - 8), n))),
            ("low3", set(range(min(3, n)))), ("low3+top3", set(range(min(3, n))) | set(range(n - 3, n))), ("ends", {0, n - 1}),
            ("last-only", {n - 1}), ("window", set(win)), ("upper-half", set(range(mid, n))),
            ("all-but-middle", set(range(n)) - {mid}), ("all-but-last", set(range(n - 1))),
            ("top-path", set(range(max(0, n - 9), max(0, n - 3)))), ("33..36", set(range(33, 37)) if n > 37 else {0})]
    return [(name, [v in s for v in range(n)]) for name, s in sets]


def independent_patterns(n, edges):
    """[(name, [bool] * n)]: mostly independent vertex sets (for not_adjacent / not_segmenting): single vertices at both ends, cut
    vertices, two adjacent high vertices, a greedy maximal independent set taken from the top."""
    adj = {v: set() for v in range(n)}
    for a, b in edges:
        adj[a].add(b)
        adj[b].add(a)
    greedy, blocked = set(), set()
    for v in range(n - 1, -1, -1):
        if v not in blocked:
            greedy.add(v)
            blocked |= adj[v]
    hi_edge = max(edges, key=lambda e: (min(e), max(e))) if edges else None
    sets = [("none", set()), ("last", {n - 1}), ("first", {0}), ("n-2", {n - 2}), ("n-4", {max(0, n - 4)}), ("n-9", {max(0, n - 9)}),
            ("n-1,n-3", {n - 1, max(0, n - 3)}), ("ends", {0, n - 1}), ("middle", {n // 2}), ("greedy-independent", greedy),
            ("high-edge", set(hi_edge) if hi_edge else set()), ("n-7,n-5", {max(0, n - 7), max(0, n - 5)}),
            ("n-12,n-8,1", {max(0, n - 12), max(0, n - 8), min(1, n - 1)})]
    return [(name, [v in s for v in range(n)]) for name, s in sets]


def edge_patterns(n, edges):
    """[(name, [bool] * m)]: edge-flag patterns: edges induced by a few vertex sets (triangles at both ends, both at once, a
    triangle minus one edge), a maximal spanning forest, the forest plus one more edge, a pair of parallel edges, everything, nothing."""
    m = len(edges)

    def induced(vs):
        return [a in vs and b in vs for a, b in edges]
    top3, low3 = set(range(n - 3, n)), set(range(min(3, n)))
    out = [("none", [False] * m), ("all", [True] * m), ("top3", induced(top3)), ("low3", induced(low3)),
           ("low3+top3", induced(top3 | low3)), ("33..36", induced(set(range(33, 37)))),
           ("low3+33..36", induced(low3 | set(range(33, 37)))), ("33..36+top3", induced(top3 | set(range(33, 37)))),
           ("top8", induced(set(range(max(0, n - 8), n))))]
    t = induced(top3)
    if any(t):
        t2 = list(t)
        t2[t.index(True)] = False
        out.append(("top3-minus-one-edge", t2))
        k = max(i for i in range(m) if t[i])
        t3 = list(t)
        t3[k] = False
        out.append(("top3-minus-last-edge", t3))
    p = list(range(n))

    def find(x):
        while p[x] != x:
            p[x] = p[p[x]]
            x = p[x]
        return x
    forest, rest = [False] * m, []
    for k in sorted(range(m), key=lambda k: -max(edges[k])):      # from the top of the index range down
        a, b = edges[k]
        if find(a) != find(b):
            p[find(a)] = find(b)
            forest[k] = True
        else:
            rest.append(k)
    out.append(("spanning-forest", forest))
    for k in rest[:2] + rest[-1:]:
        f2 = list(forest)
        f2[k] = True
        out.append(("forest+edge%d" % k, f2))
    seen = {}
    for k, (a, b) in enumerate(edges):
        key = (min(a, b), max(a, b))
        if key in seen:
            out.append(("parallel-pair", [i in (k, seen[key]) for i in range(m)]))
            break
        seen[key] = k
    return out


def winding_regions(h, w):
    """[(name, set of (y, x))]: long winding connected regions of an h x w board: row serpentine, column serpentine, spiral (all
    trees whose in-region radius exceeds the board's diameter on boards from about 5x6), each also cut in the middle (two pieces) and
    with one extra cell that closes a cycle."""
    out = []

    def serp(hh, ww, tr):
        cells, order = set(), []
        for y in range(0, hh, 2):
            row = [(y, x) for x in range(ww)]
            if (y // 2) % 2:
                row.reverse()
            order += row
            if y + 2 < hh:
                order.append((y + 1, row[-1][1]))
        order = [(x, y) for y, x in order] if tr else order
        return order
    out.append(("row-serpentine", serp(h, w, False)))
    out.append(("column-serpentine", serp(w, h, True)))
    # spiral with one-cell walls
    seen, order = set(), []
    y, x, d = 0, 0, 0
    dirs = ((0, 1), (1, 0), (0, -1), (-1, 0))
    seen.add((0, 0))
    order.append((0, 0))
    turns = 0
    while turns < 2:
        dy, dx = dirs[d]
        ny, nx = y + dy, x + dx
        ok = 0 <= ny < h and 0 <= nx < w and (ny, nx) not in seen
        if ok:
            # keep a wall: no already visited cell next to the new cell except the one we come from
            for ay, ax in dirs:
                c = (ny + ay, nx + ax)
                if c in seen and c != (y, x):
                    ok = False
        if ok:
            y, x = ny, nx
            seen.add((y, x))
            order.append((y, x))
            turns = 0
        else:
            d = (d + 1) % 4
            turns += 1
    out.append(("spiral", order))
    res = []
    for name, order in out:
        cells = set(order)
        res.append((name, cells))
        if len(order) >= 5:
            res.append((name + ":cut-in-the-middle", cells - {order[len(order) // 2]}))
            res.append((name + ":cut-near-the-end", cells - {order[-3]}))
        # close a cycle: a free cell with exactly two region neighbours (not adjacent in the chain)
        for yy in range(h):
            for xx in range(w):
                if (yy, xx) not in cells and sum(((yy + a, xx + b) in cells) for a, b in dirs) == 2:
                    res.append((name + ":plus-cycle-cell", cells | {(yy, xx)}))
                    break
            else:
                continue
            break
    return res


# ------------------------------------------------------------------ grid frames: segment order and rectangle patterns


def frame_segments(H, W):
    """Segments of a BoolGridFrame(H, W) in variable order (horizontal (H+1) x W row-major, then vertical H x (W+1)), as pairs of
    lattice points."""
    segs = []
    for y in range(H + 1):
        for x in range(W):
            segs.append(((y, x), (y, x + 1)))
    for y in range(H):
        for x in range(W + 1):
            segs.append(((y, x), (y + 1, x)))
    return segs


def rect_pattern(H, W, rects):
    """Segment flags: XOR of the boundaries of the rectangles (y0, x0, y1, x1) given in lattice coordinates."""
    segs = frame_segments(H, W)
    index = {s: k for k, s in enumerate(segs)}
    act = [False] * len(segs)
    for (y0, x0, y1, x1) in rects:
        for x in range(x0, x1):
            act[index[((y0, x), (y0, x + 1))]] ^= True
            act[index[((y1, x), (y1, x + 1))]] ^= True
        for y in range(y0, y1):
            act[index[((y, x0), (y + 1, x0))]] ^= True
            act[index[((y, x1), (y + 1, x1))]] ^= True
    return act


def frame_loop_patterns(H, W):
    """[(name, flags)] for a frame with H, W >= 3: single small loops in opposite corners and in the middle, the outer boundary, two
    or three vertex-disjoint loops far apart, loops touching in a point, a loop with one segment missing."""
    tl, br = (0, 0, 1, 1), (H - 1, W - 1, H, W)
    cy, cx = H // 2, W // 2
    mid = (cy, cx, cy + 1, cx + 1)
    tr, bl = (0, W - 1, 1, W), (H - 1, 0, H, 1)
    named = [("none", []), ("top-left square", [tl]), ("bottom-right square", [br]), ("outer boundary", [(0, 0, H, W)]),
             ("top-left + bottom-right squares", [tl, br]), ("top-right + bottom-left squares", [tr, bl]),
             ("top-left + middle squares", [tl, mid]), ("middle + bottom-right squares", [mid, br]),
             ("four corner squares", [tl, tr, bl, br]), ("outer boundary + middle square", [(0, 0, H, W), mid]),
             ("two squares touching in a point", [(0, 0, 1, 1), (1, 1, 2, 2)]), ("1x2 rectangle", [(0, 0, 1, 2)]),
             ("bottom rows rectangle", [(H - 2, 0, H, W)]), ("bottom-right 2x2", [(H - 2, W - 2, H, W)]),
             ("top-left 2x2 + bottom-right square", [(0, 0, 2, 2), br])]
    out = [(name, rect_pattern(H, W, rects)) for name, rects in named]
    for name, rects in (("bottom-right square minus a segment", [br]), ("outer boundary minus a segment", [(0, 0, H, W)])):
        p = rect_pattern(H, W, rects)
        k = max(i for i in range(len(p)) if p[i])
        p[k] = False
        out.append((name, p))
    return out
