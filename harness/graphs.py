"""Shared helpers for the graph-constraint properties (C04-C10): graph generators, program capture, specs."""
import itertools

from . import core
from .core import sx
from . import exprio


def rand_graph(rng, nmax=6, allow_parallel=True, allow_loops=False, nmin=1):
    n = rng.randint(nmin, nmax)
    kind = rng.random()
    edges = []
    if kind < 0.15:      # path
        edges = [(i, i + 1) for i in range(n - 1)]
    elif kind < 0.25:    # cycle
        edges = [(i, (i + 1) % n) for i in range(n)] if n >= 3 else [(i, i + 1) for i in range(n - 1)]
    elif kind < 0.33:    # star
        edges = [(0, i) for i in range(1, n)]
    elif kind < 0.40:    # complete
        edges = [(i, j) for i in range(n) for j in range(i + 1, n)]
    else:                # Erdos-Renyi, often with isolated vertices
        p = rng.choice([0.2, 0.35, 0.5, 0.7])
        edges = [(i, j) for i in range(n) for j in range(i + 1, n) if rng.random() < p]
    edges = [(a, b) if rng.random() < 0.5 else (b, a) for a, b in edges]
    rng.shuffle(edges)
    if allow_parallel and edges and rng.random() < 0.3:
        for _ in range(rng.randint(1, 2)):
            a, b = rng.choice(edges)
            edges.insert(rng.randint(0, len(edges)), (b, a) if rng.random() < 0.5 else (a, b))
    if allow_loops and rng.random() < 0.1:
        v = rng.randrange(n)
        edges.insert(rng.randint(0, len(edges)), (v, v))
    return n, edges


def mk_graph(n, edges):
    """The Graph object for (n, edges).  For about a third of the graphs the object is OBSERVED half-way through its
    construction (every public accessor is read, the line graph is taken) before the remaining edges are added: reading a
    graph must not freeze or alias anything, `add_edge` afterwards must still count."""
    from cspuz.graph import Graph
    g = Graph(n)
    observe_at = len(edges) // 2 if (len(edges) >= 2 and (n + 3 * len(edges)) % 3 == 1) else None
    for k, (a, b) in enumerate(edges):
        if k == observe_at:
            _ = [list(x) for x in g.incident_edges]
            _ = (len(g), list(g), g[0], g.num_vertices, list(g.edges))
            _ = g.line_graph()
        g.add_edge(a, b)
    return g


def grid_edges(h, w):
    es = []
    for y in range(h):
        for x in range(w):
            if x < w - 1:
                es.append((y * w + x, y * w + x + 1))
            if y < h - 1:
                es.append((y * w + x, (y + 1) * w + x))
    return es


def bool_forms(rng, solver, nvars_bool, nvars_int, n, allow_const=True, plain=False):
    """n boolean items built from the solver's first variables: variables, negations, compound expressions, constants.
    Returns the list of python objects."""
    from cspuz.expr import BoolVar
    bs = [v for v in solver.variables if isinstance(v, BoolVar)][:nvars_bool]
    ins = [v for v in solver.variables if not isinstance(v, BoolVar)][:nvars_int]
    out = []
    for k in range(n):
        r = rng.random()
        v = bs[k % len(bs)] if bs else None
        if plain or r < 0.55 or v is None:
            out.append(v if v is not None else True)
        elif r < 0.68:
            out.append(~v)
        elif r < 0.78:
            out.append(v & rng.choice(bs))
        elif r < 0.84:
            out.append(v | ~rng.choice(bs))
        elif r < 0.90 and ins:
            out.append(rng.choice(ins) >= 1)
        elif allow_const:
            out.append(rng.random() < 0.6)
        else:
            out.append(v)
    return out


def run_real(fn):
    """fn(solver) -> extra result to print.  Returns canonical text."""
    raise NotImplementedError


def capture(build):
    """build(solver) must declare the caller's variables, return (base, callable) -- then the callable is run and
    the emitted fragment printed.  Returns ('ok', progtext, result) or ('err', name)."""
    from cspuz import Solver
    s = Solver()
    try:
        call = build(s)
        base = len(s.variables)
        cbase = len(s.constraints)
        res = core.with_timeout(30, call)      # posting constraints on a small graph takes milliseconds
        return ("ok", exprio.pprog(s, base, cbase), res, s)
    except Exception as e:
        return ("err", core.err_name(e), None, s)


def canon(text):
    return exprio.canon_prog(text)


def model_out_canon(out):
    t = core.parse_sx(out)
    if isinstance(t, list) and t and t[0] == "prog":
        return exprio.canon_prog(out)
    if isinstance(t, list) and t and t[0] == "res":
        return sx(["res", core.parse_sx(exprio.canon_prog(sx(t[1]))), t[2]])
    return sx(t)


# ------------------------------------------------------------------ graph-theory oracles (plain Python)


def is_connected(n, edges, active):
    vs = [v for v in range(n) if active[v]]
    return exprio.connected(vs, [(u, v) for u, v in edges if active[u] and active[v]])


def is_tree_or_empty(n, edges, active):
    vs = [v for v in range(n) if active[v]]
    if not vs:
        return True
    es = [(u, v) for u, v in edges if active[u] and active[v]]
    return exprio.connected(vs, es) and len(es) == len(vs) - 1


def edges_acyclic(n, edges, act):
    p = list(range(n))

    def f(x):
        while p[x] != x:
            p[x] = p[p[x]]
            x = p[x]
        return x
    for k, (u, v) in enumerate(edges):
        if act[k]:
            if f(u) == f(v):
                return False
            p[f(u)] = f(v)
    return True


def all_patterns(n):
    return itertools.product([False, True], repeat=n)


# ------------------------------------------------------------------ semantic search on the REAL code


def reversed_specials():
    """Small graphs whose edges are stored high-to-low or in mixed orientation (`add_edge(2, 1)`): code that
    canonicalises an edge by `i < j` on the STORED pair silently skips these."""
    return [(2, [(1, 0)]), (3, [(1, 0), (2, 1)]), (3, [(0, 1), (2, 1)]), (4, [(0, 1), (2, 1), (3, 2)]), (4, [(1, 0), (2, 1), (3, 2)]),
            (3, [(1, 0), (2, 1), (0, 2)]), (4, [(1, 0), (2, 0), (3, 0)]), (4, [(1, 0), (2, 1), (3, 2), (0, 3)]),
            (4, [(3, 2), (1, 0)])]


def small_graphs(rng, count, nmax=5, allow_parallel=True):
    """Deterministic family of small graphs: special shapes first, then random ones."""
    out = [(1, []), (2, []), (2, [(0, 1)]), (2, [(0, 1), (1, 0)]), (3, [(0, 1), (1, 2)]), (3, [(0, 1), (1, 2), (2, 0)]),
           (3, [(0, 1)]), (4, [(0, 1), (2, 3)]), (4, [(0, 1), (1, 2), (2, 3), (3, 0)]), (4, [(0, 1), (0, 2), (0, 3)]),
           (4, [(0, 1), (1, 2), (2, 3), (3, 0), (0, 2)]), (5, [(0, 1), (1, 2), (2, 3), (3, 4)]),
           (5, [(0, 1), (1, 2), (2, 0), (3, 4)]), (4, [(1, 0), (1, 2), (2, 1), (3, 2)]),
           (5, [(0, 1), (1, 2), (2, 3), (3, 4), (4, 0)]), (5, [(0, 1), (0, 2), (0, 3), (0, 4), (1, 2), (3, 4)]),
           (4, [(i, j) for i in range(4) for j in range(i + 1, 4)]), (5, [(i, j) for i in range(5) for j in range(i + 1, 5)]),
           (5, [(0, 1), (1, 2), (2, 3), (3, 4), (0, 2), (1, 3)]), (3, [(0, 1), (0, 1), (1, 2)]),
           (5, [(0, 1), (0, 1), (2, 3), (3, 4), (4, 2)]), (4, [(0, 1), (1, 0), (2, 3), (3, 2)]),
           (4, [(0, 1), (1, 2), (2, 0)]), (5, [(0, 1), (1, 2), (2, 3), (3, 0), (0, 1)])]
    if not allow_parallel:
        out = [(n, es) for n, es in out if len({frozenset(e) for e in es}) == len(es)]
    while len(out) < count:
        out.append(rand_graph(rng, nmax, allow_parallel=allow_parallel))
    return out[:count]


def real_program(call_builder):
    """call_builder(solver) -> callable.  Runs the real generator on a real Solver; returns
    (decls, constraints, base, result) parsed, or raises."""
    from cspuz import Solver
    s = Solver()
    call = call_builder(s)
    base = len(s.variables)
    cbase = len(s.constraints)
    res = core.with_timeout(30, call)
    decls, cs = exprio.parse_prog(exprio.pprog(s, base, cbase))
    return decls, cs, base, res
