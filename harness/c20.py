"""C20 — the backend and encoding actually used are the ones configured.

gen        : Gen/C20Tables.lean from the LIVE code: `_get_backend_by_name` on names, `_strtobool` on words,
             `_detect_backend()` / `Config()` under all 2^4 module-availability combinations (subprocesses with planted
             `sys.modules` entries) x a grid of environment settings.
correspond : the same functions on the FULL environment grid (+ random strings) against the compiled Lean model, fresh
             subprocess imports on a sample, the real `Solver.find_answer/solve` with every kind of `backend=` argument
             (observed at the external entry points), and every graph function x argument x config flags x acyclic
             (observed on the emitted program).
search     : the rule of the property text written directly in Python vs the real code over the same grids.
"""
import itertools
import json
import os
import subprocess
import sys
import types
import warnings
from concurrent.futures import ThreadPoolExecutor

from . import core, exprio, graphs
from .core import Finding, sx

THEOREMS = ["Cspuz.C20.C20_backend", "Cspuz.C20.C20_default", "Cspuz.C20.C20_flags", "Cspuz.C20.C20_primitive",
            "Cspuz.C20.C20_strtobool", "Cspuz.C20.tables_agree"]

PY = "/venv/bin/python"
MODS = ("cspuz_core", "enigma_csp", "pycsugar", "z3")
NAMES = ["sugar", "sugar_extended", "z3", "csugar", "enigma_csp", "cspuz_core"]
JUNK_NAMES = ["", "auto", "Sugar", "Z3", "sugar ", " z3", "cspuz-core", "enigma", "sugarextended", "SugarBackend",
              "csugar\n", "cspuz_cor\u0435"]
CLASS_OF = {"sugar": "SugarBackend", "sugar_extended": "SugarExtendedBackend", "z3": "Z3Backend",
            "csugar": "CSugarBackend", "enigma_csp": "EnigmaCSPBackend", "cspuz_core": "CspuzCoreBackend"}
BACKEND_ENV = [None, "auto"] + NAMES + ["junk_backend", "", "Auto"]
FLAG_ENV = [None, "true", "1", "False", "0", "yes", ""]
FLAG_CROSS = [("true", "0"), ("0", "1"), ("yes", "true"), ("true", "yes"), ("", "")]
WORDS = ["true", "TRUE", "True", "tRuE", "truE", " true", "true ", "TRUE\n", "yes", "", "１", "1", "0", "01", "00",
         "false", "FALSE", "False", "fAlSe", "falsE", "on", "off", "t", "f", "y", "n", "no", "none", "None", "tru", "truee",
         "ｔｒｕｅ", "falſe", "K", "trüe", "1 ", "+1", "-0", "١", "TʀUE", "true\x00"]
K_BACKEND, K_PATH, K_PRIM, K_DIV = ("CSPUZ_DEFAULT_BACKEND", "CSPUZ_BACKEND_PATH", "CSPUZ_USE_GRAPH_PRIMITIVE",
                                    "CSPUZ_USE_GRAPH_DIVISION_PRIMITIVE")
AVAILS = list(itertools.product([True, False], repeat=4))

WORKER = r'''
import sys, os, json, types
repo = sys.argv[1]
sys.path[0] = repo
MODS = ("cspuz_core", "enigma_csp", "pycsugar", "z3")
def plant(avail):
    for name, ok in zip(MODS, avail):
        sys.modules[name] = types.ModuleType(name) if ok else None
def setenv(env):
    for k in list(os.environ):
        if k.startswith("CSPUZ_"):
            del os.environ[k]
    for k, v in env.items():
        if v is not None:
            os.environ[k] = v
def snapshot(c):
    if type(c.use_graph_primitive) is not bool or type(c.use_graph_division_primitive) is not bool:
        return {"err": "NonBoolFlag"}
    if not isinstance(c.default_backend, str) or not (c.backend_path is None or isinstance(c.backend_path, str)):
        return {"err": "NonStrAttr"}
    if c.solver_timeout is not None:
        return {"err": "TimeoutSet"}
    return {"ok": [c.default_backend, c.backend_path, c.use_graph_primitive, c.use_graph_division_primitive]}
req = json.load(sys.stdin)
if req["mode"] == "fresh":
    plant(req["avail"]); setenv(req["env"])
    try:
        import cspuz.configuration as C
        out = snapshot(C.config)
        out["file"] = C.__file__
        import cspuz
        out["same"] = cspuz.config is C.config
    except Exception as e:
        out = {"err": type(e).__name__}
    print(json.dumps(out))
else:
    plant(req["avail"]); setenv({})
    import cspuz.configuration as C
    res = []
    for j in req["jobs"]:
        plant(req["avail"]); setenv(j["env"])
        try:
            r = snapshot(C.Config(j["infer"]) if j["infer"] is not None else C.Config())
        except Exception as e:
            r = {"err": type(e).__name__}
        res.append(r)
    plant(req["avail"]); setenv({})
    print(json.dumps({"file": C.__file__, "detect": C._detect_backend(), "res": res}))
'''


# ------------------------------------------------------------------ running the real configuration code


def _run_worker(req):
    p = subprocess.run([PY, "-c", WORKER, core.REPO], input=json.dumps(req), stdout=subprocess.PIPE,
                       stderr=subprocess.PIPE, text=True, timeout=600)
    if p.returncode != 0:
        raise RuntimeError("worker failed: " + p.stderr[-1500:])
    out = json.loads(p.stdout.strip().split("\n")[-1])
    f = out.get("file")
    if f is not None and not os.path.abspath(f).startswith(os.path.abspath(core.REPO) + os.sep):
        raise RuntimeError(f"worker imported cspuz from {f}, not from {core.REPO}")
    return out


def _env(b, path, p, d):
    return {K_BACKEND: b, K_PATH: path, K_PRIM: p, K_DIV: d}


def batch(jobs_by_avail):
    """jobs_by_avail: {avail tuple: [ {env, infer} ]} -> {avail: (detect, [result])}; one subprocess per avail."""
    def one(av):
        out = _run_worker({"mode": "batch", "avail": list(av), "jobs": jobs_by_avail[av]})
        return av, (out["detect"], out["res"])
    with ThreadPoolExecutor(max_workers=8) as ex:
        return dict(ex.map(one, list(jobs_by_avail)))


def fresh(av, env):
    return _run_worker({"mode": "fresh", "avail": list(av), "env": env})


def table_jobs():
    """The reduced (one-factor-at-a-time + a few crosses) grid used for the kernel-checked table."""
    pairs = [(p, None) for p in FLAG_ENV] + [(None, d) for d in FLAG_ENV[1:]] + FLAG_CROSS
    jobs = []
    for b in BACKEND_ENV:
        for p, d in pairs:
            jobs.append({"infer": True, "env": _env(b, None, p, d)})
    for path in ("/opt/sugar/bin/sugar", ""):
        jobs.append({"infer": True, "env": _env(None, path, None, None)})
    jobs.append({"infer": False, "env": _env(None, None, None, None)})
    jobs.append({"infer": False, "env": _env("z3", "/x/sugar", "yes", "true")})
    return jobs


def full_jobs():
    jobs = []
    for b in BACKEND_ENV:
        for p in FLAG_ENV:
            for d in FLAG_ENV:
                jobs.append({"infer": True, "env": _env(b, None, p, d)})
                if p in (None, "yes") and d in (None, "1"):
                    jobs.append({"infer": None, "env": _env(b, "/p", p, d)})
                    jobs.append({"infer": False, "env": _env(b, "/p", p, d)})
    return jobs


# ------------------------------------------------------------------ Lean table generation


def lstr(s):
    out = ['"']
    for ch in s:
        o = ord(ch)
        if ch == "\\":
            out.append("\\\\")
        elif ch == '"':
            out.append('\\"')
        elif ch == "\n":
            out.append("\\n")
        elif o < 32 or o == 127:
            out.append("\\x%02x" % o)
        else:
            out.append(ch)
    out.append('"')
    return "".join(out)


def lopt(s):
    return "none" if s is None else "(some " + lstr(s) + ")"


def lbool(b):
    return "true" if b else "false"


def lavail(av):
    return "⟨" + ", ".join(lbool(x) for x in av) + "⟩"


def lcfg(r):
    if "err" in r:
        return "(.error " + lstr(r["err"]) + ")"
    db, path, a, b = r["ok"]
    return "(.ok ⟨" + ", ".join([lstr(db), lopt(path), lbool(a), lbool(b)]) + "⟩)"


def _real_by_name(name):
    from cspuz import solver
    try:
        c = solver._get_backend_by_name(name)
        return ("ok", c.__name__)
    except Exception as e:
        return ("err", core.err_name(e))


def _real_strtobool(w):
    from cspuz import configuration
    try:
        r = configuration._strtobool(w)
        if type(r) is not bool:
            return ("err", "NonBool")
        return ("ok", r)
    except Exception as e:
        return ("err", core.err_name(e))


def _check_repo_module(mod):
    f = os.path.abspath(mod.__file__)
    if not f.startswith(os.path.abspath(core.REPO) + os.sep):
        raise RuntimeError(f"{mod.__name__} was imported from {f}, not from {core.REPO}")


def gen(ctx):
    import cspuz.solver
    import cspuz.configuration
    _check_repo_module(cspuz.solver)
    _check_repo_module(cspuz.configuration)
    L = []
    L.append("/-  GENERATED by harness/c20.py::gen from the live /repo modules on every run of ./check C20.  Do not edit. -/")
    L.append("import CspuzModel.Model.Config")
    L.append("namespace Cspuz.Gen.C20")
    L.append("open Cspuz")
    L.append("")
    L.append("/-- `_get_backend_by_name(name)`: the name of the returned class, or the exception raised. -/")
    L.append("def dispatchTable : List (String × Except String String) := [")
    rows = []
    for nm in sorted(NAMES + JUNK_NAMES):
        k, v = _real_by_name(nm)
        rows.append("  (" + lstr(nm) + ", " + (".ok " if k == "ok" else ".error ") + lstr(v) + ")")
    L.append(",\n".join(rows) + "]")
    L.append("")
    L.append("/-- `_strtobool(word)`. -/")
    L.append("def strtoboolTable : List (String × Except String Bool) := [")
    rows = []
    for w in sorted(set(WORDS)):
        k, v = _real_strtobool(w)
        rows.append("  (" + lstr(w) + ", " + (".ok " + lbool(v) if k == "ok" else ".error " + lstr(v)) + ")")
    L.append(",\n".join(rows) + "]")
    L.append("")
    jobs = table_jobs()
    res = batch({av: jobs for av in AVAILS})
    L.append("/-- `_detect_backend()` with (cspuz_core, enigma_csp, pycsugar, z3) importable or not. -/")
    L.append("def detectTable : List (Avail × String) := [")
    L.append(",\n".join("  (" + lavail(av) + ", " + lstr(res[av][0]) + ")" for av in AVAILS) + "]")
    L.append("")
    names = []
    for i, av in enumerate(AVAILS):
        nm = f"configTable{i}"
        names.append(nm)
        L.append(f"/-- `Config(infer_from_env)` with availability {dict(zip(MODS, av))}. -/")
        L.append(f"def {nm} : List ConfigRow := [")
        rows = []
        for j, r in zip(jobs, res[av][1]):
            e = j["env"]
            rows.append("  ⟨" + ", ".join([lbool(j["infer"]), lavail(av), lopt(e[K_BACKEND]), lopt(e[K_PATH]),
                                           lopt(e[K_PRIM]), lopt(e[K_DIV]), lcfg(r)]) + "⟩")
        L.append(",\n".join(rows) + "]")
        L.append("")
    L.append("def configTables : List (List ConfigRow) := [" + ", ".join(names) + "]")
    L.append("")
    L.append("end Cspuz.Gen.C20")
    new = "\n".join(L) + "\n"
    path = os.path.join(core.LEAN, "CspuzModel", "Gen", "C20Tables.lean")
    os.makedirs(os.path.dirname(path), exist_ok=True)
    if not os.path.exists(path) or open(path, encoding="utf-8").read() != new:
        with open(path, "w", encoding="utf-8") as f:
            f.write(new)
    ctx.extra["gen"] = (f"Gen/C20Tables.lean: {len(NAMES + JUNK_NAMES)} dispatch rows, {len(set(WORDS))} _strtobool rows, "
                        f"16 detection rows, {16 * len(jobs)} Config() rows (16 subprocesses with planted sys.modules)")
