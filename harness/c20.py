"""C20 — the backend and encoding actually used are the ones configured.

gen        : Gen/C20Tables.lean from the LIVE code: `_get_backend_by_name` on names, `_strtobool` on words,
             `_detect_backend()` / `Config()` under all 2^4 module-availability combinations (subprocesses with planted
             `sys.modules` entries) x a grid of environment settings.
correspond : the same functions on the FULL environment grid (+ random strings) against the compiled Lean model, fresh
             subprocess imports on a sample, the real `Solver.find_answer/solve` with every kind of `backend=` argument
             (observed at the external entry points), and every graph function x argument x config flags x acyclic
             (observed on the emitted program).
search     : the rule of the property text written directly in Python vs the real code over the same grids.
"""
import itertools
import json
import os
import subprocess
import sys
import types
import warnings
from concurrent.futures import ThreadPoolExecutor

from . import core, exprio, graphs
from .core import Finding, sx

THEOREMS = ["Cspuz.C20.C20_backend", "Cspuz.C20.C20_default", "Cspuz.C20.C20_flags", "Cspuz.C20.C20_primitive",
            "Cspuz.C20.C20_strtobool", "Cspuz.C20.tables_agree"]

PY = "/venv/bin/python"
MODS = ("cspuz_core", "enigma_csp", "pycsugar", "z3")
NAMES = ["sugar", "sugar_extended", "z3", "csugar", "enigma_csp", "cspuz_core"]
JUNK_NAMES = ["", "auto", "Sugar", "Z3", "sugar ", " z3", "cspuz-core", "enigma", "sugarextended", "SugarBackend",
              "csugar\n", "cspuz_cor\u0435"]
CLASS_OF = {"sugar": "SugarBackend", "sugar_extended": "SugarExtendedBackend", "z3": "Z3Backend",
            "csugar": "CSugarBackend", "enigma_csp": "EnigmaCSPBackend", "cspuz_core": "CspuzCoreBackend"}
BACKEND_ENV = [None, "auto"] + NAMES + ["junk_backend", "", "Auto"]
FLAG_ENV = [None, "true", "1", "False", "0", "yes", ""]
FLAG_CROSS = [("true", "0"), ("0", "1"), ("yes", "true"), ("true", "yes"), ("", "")]
WORDS = ["true", "TRUE", "True", "tRuE", "truE", " true", "true ", "TRUE\n", "yes", "", "１", "1", "0", "01", "00",
         "false", "FALSE", "False", "fAlSe", "falsE", "on", "off", "t", "f", "y", "n", "no", "none", "None", "tru", "truee",
         "ｔｒｕｅ", "falſe", "K", "trüe", "1 ", "+1", "-0", "١", "TʀUE", "true\x00"]
K_BACKEND, K_PATH, K_PRIM, K_DIV = ("CSPUZ_DEFAULT_BACKEND", "CSPUZ_BACKEND_PATH", "CSPUZ_USE_GRAPH_PRIMITIVE",
                                    "CSPUZ_USE_GRAPH_DIVISION_PRIMITIVE")
AVAILS = list(itertools.product([True, False], repeat=4))

WORKER = r'''
import sys, os, json, types
repo = sys.argv[1]
sys.path[0] = repo
MODS = ("cspuz_core", "enigma_csp", "pycsugar", "z3")
_planted = {}
def plant(avail):
    """Availability is emulated with real files: an importable module is an (empty) file in a scratch directory on
    sys.path, an unavailable one is nowhere (site-packages is taken off sys.path, so an installed z3 does not count),
    and a "broken" one is a file whose import raises ImportError (present but not importable)."""
    import importlib, tempfile
    key = json.dumps(avail)
    if _planted.get("key") != key:
        d = tempfile.mkdtemp(prefix="c20mods_")
        for name, ok in zip(MODS, avail):
            if ok is True:
                open(os.path.join(d, name + ".py"), "w").write("")
            elif ok == "broken":
                open(os.path.join(d, name + ".py"), "w").write("raise ImportError('present but broken')\n")
        sys.path[:] = [repo, d] + [p for p in sys.path if p not in (repo, _planted.get("dir"))
                                   and "site-packages" not in p and "dist-packages" not in p and p != ""]
        if _planted.get("dir"):
            import shutil; shutil.rmtree(_planted["dir"], ignore_errors=True)
        _planted["key"], _planted["dir"] = key, d
        import atexit, shutil
        atexit.register(lambda d=d: shutil.rmtree(d, ignore_errors=True))
    for name in MODS:
        sys.modules.pop(name, None)
    importlib.invalidate_caches()
def setenv(env):
    for k in list(os.environ):
        if k.startswith("CSPUZ_"):
            del os.environ[k]
    for k, v in env.items():
        if v is not None:
            os.environ[k] = v
def snapshot(c):
    if type(c.use_graph_primitive) is not bool or type(c.use_graph_division_primitive) is not bool:
        return {"err": "NonBoolFlag"}
    if not isinstance(c.default_backend, str) or not (c.backend_path is None or isinstance(c.backend_path, str)):
        return {"err": "NonStrAttr"}
    if c.solver_timeout is not None:
        return {"err": "TimeoutSet"}
    return {"ok": [c.default_backend, c.backend_path, c.use_graph_primitive, c.use_graph_division_primitive]}
req = json.load(sys.stdin)
if req["mode"] == "fresh":
    plant(req["avail"]); setenv(req["env"])
    try:
        import cspuz.configuration as C
        out = snapshot(C.config)
        out["file"] = C.__file__
        import cspuz
        out["same"] = cspuz.config is C.config
    except Exception as e:
        out = {"err": type(e).__name__}
    print(json.dumps(out))
else:
    plant(req["avail"]); setenv({})
    import cspuz.configuration as C
    res = []
    for j in req["jobs"]:
        plant(req["avail"]); setenv(j["env"])
        try:
            r = snapshot(C.Config(j["infer"]) if j["infer"] is not None else C.Config())
        except Exception as e:
            r = {"err": type(e).__name__}
        res.append(r)
    plant(req["avail"]); setenv({})
    print(json.dumps({"file": C.__file__, "detect": C._detect_backend(), "res": res}))
'''


# ------------------------------------------------------------------ running the real configuration code


def _run_worker(req):
    p = subprocess.run([PY, "-c", WORKER, core.REPO], input=json.dumps(req), stdout=subprocess.PIPE,
                       stderr=subprocess.PIPE, text=True, timeout=600)
    if p.returncode != 0:
        raise RuntimeError("worker failed: " + p.stderr[-1500:])
    out = json.loads(p.stdout.strip().split("\n")[-1])
    f = out.get("file")
    if f is not None and not os.path.abspath(f).startswith(os.path.abspath(core.REPO) + os.sep):
        raise RuntimeError(f"worker imported cspuz from {f}, not from {core.REPO}")
    return out


def _env(b, path, p, d):
    return {K_BACKEND: b, K_PATH: path, K_PRIM: p, K_DIV: d}


def batch(jobs_by_avail):
    """jobs_by_avail: {avail tuple: [ {env, infer} ]} -> {avail: (detect, [result])}; one subprocess per avail."""
    def one(av):
        out = _run_worker({"mode": "batch", "avail": list(av), "jobs": jobs_by_avail[av]})
        return av, (out["detect"], out["res"])
    with ThreadPoolExecutor(max_workers=8) as ex:
        return dict(ex.map(one, list(jobs_by_avail)))


def fresh(av, env):
    return _run_worker({"mode": "fresh", "avail": list(av), "env": env})


# "present but not importable" (the module is found on the path, importing it raises ImportError): counts as NOT importable
BROKEN_AVAILS = [("broken", False, False, True), (False, "broken", True, True), (False, False, "broken", True),
                 (False, False, False, "broken"), ("broken", "broken", "broken", "broken"), ("broken", True, False, False)]


def as_bool_avail(av):
    return tuple(x is True for x in av)


FULL_BACKEND_AVAILS = [(True, True, True, True), (False, False, False, False), (False, False, True, True),
                       (False, True, False, True)]


def table_jobs(av):
    """The reduced grid used for the kernel-checked table (string comparison is slow in the Lean kernel): flags vary
    one at a time plus a few crosses; explicit backend names (where the code does not look at module availability) only
    under four availability combinations, unset/"auto" under all sixteen.  correspond() runs the full product."""
    pairs = [(p, None) for p in FLAG_ENV] + [(None, d) for d in FLAG_ENV[1:]] + FLAG_CROSS
    jobs = []
    for b in (BACKEND_ENV if av in FULL_BACKEND_AVAILS else BACKEND_ENV[:2]):
        for p, d in pairs:
            jobs.append({"infer": True, "env": _env(b, None, p, d)})
    for path in ("/opt/sugar/bin/sugar", ""):
        jobs.append({"infer": True, "env": _env(None, path, None, None)})
    jobs.append({"infer": False, "env": _env(None, None, None, None)})
    jobs.append({"infer": False, "env": _env("z3", "/x/sugar", "yes", "true")})
    return jobs


def full_jobs():
    jobs = []
    for b in BACKEND_ENV:
        for p in FLAG_ENV:
            for d in FLAG_ENV:
                jobs.append({"infer": True, "env": _env(b, None, p, d)})
                if p in (None, "yes") and d in (None, "1"):
                    jobs.append({"infer": None, "env": _env(b, "/p", p, d)})
                    jobs.append({"infer": False, "env": _env(b, "/p", p, d)})
    return jobs


# ------------------------------------------------------------------ Lean table generation


def lstr(s):
    out = ['"']
    for ch in s:
        o = ord(ch)
        if ch == "\\":
            out.append("\\\\")
        elif ch == '"':
            out.append('\\"')
        elif ch == "\n":
            out.append("\\n")
        elif o < 32 or o == 127:
            out.append("\\x%02x" % o)
        else:
            out.append(ch)
    out.append('"')
    return "".join(out)


def lopt(s):
    return "none" if s is None else "(some " + lstr(s) + ")"


def lbool(b):
    return "true" if b else "false"


def lavail(av):
    return "⟨" + ", ".join(lbool(x) for x in av) + "⟩"


def lcfg(r):
    if "err" in r:
        return "(.error " + lstr(r["err"]) + ")"
    db, path, a, b = r["ok"]
    return "(.ok ⟨" + ", ".join([lstr(db), lopt(path), lbool(a), lbool(b)]) + "⟩)"


def _real_by_name(name):
    from cspuz import solver
    try:
        c = solver._get_backend_by_name(name)
        return ("ok", c.__name__)
    except Exception as e:
        return ("err", core.err_name(e))


def _real_strtobool(w):
    from cspuz import configuration
    try:
        r = configuration._strtobool(w)
        if type(r) is not bool:
            return ("err", "NonBool")
        return ("ok", r)
    except Exception as e:
        return ("err", core.err_name(e))


def _check_repo_module(mod):
    f = os.path.abspath(mod.__file__)
    if not f.startswith(os.path.abspath(core.REPO) + os.sep):
        raise RuntimeError(f"{mod.__name__} was imported from {f}, not from {core.REPO}")


def gen(ctx):
    import cspuz.solver
    import cspuz.configuration
    _check_repo_module(cspuz.solver)
    _check_repo_module(cspuz.configuration)
    L = []
    L.append("/-  GENERATED by harness/c20.py::gen from the live /repo modules on every run of ./check C20.  Do not edit. -/")
    L.append("import CspuzModel.Model.Config")
    L.append("namespace Cspuz.Gen.C20")
    L.append("open Cspuz")
    L.append("")
    L.append("/-- `_get_backend_by_name(name)`: the name of the returned class, or the exception raised. -/")
    L.append("def dispatchTable : List (String × Except String String) := [")
    rows = []
    for nm in sorted(NAMES + JUNK_NAMES):
        k, v = _real_by_name(nm)
        rows.append("  (" + lstr(nm) + ", " + (".ok " if k == "ok" else ".error ") + lstr(v) + ")")
    L.append(",\n".join(rows) + "]")
    L.append("")
    L.append("/-- `_strtobool(word)`. -/")
    L.append("def strtoboolTable : List (String × Except String Bool) := [")
    rows = []
    for w in sorted(set(WORDS)):
        k, v = _real_strtobool(w)
        rows.append("  (" + lstr(w) + ", " + (".ok " + lbool(v) if k == "ok" else ".error " + lstr(v)) + ")")
    L.append(",\n".join(rows) + "]")
    L.append("")
    jobs_by = {av: table_jobs(av) for av in AVAILS}
    res = batch(jobs_by)
    L.append("/-- `_detect_backend()` with (cspuz_core, enigma_csp, pycsugar, z3) importable or not. -/")
    L.append("def detectTable : List (Avail × String) := [")
    L.append(",\n".join("  (" + lavail(av) + ", " + lstr(res[av][0]) + ")" for av in AVAILS) + "]")
    L.append("")
    names = []
    for i, av in enumerate(AVAILS):
        nm = f"configTable{i}"
        names.append(nm)
        L.append(f"/-- `Config(infer_from_env)` with availability {dict(zip(MODS, av))}. -/")
        L.append(f"def {nm} : List ConfigRow := [")
        rows = []
        for j, r in zip(jobs_by[av], res[av][1]):
            e = j["env"]
            rows.append("  ⟨" + ", ".join([lbool(j["infer"]), lavail(av), lopt(e[K_BACKEND]), lopt(e[K_PATH]),
                                           lopt(e[K_PRIM]), lopt(e[K_DIV]), lcfg(r)]) + "⟩")
        L.append(",\n".join(rows) + "]")
        L.append("")
    L.append("def configTables : List (List ConfigRow) := [" + ", ".join(names) + "]")
    L.append("")
    L.append("end Cspuz.Gen.C20")
    new = "\n".join(L) + "\n"
    path = os.path.join(core.LEAN, "CspuzModel", "Gen", "C20Tables.lean")
    os.makedirs(os.path.dirname(path), exist_ok=True)
    if not os.path.exists(path) or open(path, encoding="utf-8").read() != new:
        with open(path, "w", encoding="utf-8") as f:
            f.write(new)
    ctx.extra["gen"] = (f"Gen/C20Tables.lean: {len(NAMES + JUNK_NAMES)} dispatch rows, {len(set(WORDS))} _strtobool rows, "
                        f"16 detection rows, {sum(len(v) for v in jobs_by.values())} Config() rows (16 subprocesses with planted sys.modules)")


# ------------------------------------------------------------------ wire helpers


def ws(s):
    return "N" if s is None else ["s"] + [ord(c) for c in s]


def rs(t):
    """decode a driver string"""
    if t == "N":
        return None
    assert isinstance(t, list) and t and t[0] == "s", t
    return "".join(chr(int(x)) for x in t[1:])


def _cfg_line(op, j, av):
    e = j["env"]
    infer = True if j["infer"] is None else j["infer"]
    return sx([op, infer, list(av), ws(e[K_BACKEND]), ws(e[K_PATH]), ws(e[K_PRIM]), ws(e[K_DIV])])


def _cfg_canon_real(r):
    if "err" in r:
        return ["err", r["err"]]
    return ["ok"] + list(r["ok"])


def _cfg_canon_model(out):
    t = core.parse_sx(out)
    if t[0] == "err":
        return ["err", t[1]]
    return ["ok", rs(t[1]), rs(t[2]), t[3] == "T", t[4] == "T"]


# ------------------------------------------------------------------ independent oracle (from the property text)


def case_variants(word):
    return {"".join(p) for p in itertools.product(*[(c.lower(), c.upper()) for c in word])}


TRUE_WORDS = case_variants("true") | {"1"}
FALSE_WORDS = case_variants("false") | {"0"}


def oracle_parse(s):
    if s in TRUE_WORDS:
        return True
    if s in FALSE_WORDS:
        return False
    raise ValueError(s)


def oracle_config(av, env, infer):
    """What Config() must be, or ["err","ValueError"]."""
    get = (lambda k: env.get(k)) if infer else (lambda k: None)
    b = get(K_BACKEND)
    if b is None or b == "auto":
        b = "sugar"
        for name, ok in zip(("cspuz_core", "enigma_csp", "csugar", "z3"), av):
            if ok:
                b = name
                break
    try:
        p = oracle_parse(get(K_PRIM)) if get(K_PRIM) is not None else b in ("csugar", "enigma_csp", "cspuz_core")
        d = oracle_parse(get(K_DIV)) if get(K_DIV) is not None else b in ("enigma_csp", "cspuz_core")
    except ValueError:
        return ["err", "ValueError"]
    return ["ok", b, get(K_PATH), p, d]


def oracle_dispatch(arg, default, path):
    """arg: None | ("name", s) | ("cls", k).  Returns (class name, entry) or ("err","ValueError")."""
    if arg is not None and arg[0] == "cls":
        return [f"custom{arg[1]}", ["custom", arg[1]]]
    name = default if arg is None else arg[1]
    if name not in CLASS_OF:
        return ["err", "ValueError"]
    entry = {"sugar": ["subprocess", path or "sugar"], "sugar_extended": ["subprocess", path or "sugar"],
             "z3": "z3", "csugar": ["module", "pycsugar"], "enigma_csp": ["module", "enigma_csp"],
             "cspuz_core": ["module", "cspuz_core"]}[name]
    return [CLASS_OF[name], entry]


def oracle_native(fn, arg, f1, f2, acyclic):
    flag = arg if arg is not None else (f2 if fn == "vgborders" else f1)
    return bool(flag) and not (fn == "avc" and acyclic)


# ------------------------------------------------------------------ real Solver dispatch, observed at the entry points


class _Timeout(Exception):
    pass


class _deadline:
    """Wall-clock guard around a call into the real code (main thread only)."""

    def __init__(self, seconds):
        self.seconds = seconds

    def __enter__(self):
        import signal

        def on_alarm(signum, frame):
            raise _Timeout()
        self.old = signal.signal(signal.SIGALRM, on_alarm)
        signal.setitimer(signal.ITIMER_REAL, self.seconds)

    def __exit__(self, *a):
        import signal
        signal.setitimer(signal.ITIMER_REAL, 0)
        signal.signal(signal.SIGALRM, self.old)
        return False


class _Recorder:
    def __init__(self):
        self.events = []

    def hit(self, entry, depth=2):
        f = sys._getframe(depth)
        who = None
        for _ in range(4):
            if f is None:
                break
            if "self" in f.f_locals and type(f.f_locals["self"]).__module__.startswith("cspuz.backend"):
                who = type(f.f_locals["self"]).__name__
                break
            f = f.f_back
        self.events.append((who, entry))


class _Z3Proxy:
    def __init__(self, real, rec):
        object.__setattr__(self, "_real", real)
        object.__setattr__(self, "_rec", rec)

    def __getattr__(self, name):
        self._rec.hit("z3")
        return getattr(self._real, name)


def real_dispatch(arg, default, path, method):
    """Run the real Solver.<method>(backend=...) with config.default_backend/backend_path assigned; returns
    [class name, entry] or ["err", name]; extra inconsistencies are returned as ["bad", text]."""
    import cspuz
    from cspuz import Solver
    import cspuz.backend.sugar_like as SL
    import cspuz.backend.z3 as Z3M
    import importlib
    cfg = cspuz.config
    rec = _Recorder()
    saved = (cfg.default_backend, cfg.backend_path, SL.run_subprocess, Z3M.z3,
             {m: sys.modules.get(m, "absent") for m in MODS[:3]})

    def fake_run(args, input, timeout=None):
        rec.hit(["subprocess", args[0]] if list(args[1:]) == ["/dev/stdin"] else ["subprocess-odd", list(args)])
        return "s UNSATISFIABLE unsat\n"

    class Mock:
        made = []

        def __init__(self, variables):
            Mock.made.append(len(variables))

        def add_constraint(self, c):
            pass

        def solve(self):
            rec.events.append(("custom1", ["custom", 1]))
            return False

        def solve_irrefutably(self, keys):
            rec.events.append(("custom1", ["custom", 1]))
            return False
    try:
        cfg.default_backend = default
        cfg.backend_path = path
        SL.run_subprocess = fake_run
        Z3M.z3 = _Z3Proxy(importlib.import_module("z3"), rec)
        for m in MODS[:3]:
            mod = types.ModuleType(m)

            def solver(desc, m=m):
                rec.hit(["module", m])
                return "s UNSATISFIABLE unsat\n"
            mod.solver = solver
            sys.modules[m] = mod
        s = Solver()
        x = s.bool_var()
        y = s.int_var(0, 2)
        s.ensure(x.then(y >= 1))
        s.ensure(x, ~x)          # unsatisfiable: every backend answers after one call, no enumeration loop
        s.add_answer_key(x)
        backend = None if arg is None else (arg[1] if arg[0] == "name" else Mock)
        try:
            with warnings.catch_warnings():
                warnings.simplefilter("ignore")
                with _deadline(20):
                    res = getattr(s, method)(backend=backend)
            if res is not False:
                return ["bad", f"unsatisfiable problem reported as {res!r}"]
        except _Timeout:
            return ["bad", f"no answer within 20 s; entry points so far {rec.events[:3]}"]
        except Exception as e:
            if rec.events:
                return ["bad", f"{core.err_name(e)} after entry points {rec.events[:3]}"]
            return ["err", core.err_name(e)]
        kinds = {(w, json.dumps(e)) for w, e in rec.events}
        if len(kinds) != 1:
            return ["bad", f"entry points touched: {sorted(kinds)}"]
        w, e = rec.events[0]
        if backend is Mock and len(Mock.made) != 1:
            return ["bad", f"mock class instantiated {len(Mock.made)} times"]
        return [w, e]
    finally:
        cfg.default_backend, cfg.backend_path, SL.run_subprocess, Z3M.z3 = saved[0], saved[1], saved[2], saved[3]
        for m, v in saved[4].items():
            if v == "absent":
                sys.modules.pop(m, None)
            else:
                sys.modules[m] = v


def _dispatch_model_canon(out):
    t = core.parse_sx(out)
    if t[0] == "err":
        return ["err", t[1]]
    e = t[1]
    if isinstance(e, list):
        e = [e[0], rs(e[1])] if e[0] in ("subprocess", "module") else [e[0], int(e[1])]
    return [rs(t[0]), e]


DEFAULTS = NAMES + ["auto", "junk_backend", ""]
ARGS = [None] + [("name", n) for n in NAMES] + [("name", "auto"), ("name", "Sugar"), ("name", ""), ("cls", 1)]
PATHS = [None, "", "/fake/bin/sugar"]


def dispatch_cases(rng, count):
    cases = [(a, d, p, m) for d in DEFAULTS for a in ARGS for p in PATHS for m in ("find_answer", "solve")]
    rng.shuffle(cases)
    return cases if count is None else cases[:count]


# ------------------------------------------------------------------ real graph functions, observed on the emitted program


GRAPH_VARIANTS = [
    # (variant, model fn, takes argument, has acyclic)
    ("_avc", "avc", True, True), ("avc_public", "avc", True, True), ("avc_2d", "avc", True, True),
    ("nseg_graph", "avc", False, False), ("nseg_1xn", "avc", False, False),
    ("_divconn", "divconn", True, False), ("divconn_public", "divconn", False, False),
    ("_cycle", "cycle", True, False), ("cycle_public", "cycle", True, False), ("cycle_frame", "cycle", True, False),
    ("_path", "path", True, False), ("path_public", "path", True, False),
    ("_vgborders", "vgborders", True, False), ("vgborders_public", "vgborders", True, False),
]


def real_graph(variant, arg, f1, f2, acyclic, seed):
    """Calls the real function with config flags (f1, f2) assigned; returns ("ok", progtext) or ("err", name)."""
    import random
    import cspuz
    from cspuz import graph as G
    from cspuz.array import BoolArray1D, BoolArray2D, IntArray1D
    from cspuz.grid_frame import BoolGridFrame
    rng = random.Random(seed)
    n, edges = graphs.rand_graph(rng, 5, allow_loops=False)
    m = len(edges)
    mk = graphs.mk_graph(n, edges)
    cfg = cspuz.config
    saved = (cfg.use_graph_primitive, cfg.use_graph_division_primitive)
    kw = {} if arg == "omit" else {"use_graph_primitive": arg}

    def build(s):
        bs = [s.bool_var() for _ in range(max(4, n, m))]
        ints = [s.int_var(0, 2) for _ in range(max(1, n))]
        if variant == "_avc":
            return lambda: G._active_vertices_connected(s, bs[:n], mk, acyclic=acyclic, **kw)
        if variant == "avc_public":
            return lambda: G.active_vertices_connected(s, bs[:n], mk, acyclic=acyclic, **kw)
        if variant == "avc_2d":
            return lambda: G.active_vertices_connected(s, BoolArray2D(bs[:2] * 2, (2, 2)), acyclic=acyclic, **kw)
        if variant == "nseg_graph":
            return lambda: G.active_vertices_not_adjacent_and_not_segmenting(s, BoolArray1D(bs[:n]), mk)
        if variant == "nseg_1xn":
            return lambda: G.active_vertices_not_adjacent_and_not_segmenting(s, BoolArray2D(bs[:1] * 3, (1, 3)))
        if variant == "_divconn":
            return lambda: G._division_connected(s, IntArray1D(ints[:n]), 2, mk, **kw)
        if variant == "divconn_public":
            return lambda: G.division_connected(s, IntArray1D(ints[:n]), 2, mk)
        if variant == "_cycle":
            return lambda: G._active_edges_single_cycle(s, bs[:m], mk, **kw)
        if variant == "cycle_public":
            return lambda: G.active_edges_single_cycle(s, bs[:m], mk, **kw)
        if variant == "cycle_frame":
            return lambda: G.active_edges_single_cycle(s, BoolGridFrame(s, 1, 2), **kw)
        if variant == "_path":
            return lambda: G._active_edges_single_path(s, bs[:m], mk, **kw)
        if variant == "path_public":
            return lambda: G.active_edges_single_path(s, bs[:m], mk, **kw)
        if variant == "_vgborders":
            return lambda: G._division_connected_variable_groups_with_borders(
                s, mk, [None] * n, bs[:m], arg if arg != "omit" else None)
        if variant == "vgborders_public":
            return lambda: G.division_connected_variable_groups_with_borders(
                s, group_size=[None] * n, is_border=bs[:m], graph=mk, **kw)
        raise KeyError(variant)
    try:
        cfg.use_graph_primitive, cfg.use_graph_division_primitive = f1, f2
        with _deadline(20):
            r = graphs.capture(build)
    finally:
        cfg.use_graph_primitive, cfg.use_graph_division_primitive = saved
    if r[0] == "err":
        return ("err", r[1])
    return ("ok", r[1])


def text_has_native(progtext):
    return ("(graph_active_vertices_connected " in progtext) or ("(graph_division " in progtext)


def graph_cases(nseeds):
    out = []
    for variant, fn, takes, has_ac in GRAPH_VARIANTS:
        for arg in ((None, True, False, "omit") if takes else ("omit",)):
            for f1 in (True, False):
                for f2 in (True, False):
                    for ac in ((False, True) if has_ac else (False,)):
                        for seed in range(nseeds):
                            out.append((variant, fn, arg, f1, f2, ac, seed))
    return out


def expected_graph(fn, native):
    """What the call must do given the resolved route: single_path has only the native route."""
    if fn == "path" and not native:
        return ("err", "RuntimeError")
    return ("ok", native)


# ------------------------------------------------------------------ correspondence


def _unicode_lower_check():
    """No non-ASCII character lower-cases to something containing a letter/digit of the four accepted words, so ASCII
    case folding decides `_strtobool` exactly.  Returns the offending code points."""
    need = set("truefals10")
    bad = []
    for cp in range(128, 0x110000):
        lo = chr(cp).lower()
        if not lo or (set(lo) & need):
            bad.append(cp)
    return bad


def _rand_word(rng):
    r = rng.random()
    if r < 0.35:
        w = rng.choice(["true", "false"])
        return "".join(c.upper() if rng.random() < 0.5 else c for c in w)
    if r < 0.5:
        w = rng.choice(sorted(TRUE_WORDS | FALSE_WORDS))
        k = rng.randrange(len(w) + 1)
        return w[:k] + rng.choice([" ", "\t", "e", "1", "0", "\n", "é", "T"]) + w[k + (rng.random() < 0.5):]
    if r < 0.8:
        return "".join(rng.choice("truefalsTRUEFALS10 yYnNoO") for _ in range(rng.randint(0, 6)))
    return "".join(chr(rng.choice([rng.randrange(32, 127), rng.randrange(128, 0x3000), rng.randrange(0x10000, 0x10400)]))
                   for _ in range(rng.randint(1, 5)))


def correspond(ctx):
    rng = ctx.rng
    drv = core.Driver()
    ctx.extra["rule"] = (
        "strings: fixed word list + seeded random case variants / near misses / Unicode; Config(): all 16 availability "
        "combinations x {unset, auto, six names, junk, '', 'Auto'} x 7x7 flag values (+ backend_path, infer_from_env "
        "variants, random words) run in subprocesses with planted sys.modules, plus true fresh-import subprocesses on a "
        "seeded sample; Solver.find_answer/solve with backend= None/name/junk/mock class under assigned "
        "config.default_backend/backend_path, observed at run_subprocess / fake module .solver / z3 proxy; every graph "
        "function (private and public forms) x argument {omitted, None, True, False} x both config flags x acyclic on "
        "random graphs, observed on the emitted program. Compared with the Lean model through the driver. Non-trivial = "
        "distinct input tuple whose outcome is not an exception")
    ctx.extra["trusted_base"] = TRUSTED
    ctx.extra["assumptions"] = ASSUMPTIONS

    # -- A. strings
    bad = _unicode_lower_check()
    ctx.count("unicode-codepoints-checked", 0x110000 - 128)
    if bad:
        ctx.disagree("unicode-lower", codepoints=bad[:20],
                     what="a non-ASCII character lower-cases into the alphabet of true/false/1/0: ASCII folding is not exact")
    words = sorted(set(WORDS + NAMES + JUNK_NAMES)) + [_rand_word(rng) for _ in range(ctx.n(1500, 20000))]
    lines = []
    for w in words:
        lines += [sx(["c20_strtobool", ws(w)]), sx(["c20_parsebool", ws(w)]), sx(["c20_byname", ws(w)])]
    outs = drv.run(lines)
    for i, w in enumerate(words):
        k, v = _real_strtobool(w)
        real = ["err", v] if k == "err" else v
        m1, m2, m3 = (core.parse_sx(o) for o in outs[3 * i:3 * i + 3])
        canon = lambda t: t if isinstance(t, list) else (t == "T")
        ctx.count("strtobool:" + ("err" if k == "err" else str(v)))
        ctx.case({"_strtobool": w, "real": real}, ("w", w) if k == "ok" else None)
        if canon(m1) != real or canon(m2) != real:
            ctx.disagree("strtobool", word=w, real=real, model=canon(m1), spec=canon(m2))
        k, v = _real_by_name(w)
        real = ["err", v] if k == "err" else v
        mm = m3 if m3[0] == "err" else rs(m3)
        if mm != real:
            ctx.disagree("by_name", name=w, real=real, model=mm)

    # -- B. Config(): full grid, one subprocess per availability combination
    jobs_by = {}
    for av in AVAILS:
        jobs = full_jobs()
        for _ in range(ctx.n(20, 200)):
            jobs.append({"infer": rng.choice([True, True, None, False]),
                         "env": _env(rng.choice(BACKEND_ENV + [_rand_word(rng)]), rng.choice([None, "", "/p q"]),
                                     rng.choice(FLAG_ENV + [_rand_word(rng)]), rng.choice(FLAG_ENV + [_rand_word(rng)]))})
        jobs_by[av] = jobs
    res = batch(jobs_by)
    lines = []
    for av in AVAILS:
        lines.append(sx(["c20_detect", list(av)]))
        for j in jobs_by[av]:
            lines += [_cfg_line("c20_init", j, av), _cfg_line("c20_expected", j, av)]
    outs = iter(drv.run(lines))
    for av in AVAILS:
        det = rs(core.parse_sx(next(outs)))
        if det != res[av][0]:
            ctx.disagree("detect", avail=list(av), real=res[av][0], model=det)
        for j, r in zip(jobs_by[av], res[av][1]):
            real = _cfg_canon_real(r)
            m1, m2 = _cfg_canon_model(next(outs)), _cfg_canon_model(next(outs))
            ctx.count("config:" + ("err:" + real[1] if real[0] == "err" else "ok"))
            key = (av, json.dumps(j, sort_keys=True))
            ctx.case({"avail": dict(zip(MODS, av)), "env": {k: v for k, v in j["env"].items() if v is not None},
                      "infer_from_env": j["infer"], "real": real}, key if real[0] == "ok" else None)
            if m1 != real or m2 != real:
                ctx.disagree("config", avail=list(av), job=j, real=real, model=m1, spec=m2)

    # -- C. fresh imports on a sample (module-level `config = Config()` at import time)
    sample = []
    for _ in range(ctx.n(16, 80)):
        av = rng.choice(AVAILS)
        env = _env(rng.choice(BACKEND_ENV), rng.choice([None, "/p"]), rng.choice(FLAG_ENV), rng.choice(FLAG_ENV))
        sample.append((av, env))
    for av in BROKEN_AVAILS:
        sample.append((av, _env(rng.choice([None, "auto"]), None, rng.choice(FLAG_ENV), None)))
    with ThreadPoolExecutor(max_workers=8) as ex:
        fres = list(ex.map(lambda t: fresh(*t), sample))
    outs = drv.run([_cfg_line("c20_init", {"infer": True, "env": env}, as_bool_avail(av)) for av, env in sample])
    for (av, env), r, o in zip(sample, fres, outs):
        real = _cfg_canon_real(r)
        model = _cfg_canon_model(o)
        ctx.count("fresh-import:" + real[0])
        ctx.case({"fresh import": True, "avail": dict(zip(MODS, av)), "env": env, "real": real}, None)
        if any(x == "broken" for x in av):
            ctx.count("fresh-import:present-but-broken-module")
        if real != model:
            ctx.disagree("config-fresh", avail=list(av), env=env, real=real, model=model)
        if "ok" in r and not r.get("same", False):
            ctx.disagree("config-object", what="cspuz.config is not cspuz.configuration.config")

    # -- D. Solver dispatch
    cases = dispatch_cases(rng, ctx.n(400, None))
    outs = drv.run([sx(["c20_backend", "N" if a is None else ([a[0], ws(a[1])] if a[0] == "name" else ["cls", a[1]]),
                        ws(d), ws(p)]) for a, d, p, m in cases])
    for (a, d, p, m), o in zip(cases, outs):
        real = real_dispatch(a, d, p, m)
        model = _dispatch_model_canon(o)
        ctx.count("dispatch:" + (real[0] if real[0] in ("err", "bad") else "ok"))
        ctx.case({"method": m, "backend": a, "config.default_backend": d, "config.backend_path": p, "real": real},
                 ("d", str(a), d, p, m) if real[0] not in ("err", "bad") else None)
        if real != model:
            ctx.disagree("dispatch", method=m, arg=a, default=d, path=p, real=real, model=model)

    # -- E. graph functions
    gcases = graph_cases(ctx.n(2, 8))
    reals = [real_graph(v, arg, f1, f2, ac, seed) for v, fn, arg, f1, f2, ac, seed in gcases]
    lines = []
    for (v, fn, arg, f1, f2, ac, seed), r in zip(gcases, reals):
        lines.append(sx(["c20_native", fn, None if arg == "omit" else arg, f1, f2, ac]))
        lines.append("(c20_hasnative " + r[1] + ")" if r[0] == "ok" else "(echo skip)")
    outs = drv.run(lines)
    for i, ((v, fn, arg, f1, f2, ac, seed), r) in enumerate(zip(gcases, reals)):
        native = outs[2 * i] == "T"
        want = expected_graph(fn, native)
        got = ("ok", text_has_native(r[1])) if r[0] == "ok" else r
        ctx.count(f"graph:{fn}:" + ("native" if got == ("ok", True) else "aux" if got == ("ok", False) else "err"))
        ctx.case({"fn": v, "use_graph_primitive": arg, "config.use_graph_primitive": f1,
                  "config.use_graph_division_primitive": f2, "acyclic": ac, "real": list(got)},
                 (v, str(arg), f1, f2, ac, seed) if r[0] == "ok" else None)
        if got != want:
            ctx.disagree("graph-native", fn=v, arg=arg, f1=f1, f2=f2, acyclic=ac, seed=seed, real=list(got), model=list(want))
        if r[0] == "ok" and (outs[2 * i + 1] == "T") != got[1]:
            ctx.disagree("hasNative-def", fn=v, text=r[1][:500], lean=outs[2 * i + 1], python=got[1])


TRUSTED = [
    "str.lower() is modelled by ASCII case folding (Lean Char.toLower); the harness checks on every run, for all 1.1M "
    "non-ASCII code points of the running CPython, that lower() never produces a character of true/false/1/0, which makes "
    "the folding exact for _strtobool; the exception message is not modelled",
    "`import m` succeeding / raising ImportError is abstracted to one Boolean per probed module (a module whose import "
    "raises some other exception is out of scope); os.environ is abstracted to a function String -> Option String",
    "backend classes are identified by __name__; 'which backend receives the solve' is observed at "
    "cspuz.backend.sugar_like.run_subprocess (temporarily replaced in-process), at fake pycsugar/enigma_csp/cspuz_core "
    "modules planted in sys.modules, and at a recording proxy around the real z3 module",
    "native operator presence is observed on the printed program (harness/exprio.pexpr) and cross-checked against the "
    "Lean definition Spec.progHasNative on the same program",
]
ASSUMPTIONS = [
    "C20_primitive: caller-supplied expressions contain no native graph operator themselves",
    "config attributes hold values of their declared types (str / Optional[str] / bool) when read",
]


# ------------------------------------------------------------------ search: real code vs the oracle from the property text


def search(ctx, why, quick=False):
    found = {}

    def add(sig, what, data):
        if sig not in found:
            found[sig] = Finding(sig, what, data)
    # strict parsing / names
    for w in sorted(set(WORDS + NAMES + JUNK_NAMES)) + sorted(TRUE_WORDS | FALSE_WORDS):
        k, v = _real_strtobool(w)
        try:
            want = oracle_parse(w)
        except ValueError:
            want = ["err", "ValueError"]
        got = ["err", v] if k == "err" else v
        if got != want:
            add("config:strict-parse", f"_strtobool({w!r}) gives {got}, the property requires {want}",
                {"kind": "strtobool", "word": w, "got": got, "want": want})
        k, v = _real_by_name(w)
        got = ["err", v] if k == "err" else v
        want = CLASS_OF.get(w, ["err", "ValueError"])
        if got != want:
            add("dispatch:name-table", f"_get_backend_by_name({w!r}) gives {got}, expected {want}",
                {"kind": "by_name", "name": w, "got": got, "want": want})
    # configuration grid
    jobs = full_jobs()
    res = batch({av: jobs for av in AVAILS})
    for av in AVAILS:
        want_det = oracle_config(av, {}, True)[1]
        if res[av][0] != want_det:
            add("config:detect-order", f"_detect_backend() with importable={dict(zip(MODS, av))} returns {res[av][0]!r}, "
                f"the documented priority gives {want_det!r}", {"kind": "detect", "avail": list(av), "got": res[av][0], "want": want_det})
        for j, r in zip(jobs, res[av][1]):
            infer = True if j["infer"] is None else j["infer"]
            got = _cfg_canon_real(r)
            want = oracle_config(av, j["env"], infer)
            if got != want:
                if got[0] == "ok" and want[0] == "ok" and got[1] != want[1]:
                    sig = "config:default-backend"
                elif got[0] != want[0]:
                    sig = "config:strict-parse-env"
                elif got[2] != want[2]:
                    sig = "config:backend-path"
                else:
                    sig = "config:flag-default"
                add(sig, f"Config({'' if j['infer'] is None else 'infer_from_env=' + str(j['infer'])}) with importable="
                    f"{dict(zip(MODS, av))} env={ {k: v for k, v in j['env'].items() if v is not None} } gives {got}, "
                    f"the property requires {want}",
                    {"kind": "config", "avail": list(av), "job": j, "got": got, "want": want})
    # fresh import on a few
    for av, env in [((False, False, True, True), _env(None, None, None, None)),
                    ((True, True, True, True), _env("auto", None, "0", None)),
                    ((False, False, False, False), _env("csugar", "/p", None, "yes"))] + \
            [(av, _env(b, None, None, None)) for av in BROKEN_AVAILS for b in (None, "auto")]:
        got = _cfg_canon_real(fresh(av, env))
        want = oracle_config(as_bool_avail(av), env, True)
        if got != want:
            add("config:import-time", f"importing cspuz with importable={dict(zip(MODS, av))} env={env}: cspuz.config is {got}, "
                f"expected {want}", {"kind": "fresh", "avail": list(av), "env": env, "got": got, "want": want})
    # dispatch
    for a, d, p, m in dispatch_cases(ctx.rng, None):
        got = real_dispatch(a, d, p, m)
        want = oracle_dispatch(a, d, p)
        if got != want:
            sig = "dispatch:class" if (got[0] != want[0]) else "dispatch:entry"
            add(sig, f"Solver.{m}(backend={a}) with config.default_backend={d!r}, backend_path={p!r}: backend/entry {got}, "
                f"expected {want}", {"kind": "dispatch", "arg": a, "default": d, "path": p, "method": m, "got": got, "want": want})
    # graph functions
    for v, fn, arg, f1, f2, ac, seed in graph_cases(2):
        r = real_graph(v, arg, f1, f2, ac, seed)
        got = ("ok", text_has_native(r[1])) if r[0] == "ok" else r
        want = expected_graph(fn, oracle_native(fn, None if arg == "omit" else arg, f1, f2, ac))
        if got != want:
            add("graph:native:" + fn, f"{v}(use_graph_primitive={arg}, acyclic={ac}) with config.use_graph_primitive={f1}, "
                f"use_graph_division_primitive={f2}: native operator emitted / outcome {list(got)}, expected {list(want)}",
                {"kind": "graph", "variant": v, "fn": fn, "arg": arg, "f1": f1, "f2": f2, "acyclic": ac, "seed": seed,
                 "got": list(got), "want": list(want)})
    return list(found.values())


def replay(ctx, data):
    k = data.get("kind")
    if k == "strtobool":
        kk, v = _real_strtobool(data["word"])
        got = ["err", v] if kk == "err" else v
    elif k == "by_name":
        kk, v = _real_by_name(data["name"])
        got = ["err", v] if kk == "err" else v
    elif k == "detect":
        got = batch({tuple(data["avail"]): []})[tuple(data["avail"])][0]
    elif k == "config":
        got = _cfg_canon_real(batch({tuple(data["avail"]): [data["job"]]})[tuple(data["avail"])][1][0])
    elif k == "fresh":
        got = _cfg_canon_real(fresh(tuple(data["avail"]), data["env"]))
    elif k == "dispatch":
        a = data["arg"]
        got = real_dispatch(None if a is None else tuple(a), data["default"], data["path"], data["method"])
    elif k == "graph":
        r = real_graph(data["variant"], data["arg"], data["f1"], data["f2"], data["acyclic"], data["seed"])
        got = ["ok", text_has_native(r[1])] if r[0] == "ok" else list(r)
    else:
        return None
    got = json.loads(json.dumps(got))
    want = json.loads(json.dumps(data["want"]))
    if got != want:
        return Finding("replay:" + str(k), f"still fails: got {got}, expected {want}", data)
    return None
