"""C06 — active_edges_single_cycle / single_path admit exactly one simple cycle / path."""
from . import core, exprio, graphs, graphcorr
from .core import Finding

THEOREMS = ["Cspuz.C06.C06_cycle_regular_aux", "Cspuz.C06.C06_cycle_regular_prim", "Cspuz.C06.C06_regular_is_cycle", "Cspuz.C06.C06_cycle_aux", "Cspuz.C06.C06_cycle_prim", "Cspuz.C06.C06_path_regular", "Cspuz.C06.C06_regular_is_path", "Cspuz.C06.C06_path", "Cspuz.C06.C06_path_aux_unimplemented"]


def correspond(ctx):
    ctx.extra["rule"] = ("random multigraphs n<=6, edge flags as variables/negations/compound/constants, both routes for the cycle, "
                         "the primitive route for the path; grid frames up to 3x3; emitted program (with the line graph's edge set "
                         "canonicalised) and the returned is_passed array vs the Lean model"
                         " + a handful of deterministic medium / LARGE instances per family (graphs.big_graphs: 40, 70 and 258..319 vertices -- vertex ids beyond CPython's small-int cache, more than 32 / 64 vertices --, boards up to 16x17); about half of the Graph objects are observed part-way through construction (accessors read, every graph constraint posted once on a throw-away Solver) before the remaining edges are added")
    graphcorr.run_cases(ctx, graphcorr.case_cycle, ctx.n(300, 4000), "cycle", with_ids=True, native_sets=True,
                        bigs=graphcorr.graph_bigs() + graphcorr.graph_bigs("sparse") + graphcorr.medium_bigs())
    graphcorr.run_cases(ctx, graphcorr.case_path, ctx.n(200, 3000), "path", with_ids=True, native_sets=True, bigs=graphcorr.graph_bigs("sparse") + [b for b in graphcorr.medium_bigs("rotate") if b[1] <= 60])   # (the model's line graph is cubic in the number of edges)
    graphcorr.run_cases(ctx, graphcorr.case_frame_cycle, ctx.n(60, 600), "frame", with_ids=True, native_sets=True, bigs=graphcorr.frame_bigs())
    ctx.extra["huge"] = "Graph.line_graph() of " + ", ".join(h[0] for h in huge_graphs()) + " (edge ids beyond 2^16) vs the definition the model implements"
    for name, n, edges, lost, bogus, note in line_graph_scale_probe():
        ctx.disagree("line-graph-scale", what=f"Graph.line_graph() of {name} ({len(edges)} edges): {note}; e.g. missing {lost[:3]}, spurious {bogus[:3]}",
                     data={"huge": name})
    ctx.count("corr:huge-line-graph", len(huge_graphs()))
    if not ctx.quick():
        for f in search(ctx, None, budget=40):
            ctx.disagree("semantic", what=f.what, data=f.data)


def degrees(n, edges, act):
    d = [0] * n
    for k, (u, v) in enumerate(edges):
        if act[k]:
            d[u] += 1
            d[v] += 1
    return d


def edge_connected(n, edges, act):
    es = [e for k, e in enumerate(edges) if act[k]]
    vs = sorted({v for e in es for v in e})
    return exprio.connected(vs, es)


def spec_cycle(n, edges, act):
    if not any(act):
        return True, [False] * n
    d = degrees(n, edges, act)
    ok = all(x in (0, 2) for x in d) and edge_connected(n, edges, act)
    return ok, [x == 2 for x in d]


def spec_path(n, edges, act):
    if not any(act):
        return True, [False] * n
    d = degrees(n, edges, act)
    ok = all(x in (0, 1, 2) for x in d) and sum(1 for x in d if x == 1) == 2 and edge_connected(n, edges, act)
    return ok, [x >= 1 for x in d]


def _check(n, edges, prim, path):
    from cspuz import graph as G
    mk = graphs.mk_graph(n, edges)
    m = len(edges)
    st = {}

    def builder(s):
        vs = [s.bool_var() for _ in range(m)]

        def call():
            f = G.active_edges_single_path if path else G.active_edges_single_cycle
            r = f(s, vs, mk, use_graph_primitive=prim)
            st["passed"] = [exprio.pexpr(x) for x in r.data]
        return call
    decls, cs, base, _ = graphs.real_program(builder)
    for pat in graphs.all_patterns(m):
        fixed = {f"b{i}": pat[i] for i in range(m)}
        want, passed = (spec_path if path else spec_cycle)(n, edges, pat)
        sat, forced = exprio.forced_values(decls, cs, base, fixed, st["passed"])
        if sat != want:
            return list(pat), ("sat", sat), ("expected", want)
        if sat:
            got = [forced[k] for k in st["passed"]]
            if got != passed:
                return list(pat), ("is_passed", got), ("expected", passed)
    return None


def _check_frame(H, W, prim):
    from cspuz import graph as G
    from cspuz.grid_frame import BoolGridFrame
    st = {}

    def builder(s):
        fr = BoolGridFrame(s, H, W)
        st["nf"] = len(s.variables)

        def call():
            r = G.active_edges_single_cycle(s, fr, use_graph_primitive=prim)
            st["shape"] = r.shape
            st["passed"] = [exprio.pexpr(x) for x in r.data]
        return call
    decls, cs, base, _ = graphs.real_program(builder)
    if st["shape"] != (H + 1, W + 1):
        return "shape", st["shape"], (H + 1, W + 1)
    nf = st["nf"]
    # geometric edge list: horizontal (H+1) x W first, then vertical H x (W+1)
    edges = []
    for y in range(H + 1):
        for x in range(W):
            edges.append((y * (W + 1) + x, y * (W + 1) + x + 1))
    for y in range(H):
        for x in range(W + 1):
            edges.append((y * (W + 1) + x, (y + 1) * (W + 1) + x))
    n = (H + 1) * (W + 1)
    for pat in graphs.all_patterns(nf):
        fixed = {f"b{i}": pat[i] for i in range(nf)}
        want, passed = spec_cycle(n, edges, pat)
        sat, forced = exprio.forced_values(decls, cs, base, fixed, st["passed"])
        if sat != want:
            return list(pat), ("sat", sat), ("expected", want)
        if sat and [forced[k] for k in st["passed"]] != passed:
            return list(pat), ("is_passed", [forced[k] for k in st["passed"]]), ("expected", passed)
    return None


def _check_edge_patterns(n, edges, prim, path, patterns, timeout=30):
    """Selected edge sets of a medium / large graph (see graphs.edge_patterns): satisfiability and the returned is_passed values."""
    from cspuz import graph as G
    mk = graphs.mk_graph(n, edges)
    m = len(edges)
    st = {}

    def builder(s):
        vs = [s.bool_var() for _ in range(m)]

        def call():
            f = G.active_edges_single_path if path else G.active_edges_single_cycle
            r = f(s, vs, mk, use_graph_primitive=prim)
            st["passed"] = [exprio.pexpr(x) for x in r.data]
        return call
    decls, cs, base, _ = graphs.real_program(builder, timeout=timeout)
    for name, pat in patterns:
        want, passed = (spec_path if path else spec_cycle)(n, edges, pat)
        model = exprio.solve_prog(decls, cs, base, {f"b{i}": pat[i] for i in range(m)})
        if (model is not None) != want:
            return name, [edges[k] for k in range(m) if pat[k]], ("sat", model is not None), ("expected", want)
        if model is not None:
            got = [model[k] for k in st["passed"]]        # (is_passed is determined by the edge flags: any model shows it)
            if got != passed:
                return name, [edges[k] for k in range(m) if pat[k]], ("is_passed true at", [v for v in range(n) if got[v]]), \
                    ("expected", [v for v in range(n) if passed[v]])
    return None


def _check_frame_patterns(H, W, prim, patterns):
    """Selected segment sets of a larger BoolGridFrame (see graphs.frame_loop_patterns)."""
    from cspuz import graph as G
    from cspuz.grid_frame import BoolGridFrame
    st = {}

    def builder(s):
        fr = BoolGridFrame(s, H, W)
        st["nf"] = len(s.variables)

        def call():
            r = G.active_edges_single_cycle(s, fr, use_graph_primitive=prim)
            st["passed"] = [exprio.pexpr(x) for x in r.data]
        return call
    decls, cs, base, _ = graphs.real_program(builder)
    segs = graphs.frame_segments(H, W)
    edges = [(a[0] * (W + 1) + a[1], b[0] * (W + 1) + b[1]) for a, b in segs]
    n = (H + 1) * (W + 1)
    for name, pat in patterns:
        want, passed = spec_cycle(n, edges, pat)
        model = exprio.solve_prog(decls, cs, base, {f"b{i}": pat[i] for i in range(st["nf"])})
        if (model is not None) != want:
            return name, [segs[k] for k in range(len(segs)) if pat[k]], ("sat", model is not None), ("expected", want)
        if model is not None and [model[k] for k in st["passed"]] != passed:
            return name, [segs[k] for k in range(len(segs)) if pat[k]], ("is_passed", [model[k] for k in st["passed"]]), ("expected", passed)
    return None


BIG_FRAMES = ((6, 6), (5, 5), (4, 8), (7, 9), (15, 16))


# ------------------------------------------------------------------ HUGE graphs: edge ids beyond 16 bits
#
# The primitive route hands the LINE GRAPH of the caller's graph to the connectivity primitive.  The Lean model of the line graph is
# cubic in the number of edges and the real `_active_vertices_connected` flattens the edge list quadratically (about 40 s for 65 538
# edges), so program equality stops at a few hundred edges.  What the size of an instance can still change above that is the line
# graph itself (edge ids packed into machine-sized fields, ...): the real `Graph.line_graph()` of graphs with more than 2^16 edges is
# compared, as a multiset of unordered pairs, with the definition the model implements (two distinct edges are adjacent iff they share
# an endpoint; one pair per two edges).  Linear time; runs in both tiers.  Only when it differs does the search pay for the real
# constraint generator on such a graph.

HUGE_N = (1 << 16) + 2


def huge_graphs():
    ring = [(k, (k + 1) % HUGE_N) if k % 5 else ((k + 1) % HUGE_N, k) for k in range(HUGE_N)]
    n2 = 35_000
    braid = [(k, (k + 1) % n2) for k in range(n2)] + [((k + 2) % n2, k) for k in range(n2)]      # 70 000 edges, every degree 4
    return [("ring-65538", HUGE_N, ring), ("braid-70000", n2, braid)]


def line_pairs_by_definition(n, edges):
    inc = [[] for _ in range(n)]
    for k, (a, b) in enumerate(edges):
        inc[a].append(k)
        if b != a:
            inc[b].append(k)
    out = set()
    for ks in inc:
        for i in range(len(ks)):
            for j in range(i):
                out.add((ks[j], ks[i]) if ks[j] < ks[i] else (ks[i], ks[j]))
    return out


def line_graph_scale_probe():
    """[(name, n, edges, lost, bogus, note)] for the huge graphs whose real line graph is not the one of the definition."""
    from cspuz.graph import Graph
    out = []
    for name, n, edges in huge_graphs():
        g = Graph(n)
        for a, b in edges:
            g.add_edge(a, b)
        lg = core.with_timeout(60, g.line_graph)
        got = sorted((a, b) if a < b else (b, a) for a, b in lg.edges)
        want = line_pairs_by_definition(n, edges)
        note = None
        if lg.num_vertices != len(edges):
            note = f"line graph has {lg.num_vertices} vertices for {len(edges)} edges"
        elif len(got) != len(set(got)):
            note = "an adjacency is reported more than once"
        if note or set(got) != want:
            lost = sorted(want - set(got))
            bogus = sorted(set(got) - want)
            out.append((name, n, edges, lost, bogus, note or f"{len(lost)} adjacent pairs missing, {len(bogus)} pairs of edges that share no endpoint"))
    return out


def huge_search(found):
    """Failing input of the real primitive route on a huge graph whose line graph is wrong (slow: minutes)."""
    for name, n, edges, lost, bogus, note in line_graph_scale_probe():
        m = len(edges)
        tries = []
        for (x, y) in lost[:1] + lost[-1:]:
            tries.append((True, f"edges {x} and {y} (a simple path of two edges)", [k in (x, y) for k in range(m)]))
        if name.startswith("ring"):
            tries.append((False, "every edge (the ring itself: one simple cycle)", [True] * m))
        for path, pname, pat in tries:
            key = "huge:" + ("path" if path else "cycle")
            if key in found:
                continue
            try:
                bad = _check_edge_patterns(n, edges, True, path, [(pname, pat)], timeout=600)
            except Exception as e:
                bad = ("exception", None, core.err_name(e), str(e)[:200])
            if bad:
                act = [k for k in range(m) if pat[k]]
                found[key] = Finding(
                    ("path" if path else "cycle") + ":prim:huge-graph",
                    f"active_edges_single_{'path' if path else 'cycle'}(use_graph_primitive=True) on {name} ({n} vertices, {m} edges; "
                    f"edge k of the ring joins k and k+1 mod n), active = {pname}: {bad[2]} but {bad[3]}; Graph.line_graph(): {note}",
                    {"huge": name, "path": path, "active_ids": act if len(act) <= 8 else "all", "pattern_name": pname})


def search(ctx, why, budget=None):
    found = {}
    for (n, edges) in graphs.small_graphs(ctx.rng, budget or ctx.n(24, 50), 5):
        if len(edges) > 8 or any(a == b for a, b in edges):
            continue
        for path in (False, True):
            for prim in ((True,) if path else (False, True)):
                key = ("path" if path else "cycle") + (":prim" if prim else ":aux")
                if key in found:
                    continue
                try:
                    bad = _check(n, edges, prim, path)
                except Exception as e:
                    bad = ("exception", core.err_name(e), str(e)[:200])
                ctx.count("search:" + key)
                if bad:
                    found[key] = Finding(
                        key + (":empty-edge-set" if (path and isinstance(bad[0], list) and not any(bad[0])) else ""),
                        f"active_edges_single_{'path' if path else 'cycle'}(use_graph_primitive={prim}) on n={n} edges={edges} active={bad[0]}: {bad[1]} but {bad[2]}"
                        + graphs.history_note(n, edges),
                        {"n": n, "edges": edges, "prim": prim, "path": path, "pattern": bad[0]})
    for (H, W) in ((0, 0), (1, 1), (1, 2), (2, 1)):
        for prim in (False, True):
            if "frame" in found:
                break
            try:
                bad = _check_frame(H, W, prim)
            except Exception as e:
                bad = ("exception", core.err_name(e), str(e)[:200])
            ctx.count("search:frame")
            if bad:
                found["frame"] = Finding("cycle:frame", f"active_edges_single_cycle on a {H}x{W} BoolGridFrame (prim={prim}) {bad}",
                                         {"H": H, "W": W, "prim": prim, "frame": True})
    # medium / LARGE graphs and frames: several small cycles far apart in the index range (more than 32 / 64 / 256 vertices)
    for (n, edges) in graphs.big_graphs() + graphs.big_graphs("sparse"):
        for path in (False, True):
            for prim in ((True,) if path else (False, True)):
                key = "big:" + ("path" if path else "cycle") + (":prim" if prim else ":aux")
                if key in found or (prim and len(edges) > 100 and n > 64):
                    continue         # (the line graph of a long graph is big; the few-edge large graphs cover the primitive route)
                try:
                    bad = _check_edge_patterns(n, edges, prim, path, graphs.edge_patterns(n, edges))
                except Exception as e:
                    bad = ("exception", None, core.err_name(e), str(e)[:200])
                ctx.count("search:" + key)
                if bad:
                    found[key] = Finding(
                        key[4:] + ":large-graph",
                        f"active_edges_single_{'path' if path else 'cycle'}(use_graph_primitive={prim}) on a graph with {n} vertices and "
                        f"{len(edges)} edges, active edges ({bad[0]}) = {bad[1] if bad[1] is None or len(bad[1]) <= 14 else str(bad[1][:6]) + ' ... ' + str(bad[1][-6:])}: {bad[2]} but {bad[3]}" + graphs.history_note(n, edges),
                        {"big": True, "n": n, "edges": edges, "prim": prim, "path": path, "pattern_name": bad[0], "active_edges": bad[1]})
    for (H, W) in BIG_FRAMES:
        for prim in (False, True):
            key = "big:frame" + (":prim" if prim else ":aux")
            if key in found or (prim and H * W > 40):
                continue
            try:
                bad = _check_frame_patterns(H, W, prim, graphs.frame_loop_patterns(H, W))
            except Exception as e:
                bad = ("exception", None, core.err_name(e), str(e)[:200])
            ctx.count("search:" + key)
            if bad:
                found[key] = Finding("cycle:frame:large", f"active_edges_single_cycle on a {H}x{W} BoolGridFrame (prim={prim}), active segments "
                                     f"({bad[0]}) = {bad[1]}: {bad[2]} but {bad[3]}",
                                     {"bigframe": True, "H": H, "W": W, "prim": prim, "pattern_name": bad[0], "segments": bad[1]})
    huge_search(found)
    return list(found.values())


def replay(ctx, data):
    if data.get("huge"):
        for name, n, edges in huge_graphs():
            if name == data["huge"]:
                ids = data["active_ids"]
                pat = [True] * len(edges) if ids == "all" else [k in ids for k in range(len(edges))]
                bad = _check_edge_patterns(n, edges, True, data["path"], [(data.get("pattern_name"), pat)], timeout=600)
                return Finding("c06:replay", f"still fails: {str(bad)[:400]}", data) if bad else None
        return None
    if data.get("big"):
        edges = [tuple(e) for e in data["edges"]]
        act = [tuple(e) for e in (data["active_edges"] or [])]
        pat, left = [], list(act)
        for e in edges:
            if e in left:
                left.remove(e)
                pat.append(True)
            else:
                pat.append(False)
        bad = _check_edge_patterns(data["n"], edges, data["prim"], data["path"], [(data.get("pattern_name"), pat)])
        return Finding("c06:replay", f"still fails: {bad}", data) if bad else None
    if data.get("bigframe"):
        segs = graphs.frame_segments(data["H"], data["W"])
        act = {(tuple(a), tuple(b)) for a, b in (data["segments"] or [])}
        bad = _check_frame_patterns(data["H"], data["W"], data["prim"], [(data.get("pattern_name"), [s in act for s in segs])])
        return Finding("c06:replay", f"still fails: {bad}", data) if bad else None
    if data.get("frame"):
        bad = _check_frame(data["H"], data["W"], data["prim"])
    else:
        bad = _check(data["n"], [tuple(e) for e in data["edges"]], data["prim"], data["path"])
    return Finding("c06:replay", f"still fails: {bad}", data) if bad else None
