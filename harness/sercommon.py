"""Shared helpers of the C15 / C17 checks (serializer combinators): term ASTs, live-object walker, value and outcome
canonicalisation, generators of terms / values / texts, the real-code runner with a watchdog for non-termination."""
import signal

from . import core

PATCH_NOTES = """The Lean model (Model/Serializer.lean) follows the code with these minimal patches applied:
 D6  Grid: `self._height if self._height is not None else env.height` (same for width) in serialize and deserialize
 D7  Tupl.deserialize and Rooms._deserialize: drop the `idx == len(data)` guard (a 1x1 board has an empty encoding)
 D8  ValuedRooms.serialize: sort the (room, value) pairs by `min(room)` (the decoder's discovery order)
 D9a Rooms._serialize: `if not (0 <= y < height and 0 <= x < width)`
 D9b Rooms._deserialize: iterative flood fill (explicit stack) instead of the recursive dfs
 D10 deserialize_problem_as_url: non-matching URL -> None if allow_failure else ValueError (no assert)
 D11 HexInt.deserialize: the digits after '-' / '+' must satisfy _is_hex
 D12 YajilinClue: '??' <-> '0.', numbers 16..255 as direction+5 and two hex digits in both directions, validation
 D20 Rooms: boards with height == 0 or width == 0 raise ValueError (instead of AssertionError from Grid)"""

URL_ALPHABET = "0123456789abcdefghijklmnopqrstuvwxyz-+._/?:"


class Timeout(BaseException):
    pass


LONG_DIVERGES = []


def _alarm(signum, frame):
    raise Timeout()


def run_guarded(fn, seconds):
    """Runs fn() under a watchdog; returns ('ret', value) | ('err', name) | ('diverge',)."""
    old = signal.signal(signal.SIGALRM, _alarm)
    signal.setitimer(signal.ITIMER_REAL, seconds)
    try:
        try:
            r = fn()
            signal.setitimer(signal.ITIMER_REAL, 0)
            return ("ret", r)
        except Timeout:
            if seconds >= 2:
                # a real call that was EXPECTED to return did not: remember it; after a few of those the whole run is
                # abandoned (each one costs its full budget; a check must not sit through hundreds of them)
                LONG_DIVERGES.append(getattr(fn, "__name__", "call"))
                if len(LONG_DIVERGES) > 3:
                    del LONG_DIVERGES[:]
                    from . import core
                    raise core.RealTimeout("real serializer calls keep running past their %g s budget" % seconds)
            return ("diverge",)
        except BaseException as e:  # noqa: every exception class is an observable outcome here
            signal.setitimer(signal.ITIMER_REAL, 0)
            return ("err", type(e).__name__)
    finally:
        signal.setitimer(signal.ITIMER_REAL, 0)
        signal.signal(signal.SIGALRM, old)


# ------------------------------------------------------------------ results of separate calls must not share state

EDITED = "<edited by the caller>"


def typed(v):
    """comparable form of a value: tuples and lists stay distinct, bool and int stay distinct"""
    if isinstance(v, (list, tuple)):
        return (type(v).__name__, tuple(typed(x) for x in v))
    if isinstance(v, dict):
        return ("dict", tuple(sorted((repr(k), typed(x)) for k, x in v.items())))
    if isinstance(v, (set, frozenset)):
        return (type(v).__name__, tuple(sorted(repr(x) for x in v)))
    return (type(v).__name__, v)


def mutate_deep(v):
    """What a caller may do with a value it was handed: every mutable container reachable from `v` (lists, dicts, sets;
    looked for through tuples too) is edited IN PLACE as much as its type allows -- scalar entries overwritten, the order
    reversed, an entry appended.  Returns the number of containers edited (0: nothing mutable in there)."""
    n = 0
    if isinstance(v, list):
        for x in v:
            n += mutate_deep(x)
        for i, x in enumerate(v):
            if not isinstance(x, (list, tuple, dict, set)):
                v[i] = EDITED
        v.reverse()
        v.append(EDITED)
        return n + 1
    if isinstance(v, tuple):
        for x in v:
            n += mutate_deep(x)
        return n
    if isinstance(v, dict):
        for x in list(v.values()):
            n += mutate_deep(x)
        for k in list(v):
            if not isinstance(v[k], (list, tuple, dict, set)):
                v[k] = EDITED
        v[EDITED] = EDITED
        return n + 1
    if isinstance(v, set):
        v.add(EDITED)
        return 1
    return n


def alias_probe(call, secs=5, first=None):
    """Results of separate calls are separate values: call() -> the caller edits the returned value in place
    (mutate_deep) -> call() again with the same arguments must return what the first call returned BEFORE the edit.
    `first` = the ('ret', value) outcome of a call already made (it is consumed: its value is edited).
    Returns None if fine (or nothing to probe), else a text describing the difference."""
    import copy
    o1 = first if first is not None else run_guarded(call, secs)
    if o1[0] != "ret" or o1[1] is None:
        return None
    v1 = o1[1]
    try:
        snap = copy.deepcopy(v1)
    except Exception:  # noqa: a value that cannot be copied is not probed
        return None
    if mutate_deep(v1) == 0:
        return None
    o2 = run_guarded(call, secs)
    if o2[0] != "ret":
        return ("the first call returned %r; after the caller edited that value in place the same call %s"
                % (snap, "raises " + o2[1] if o2[0] == "err" else "does not return"))
    if typed(o2[1]) != typed(snap):
        shared = " (it is the very object the first call returned)" if o2[1] is v1 else ""
        return ("the first call returned %r; after the caller edited that value in place the same call returns %r%s"
                % (snap, o2[1], shared))
    return None


# ------------------------------------------------------------------ values / strings <-> s-expressions

def cps(s):
    return "(" + " ".join(str(ord(c)) for c in s) + ")"


_BIG = 10 ** 4000


def int_str(v):
    """decimal text of an int of any size (CPython refuses str() beyond 4300 digits; the real code must keep that limit,
    so the harness does not lift it but prints in chunks)"""
    if -_BIG < v < _BIG:
        return "%d" % v
    sign = "-" if v < 0 else ""
    v = abs(v)
    parts = []
    base = 10 ** 1000
    while v:
        v, r = divmod(v, base)
        parts.append(r)
    out = "%d" % parts[-1]
    for r in reversed(parts[:-1]):
        out += "%01000d" % r
    return sign + out


def val_sx(v):
    if v is None:
        return "N"
    if v is True:
        return "(b T)"
    if v is False:
        return "(b F)"
    if isinstance(v, int):
        return "(i %s)" % int_str(v)
    if isinstance(v, str):
        return "(s" + "".join(" %d" % ord(c) for c in v) + ")"
    if isinstance(v, tuple):
        return "(t" + "".join(" " + val_sx(x) for x in v) + ")"
    if isinstance(v, list):
        return "(l" + "".join(" " + val_sx(x) for x in v) + ")"
    raise TypeError("value outside the modelled universe: %r" % (v,))


def vals_sx(vs):
    return "(" + " ".join(val_sx(v) for v in vs) + ")"


def sx_val(t):
    """parsed s-expression (core.parse_sx) -> Python value"""
    if t == "N":
        return None
    k = t[0]
    if k == "i":
        return int(t[1])
    if k == "b":
        return t[1] == "T"
    if k == "s":
        return "".join(chr(int(c)) for c in t[1:])
    if k == "t":
        return tuple(sx_val(x) for x in t[1:])
    if k == "l":
        return [sx_val(x) for x in t[1:]]
    raise ValueError(t)


def sx_str(t):
    return "".join(chr(int(c)) for c in t)


def ser_outcome(o):
    """real result of a serialize call -> the model's reply text"""
    if o[0] == "diverge":
        return "diverge"
    if o[0] == "err":
        return "(err %s)" % o[1]
    r = o[1]
    if r is None:
        return "none"
    return "(ok %d %s)" % (r[0], cps(r[1]))


def de_outcome(o):
    if o[0] == "diverge":
        return "diverge"
    if o[0] == "err":
        return "(err %s)" % o[1]
    r = o[1]
    if r is None:
        return "none"
    return "(ok %d %s)" % (r[0], vals_sx(r[1]))


def str_outcome(o):
    if o[0] == "diverge":
        return "diverge"
    if o[0] == "err":
        return "(err %s)" % o[1]
    return "none" if o[1] is None else "(ok %s)" % cps(o[1])


def val_outcome(o):
    if o[0] == "diverge":
        return "diverge"
    if o[0] == "err":
        return "(err %s)" % o[1]
    return "none" if o[1] is None else "(ok %s)" % val_sx(o[1])


# ------------------------------------------------------------------ terms

def build(ast):
    import cspuz.problem_serializer as ps
    k = ast[0]
    if k == "fixstr":
        return ps.FixStr(ast[1])
    if k == "dict":
        if len(ast[1]) == 1 and len(ast[2]) == 1:
            # the scalar and the one-element-set forms of the constructor (`_as_list`) mean the same one-entry table
            form = (sum(map(ord, repr(ast))) // 7) % 3
            try:
                if form == 1 and not isinstance(ast[1][0], (list, dict, set)):
                    return ps.Dict(ast[1][0], ast[2][0])
                if form == 2:
                    return ps.Dict({ast[1][0]}, {ast[2][0]})
            except TypeError:
                pass
        return ps.Dict(list(ast[1]), list(ast[2]))
    if k == "spaces":
        return ps.Spaces(ast[1], ast[2])
    if k == "decint":
        return ps.DecInt()
    if k == "hexint":
        return ps.HexInt()
    if k == "intspaces":
        return ps.IntSpaces(ast[1], ast[2], ast[3])
    if k == "multidigit":
        return ps.MultiDigit(ast[1], ast[2])
    if k in ("oneof", "tupl"):
        # positional arguments, one list, or a mixture of both: the constructors flatten them
        cls = ps.OneOf if k == "oneof" else ps.Tupl
        subs = [build(a) for a in ast[1]]
        form = len(repr(ast)) % 3
        if form == 1:
            return cls(subs)
        if form == 2 and len(subs) >= 2:
            return cls(subs[0], subs[1:])
        return cls(*subs)
    if k == "seq":
        return ps.Seq(build(ast[1]), ast[2])
    if k == "grid":
        if ast[2] is None:
            return ps.Grid(build(ast[1]))
        return ps.Grid(build(ast[1]), height=ast[2][0], width=ast[2][1])
    if k == "rooms":
        return ps.Rooms(skip_on_error=ast[1], allow_redundant_border=ast[2])
    if k == "vrooms":
        return ps.ValuedRooms(build(ast[1]), skip_on_error=ast[2], allow_redundant_border=ast[3])
    if k == "yajilin":
        from cspuz.puzzle.yajilin import YajilinClue
        return YajilinClue()
    raise ValueError(ast)


def walk(obj, emit):
    """Walks a LIVE combinator object (private attributes as they are now) into emit(kind, *fields)."""
    n = type(obj).__name__
    mod = type(obj).__module__
    if mod == "cspuz.problem_serializer":
        if n == "FixStr":
            return emit("fixstr", obj._s)
        if n == "Dict":
            if len(obj._before) != len(obj._after):
                raise ValueError("Dict tables of different length")
            return emit("dict", list(obj._before), list(obj._after))
        if n == "Spaces":
            if obj._max_consecutive != 35 - obj._offset:
                raise ValueError("Spaces._max_consecutive is not 35 - _offset any more")
            return emit("spaces", obj._space, obj._offset)
        if n == "DecInt":
            return emit("decint")
        if n == "HexInt":
            return emit("hexint")
        if n == "IntSpaces":
            return emit("intspaces", obj._space, obj._max_int, obj._max_num_spaces)
        if n == "MultiDigit":
            return emit("multidigit", obj._base, obj._digits)
        if n == "OneOf":
            return emit("oneof", [walk(c, emit) for c in obj._choices])
        if n == "Tupl":
            return emit("tupl", [walk(c, emit) for c in obj._elements])
        if n == "Seq":
            return emit("seq", walk(obj._base, emit), obj._n)
        if n == "Grid":
            return emit("grid", walk(obj._base, emit), None if obj._height is None else (obj._height, obj._width))
        if n == "Rooms":
            return emit("rooms", bool(obj._skip_on_error), bool(obj._allow_redundant_border))
        if n == "ValuedRooms":
            r = obj._room_combinator
            if type(r).__name__ != "Rooms":
                raise ValueError("ValuedRooms._room_combinator is not a Rooms")
            return emit("vrooms", walk(obj._value_combinator, emit), bool(r._skip_on_error), bool(r._allow_redundant_border))
    if mod == "cspuz.puzzle.yajilin" and n == "YajilinClue":
        return emit("yajilin")
    raise ValueError("combinator class outside the model: %s.%s" % (mod, n))


def _emit_sx(kind, *f):
    if kind == "fixstr":
        return "(fixstr %s)" % cps(f[0])
    if kind == "dict":
        return "(dict %s (%s))" % (vals_sx(f[0]), " ".join(cps(a) for a in f[1]))
    if kind == "spaces":
        return "(spaces %s %d)" % (val_sx(f[0]), f[1])
    if kind in ("decint", "hexint", "yajilin"):
        return kind
    if kind == "intspaces":
        return "(intspaces %s %d %d)" % (val_sx(f[0]), f[1], f[2])
    if kind == "multidigit":
        return "(multidigit %d %d)" % (f[0], f[1])
    if kind in ("oneof", "tupl"):
        return "(%s%s)" % (kind, "".join(" " + c for c in f[0]))
    if kind == "seq":
        return "(seq %s %d)" % (f[0], f[1])
    if kind == "grid":
        return "(grid %s N)" % f[0] if f[1] is None else "(grid %s %d %d)" % (f[0], f[1][0], f[1][1])
    if kind == "rooms":
        return "(rooms %s %s)" % ("T" if f[0] else "F", "T" if f[1] else "F")
    if kind == "vrooms":
        return "(vrooms %s %s %s)" % (f[0], "T" if f[1] else "F", "T" if f[2] else "F")
    raise ValueError(kind)


def comb_sx(obj):
    return walk(obj, _emit_sx)


def lean_val(v):
    if v is None:
        return ".none"
    if v is True:
        return ".bool true"
    if v is False:
        return ".bool false"
    if isinstance(v, int):
        return ".int (%d)" % v
    if isinstance(v, str):
        return ".str %s" % lean_str(v)
    if isinstance(v, tuple):
        return ".tuple [%s]" % ", ".join(lean_val(x) for x in v)
    if isinstance(v, list):
        return ".list [%s]" % ", ".join(lean_val(x) for x in v)
    raise TypeError(v)


def lean_str(s):
    return "[" + ", ".join(str(ord(c)) for c in s) + "]"


def _emit_lean(kind, *f):
    b = lambda x: "true" if x else "false"
    if kind == "fixstr":
        return "(.fixStr %s)" % lean_str(f[0])
    if kind == "dict":
        return "(.dict [%s] [%s])" % (", ".join(lean_val(v) for v in f[0]), ", ".join(lean_str(a) for a in f[1]))
    if kind == "spaces":
        return "(.spaces (%s) (%d))" % (lean_val(f[0]), f[1])
    if kind == "decint":
        return ".decInt"
    if kind == "hexint":
        return ".hexInt"
    if kind == "yajilin":
        return ".yajilinClue"
    if kind == "intspaces":
        return "(.intSpaces (%s) %d %d)" % (lean_val(f[0]), f[1], f[2])
    if kind == "multidigit":
        return "(.multiDigit %d %d)" % (f[0], f[1])
    if kind == "oneof":
        return "(.oneOf [%s])" % ", ".join(f[0])
    if kind == "tupl":
        return "(.tupl [%s])" % ", ".join(f[0])
    if kind == "seq":
        return "(.seq %s %d)" % (f[0], f[1])
    if kind == "grid":
        return "(.grid %s %s)" % (f[0], "none" if f[1] is None else "(some (%d, %d))" % f[1])
    if kind == "rooms":
        return "(.rooms %s %s)" % (b(f[0]), b(f[1]))
    if kind == "vrooms":
        return "(.valuedRooms %s %s %s)" % (f[0], b(f[1]), b(f[2]))
    raise ValueError(kind)


def comb_lean(obj):
    return walk(obj, _emit_lean)


# ------------------------------------------------------------------ board partitions

def random_partition(rng, h, w, nrooms=None):
    """Random partition of the h x w board into 4-connected rooms, rooms in discovery (canonical) order."""
    cells = [(y, x) for y in range(h) for x in range(w)]
    if not cells:
        return []
    n = nrooms or rng.randint(1, max(1, min(len(cells), 1 + len(cells) // 2)))
    seeds = rng.sample(cells, min(n, len(cells)))
    owner = {s: i for i, s in enumerate(seeds)}
    frontier = list(seeds)
    while len(owner) < len(cells):
        c = rng.choice(frontier)
        y, x = c
        nb = [(y + dy, x + dx) for dy, dx in ((1, 0), (-1, 0), (0, 1), (0, -1))
              if 0 <= y + dy < h and 0 <= x + dx < w and (y + dy, x + dx) not in owner]
        if not nb:
            frontier.remove(c)
            continue
        t = rng.choice(nb)
        owner[t] = owner[c]
        frontier.append(t)
    rooms = {}
    for c in cells:
        rooms.setdefault(owner[c], []).append(c)
    return sorted(rooms.values(), key=lambda r: r[0])


def canon_rooms(rooms):
    return sorted([sorted(r) for r in rooms], key=lambda r: r[0])


def shuffled_rooms(rng, rooms):
    rs = [list(r) for r in rooms]
    for r in rs:
        rng.shuffle(r)
    rng.shuffle(rs)
    return rs


def all_partitions(h, w):
    """Every partition of the board into 4-connected rooms (canonical order); only for tiny boards."""
    cells = [(y, x) for y in range(h) for x in range(w)]

    def connected(room):
        room = set(room)
        start = next(iter(room))
        seen = {start}
        st = [start]
        while st:
            y, x = st.pop()
            for c in ((y + 1, x), (y - 1, x), (y, x + 1), (y, x - 1)):
                if c in room and c not in seen:
                    seen.add(c)
                    st.append(c)
        return len(seen) == len(room)

    out = []

    def rec(i, rooms):
        if i == len(cells):
            if all(connected(r) for r in rooms):
                out.append([list(r) for r in rooms])
            return
        for r in rooms:
            r.append(cells[i])
            rec(i + 1, rooms)
            r.pop()
        rooms.append([cells[i]])
        rec(i + 1, rooms)
        rooms.pop()

    rec(0, [])
    return out


# ------------------------------------------------------------------ random terms with matching values

SPECIAL_INTS = [0, 1, 2, 9, 10, 14, 15, 16, 17, 35, 36, 255, 256, 257, 4095, 4096, -1, -2]


_B36 = "0123456789abcdefghijklmnopqrstuvwxyz"


def lead_chars(ast):
    """The set of characters a text produced by the term can start with / its decoder can accept as the first character
    (an over-approximation for ASCII texts), or None if the text may be empty or the set is not known.  Two alternatives
    of a OneOf with disjoint sets are distinguishable by their leading character."""
    k = ast[0]
    if k == "fixstr":
        return {ast[1][0]} if ast[1] else None
    if k == "dict":
        if not ast[2] or any((not isinstance(a, str)) or a == "" for a in ast[2]):
            return None
        return {a[0] for a in ast[2]}
    if k == "spaces":
        if not (isinstance(ast[2], str) and len(ast[2]) == 1 and ast[2] in _B36):
            return None
        return set(_B36[max(0, _B36.index(ast[2])):]) if ast[2] != "0" else set(_B36)
    if k == "hexint":
        return set("0123456789abcdef-+")
    if k == "decint":
        return set("0123456789")
    if k == "intspaces":
        return set(_B36[:max(0, min(36, (ast[2] + 1) * (ast[3] + 1)))]) or None
    if k == "multidigit":
        return set(_B36[:max(0, min(36, ast[1] ** ast[2]))]) if ast[2] >= 1 and ast[1] >= 1 else None
    if k == "oneof":
        out = set()
        for a in ast[1]:
            l = lead_chars(a)
            if l is None:
                return None
            out |= l
        return out or None
    if k == "tupl":
        return lead_chars(ast[1][0]) if ast[1] else None
    if k == "seq":
        return lead_chars(ast[1]) if ast[2] >= 1 else None
    if k == "grid":
        return lead_chars(ast[1]) if ast[2] is not None and ast[2][0] * ast[2][1] >= 1 else None
    return None


def term_py(ast):
    """Python source text that builds the term (names of cspuz.problem_serializer)."""
    k = ast[0]
    if k == "fixstr":
        return "FixStr(%r)" % (ast[1],)
    if k == "dict":
        return "Dict(%r,%r)" % (list(ast[1]), list(ast[2]))
    if k == "spaces":
        return "Spaces(%r,%r)" % (ast[1], ast[2])
    if k == "decint":
        return "DecInt()"
    if k == "hexint":
        return "HexInt()"
    if k == "intspaces":
        return "IntSpaces(%r,%d,%d)" % (ast[1], ast[2], ast[3])
    if k == "multidigit":
        return "MultiDigit(%d,%d)" % (ast[1], ast[2])
    if k in ("oneof", "tupl"):
        return "%s(%s)" % ("OneOf" if k == "oneof" else "Tupl", ",".join(term_py(a) for a in ast[1]))
    if k == "seq":
        return "Seq(%s,%d)" % (term_py(ast[1]), ast[2])
    if k == "grid":
        return "Grid(%s)" % term_py(ast[1]) if ast[2] is None else "Grid(%s,height=%d,width=%d)" % (term_py(ast[1]), ast[2][0], ast[2][1])
    if k == "rooms":
        return "Rooms(skip_on_error=%r,allow_redundant_border=%r)" % (bool(ast[1]), bool(ast[2]))
    if k == "vrooms":
        return "ValuedRooms(%s,skip_on_error=%r,allow_redundant_border=%r)" % (term_py(ast[1]), bool(ast[2]), bool(ast[3]))
    if k == "yajilin":
        return "YajilinClue()"
    raise ValueError(ast)


SCALAR_KINDS = ("dict", "spaces", "hexint", "decint", "intspaces", "multidigit", "yajilin")
_TOKENS = [".", "_", "A", "B", "F", "G", "Z", "/", ":", "?", "Ab", "Zz", "X", "Y", "K", "L", "W"]


def _mixed_alt(rng, kind, depth):
    """one alternative of a mixed-kind OneOf: kind in scalar-dict / tuple-dict / list-dict / spaces / hexint / tupl / seq / grid"""
    def tok_dict(before_pool, n=None):
        n = n or rng.randint(1, 2)
        return ("dict", rng.sample(before_pool, n), rng.sample(_TOKENS, n))

    def item(d):
        """a sub-term on plain scalar items with a leading alphabet of its own"""
        r = rng.random()
        if r < 0.35:
            return ("hexint",)
        if r < 0.7:
            return tok_dict([-1, 0, 1, 2, 7, None, "x", "wall"])
        if r < 0.8:
            return ("decint",)
        if r < 0.9 or d <= 0:
            return ("oneof", [("spaces", rng.choice([0, -1]), rng.choice("ghijk")), ("hexint",)])
        return _mixed_alt(rng, rng.choice(["tupl", "seq"]), d - 1)

    if kind == "scalar-dict":
        return tok_dict([-1, 0, 1, 5, 16, None, "x", "wall"])
    if kind == "tuple-dict":        # hashable non-scalar values
        # (components that are sequences themselves: a Tupl alternative handed such a value passes them on to its elements;
        # a scalar component handed to a FixStr element is outside the model, FixStr never looks at it)
        return tok_dict([((0,), (1,)), ((1,), (0,)), (), ((),), ((3, 4), (2,))])
    if kind == "list-dict":         # values that cannot be hashed (what Seq / Grid / Rooms items are)
        return tok_dict([[0, 0], [0, 1], [], [[1]], ([1], [2])])
    if kind == "spaces":
        return ("spaces", rng.choice([0, -1, None]), rng.choice("ghijkmsz"))
    if kind == "hexint":
        return ("hexint",)
    if kind == "tupl":
        els = [item(depth - 1) for _ in range(rng.randint(1, 2))]
        if rng.random() < 0.5:
            els.insert(0, ("fixstr", rng.choice(["/", ":", "?", "_", "T"])))
        if rng.random() < 0.2:
            els.append(("seq", ("hexint",), rng.randint(0, 2)))
        return ("tupl", els)
    if kind == "seq":
        return ("seq", item(depth - 1), rng.randint(1, 3))
    if kind == "grid":
        return ("grid", item(depth - 1), rng.choice([(1, 1), (1, 2), (2, 1), (2, 2), None, (1, 3)]))
    raise ValueError(kind)


def gen_mixed_oneof(rng, depth, safe=False):
    """OneOf whose alternatives take values of DIFFERENT KINDS (a scalar, a tuple, a list, a list of rows), mostly with
    pairwise different leading characters, mostly with the table look-ups (Dict) and scalar tests in front of the
    alternatives for non-scalar values: every alternative is handed the items meant for the later ones.
    safe=True: only OneOfs whose alternatives have disjoint value domains apart from the tables in front (tables and
    scalars first, then at most one Tupl, then at most one Seq or Grid; all leading characters different), so that a
    decoded value is re-encoded by the alternative that decoded it or by a table holding that very value."""
    scalar = ["scalar-dict", "scalar-dict", "tuple-dict", "list-dict", "spaces", "hexint"]
    if safe:
        kinds = [rng.choice(scalar) for _ in range(rng.choice([1, 1, 2]))]
        r = rng.random()
        if r < 0.75:
            kinds.append("tupl")
        if r > 0.4:
            kinds.append(rng.choice(["seq", "seq", "grid"]))
    else:
        kinds = [rng.choice(scalar), rng.choice(["tupl", "tupl", "seq", "seq", "grid"])]
        for _ in range(rng.choice([0, 0, 1, 1, 2])):
            kinds.append(rng.choice(["scalar-dict", "tuple-dict", "list-dict", "spaces", "hexint", "tupl", "seq", "grid"]))
    alts, used = [], set()
    for kd in kinds:
        for _try in range(8):
            a = _mixed_alt(rng, kd, depth)
            l = lead_chars(a)
            if l is not None and not (l & used):
                break
        else:
            if safe or rng.random() < 0.7:
                continue        # (the rest: an alternative that is NOT distinguishable, kept on purpose)
            l = l or set()
        alts.append(a)
        used |= l
    if not safe:
        r = rng.random()
        if r < 0.15:
            rng.shuffle(alts)
        elif r < 0.3:
            alts.reverse()
    return ("oneof", alts)


def gen_mixed_term(rng, depth, safe=False):
    """a mixed-kind OneOf, bare or as the base of Seq / Grid / ValuedRooms or as a Tupl element"""
    m = gen_mixed_oneof(rng, depth, safe)
    r = rng.random()
    if r < 0.2:
        return m
    if r < 0.6:
        return ("seq", m, rng.randint(1, 5))
    if r < 0.75:
        return ("grid", m, (rng.randint(1, 3), rng.randint(1, 3)) if rng.random() < 0.6 else None)
    if r < 0.9:
        return ("tupl", [m] + [("fixstr", "/"), ("hexint",)][:rng.randint(0, 2)])
    return ("vrooms", m, rng.random() < 0.4, rng.random() < 0.3)


def gen_item_term(rng, depth, mixed="safe"):
    """AST of a combinator working on plain int items (possibly runs of them).  mixed: "safe" / "any" / None -- which OneOfs
    over alternatives of different value kinds are produced (see gen_mixed_oneof)."""
    r = rng.random()
    if depth >= 1 and r < 0.08 and mixed:
        return gen_mixed_term(rng, depth - 1, safe=(mixed == "safe"))
    if depth <= 0 or r < 0.45:
        k = rng.choice(["hexint", "spaces", "intspaces", "multidigit", "dict", "decint", "oneof-std", "yajilin"])
        if k == "hexint":
            return ("hexint",)
        if k == "decint":
            return ("decint",)
        if k == "yajilin":
            return ("oneof", [("yajilin",), ("spaces", "..", "a")])
        if k == "spaces":
            return ("spaces", rng.choice([0, -1, 7]), rng.choice("0123456789abcdefghijklmnopqrstuvwxyz"))
        if k == "intspaces":
            mi = rng.randint(0, 8)
            ms = rng.randint(0, 36 // (mi + 1) - 1)
            return ("intspaces", -1, mi, ms)
        if k == "multidigit":
            b = rng.randint(1, 6)
            d = 0 if rng.random() < 0.03 else 1
            while b ** (d + 1) <= 36 and d < 6 and rng.random() < 0.8:
                d += 1
            return ("multidigit", b, d)
        if k == "dict":
            n = rng.randint(1, 3)
            before = rng.sample([-1, 0, 1, 5, 16, None, "x", True], n)
            after = rng.sample([".", "z", "zz", "/", "-", "ab", "a", "", "0", "A", "F", "Zz", "_", "G"], n)
            return ("dict", before, after)
        space = rng.choice([0, -1])
        alts = [("spaces", space, rng.choice("ghijk")), ("hexint",)]
        if rng.random() < 0.5:
            alts.insert(0, ("dict", [rng.choice([-1, 0, -2])], ["."]))
        if rng.random() < 0.3:
            # a token alphabet outside [0-9a-z]: upper-case letters (incl. A-F, which are NOT hex digits here), '_', '.'
            toks = rng.sample(["A", "B", "F", "G", "Z", "_", "Ab"], 2)
            alts.append(("dict", ["wall", 77], toks))
        if rng.random() < 0.15:
            rng.shuffle(alts)
        return ("oneof", alts)
    if r < 0.6:
        return ("oneof", [gen_item_term(rng, depth - 1, mixed) for _ in range(rng.randint(0, 3))])
    if r < 0.75:
        return ("tupl", [gen_any_term(rng, depth - 1, mixed) for _ in range(rng.randint(0, 3))])
    if r < 0.9:
        return ("seq", gen_item_term(rng, depth - 1, mixed), rng.randint(0, 6))
    return ("grid", gen_item_term(rng, depth - 1, mixed), (rng.randint(0, 3), rng.randint(0, 3)) if rng.random() < 0.7 else None)


def gen_any_term(rng, depth, mixed="safe"):
    r = rng.random()
    if r < 0.12:
        return ("rooms", rng.random() < 0.4, rng.random() < 0.3)
    if r < 0.2:
        return ("vrooms", gen_item_term(rng, min(depth, 1), mixed), rng.random() < 0.4, rng.random() < 0.3)
    if r < 0.25:
        return ("fixstr", rng.choice(["", "/", "ab", "0", "é\ud800"]))
    return gen_item_term(rng, depth, mixed)


def sample_run(rng, ast, h, w, bad=0.0):
    """A run of items that one call of the combinator can consume (mostly valid; `bad` = chance of a defect)."""
    k = ast[0]

    def oops():
        return rng.random() < bad

    if k == "fixstr":
        return []
    if k == "dict":
        if oops() or not ast[1]:
            return [rng.choice([7, None, "q", [], ()])]
        return [rng.choice(ast[1])]
    if k == "spaces":
        maxc = 35 - (int(ast[2], 36) - 1)
        n = rng.choice([1, 1, 2, 3, max(1, maxc - 1), maxc, maxc + 1, maxc + 2, 2 * maxc, rng.randint(1, 40)])
        return [ast[1]] * n
    if k == "decint":
        if oops():
            return [rng.choice([-1, None, "5", True, False])]
        return [rng.choice([0, 1, 9, 10, 99, 100, 12345, 10 ** 12, rng.randint(0, 5000)] + ([10 ** 4299, 10 ** 4300] if rng.random() < 0.05 else []))]
    if k == "hexint":
        if oops():
            return [rng.choice([-1, 4096, None, "a", True, False, [1]])]
        return [rng.choice(SPECIAL_INTS[:15] + [rng.randint(0, 4095)])]
    if k == "intspaces":
        v = rng.randint(0, ast[2]) if not oops() else rng.choice([ast[2] + 1, -1, None, True, "1"])
        return [v] + [ast[1]] * rng.choice([0, 0, 1, ast[3], ast[3] + 1, rng.randint(0, 4)])
    if k == "multidigit":
        n = ast[2] if rng.random() < 0.8 else rng.randint(0, ast[2] + 1)
        out = [rng.randint(0, max(0, ast[1] - 1)) for _ in range(n)]
        if out and oops():
            out[rng.randrange(len(out))] = rng.choice([ast[1], -1, None, "0", True])
        return out
    if k == "yajilin":
        if oops():
            return [rng.choice(["..", "x1", "^", "^-1", "^1a", 5, None, "^٣", "^256", "^999", ""])]
        return [rng.choice(["??", "^0", "v1", "<9", ">10", "^15", "v16", "<17", ">255", "^007", "v00"])]
    if k == "oneof":
        if not ast[1]:
            return [0]
        return sample_run(rng, rng.choice(ast[1]), h, w, bad)
    if k == "tupl":
        comps = []
        for e in ast[1]:
            run = sample_run(rng, e, h, w, bad)
            if oops():
                run = run + sample_run(rng, e, h, w, bad)
            comps.append(run if rng.random() < 0.9 else tuple(run))
        if oops():
            return [rng.choice([tuple(comps[:-1]) if comps else (1,), list(comps), None, tuple(comps) + ([],)])]
        return [tuple(comps)]
    if k == "seq":
        return [sample_list(rng, ast[1], ast[2], h, w, bad)]
    if k == "grid":
        gh, gw = ast[2] if ast[2] is not None else (h, w)
        flat = list(sample_list(rng, ast[1], gh * gw, h, w, bad))
        rows = [flat[y * gw:(y + 1) * gw] for y in range(gh)]
        if len(flat) != gh * gw:
            rows = [flat]
        if oops():
            rows = rng.choice([rows[:-1], rows + [[0] * gw], [r + [0] for r in rows], tuple(rows), None])
        return [rows]
    if k == "rooms":
        return [sample_rooms(rng, h, w, bad)]
    if k == "vrooms":
        rooms = sample_rooms(rng, h, w, bad, for_valued=True)
        canon_n = len(rooms) if isinstance(rooms, list) else 0
        values = sample_list(rng, ast[1], canon_n, h, w, bad)
        if oops():
            values = rng.choice([list(values)[:-1], list(values) + list(values)[:1], list(values) + [0]])
        if oops():
            return [rng.choice([(rooms,), [rooms, values], (rooms, values, 1), None])]
        return [(rooms, values)]
    raise ValueError(ast)


def sample_list(rng, ast, n, h, w, bad=0.0):
    """A list of (about) n items the combinator `ast` can serialise as the base of Seq(…, n)."""
    out = []
    guard = 0
    while len(out) < n and guard < 4 * n + 4:
        run = sample_run(rng, ast, h, w, bad)
        out += run
        guard += 1
    if rng.random() < bad:
        return rng.choice([out[:max(0, n - 1)], out[:n] + out[:1], out, tuple(out[:n])])
    return out[:n]


def sample_rooms(rng, h, w, bad=0.0, for_valued=False):
    if h == 0 or w == 0:
        return []
    rooms = shuffled_rooms(rng, random_partition(rng, h, w)) if rng.random() < 0.85 else random_partition(rng, h, w)
    if rng.random() < bad:
        m = rng.randrange(8 if not for_valued else 5)
        r = rng.randrange(len(rooms))
        if m == 0:
            rooms[r] = rooms[r][:-1]                      # a cell without a room (or an empty room)
        elif m == 1:
            rooms[r] = rooms[r] + [rooms[(r + 1) % len(rooms)][0]]   # a cell in two rooms (or twice)
        elif m == 2:
            rooms[r] = rooms[r] + [rng.choice([(0, -1), (-1, 0), (h, 0), (0, w), (h, -1), (-1, w)])]
        elif m == 3:
            rooms = rooms + [[]]
        elif m == 4:
            rooms = rooms[:-1]
        elif m == 5:
            rooms[r] = rooms[r] + [rng.choice([(0,), (0, 0, 0), [0, 0], 5, None])]
        elif m == 6:
            rooms[r] = tuple(rooms[r])
        else:
            return rng.choice([None, tuple(rooms), 5])
    return rooms


# ------------------------------------------------------------------ text mutation / malformed text

UNICODE_POOL = ["²", "٣", "۵", "७", "０", "９", "①", "𝟘", "𝟗", "\ud800", "\udfff", "é", "Ａ", "\n", "\r", " ", "_", "A", "F", "Z",
                "٠", "۹", "\U0001d7ce", "\x00", " ", "%", "#", "=", "&"]


def mutate_text(rng, s):
    """ONE mutation: delete / insert / replace a character, truncate, extend."""
    m = rng.randrange(5)
    pool = URL_ALPHABET if rng.random() < 0.8 else "".join(UNICODE_POOL)
    c = rng.choice(pool)
    if m == 0 and s:
        i = rng.randrange(len(s))
        return s[:i] + s[i + 1:], "delete"
    if m == 1:
        i = rng.randint(0, len(s))
        return s[:i] + c + s[i:], "insert"
    if m == 2 and s:
        i = rng.randrange(len(s))
        return s[:i] + c + s[i + 1:], "replace"
    if m == 3 and s:
        return s[:rng.randrange(len(s))], "truncate"
    return s + "".join(rng.choice(pool) for _ in range(rng.randint(1, 3))), "extend"


def random_text(rng, maxlen=12):
    r = rng.random()
    n = rng.randint(0, maxlen)
    if r < 0.6:
        return "".join(rng.choice(URL_ALPHABET) for _ in range(n))
    if r < 0.8:
        return "".join(rng.choice(URL_ALPHABET + "".join(UNICODE_POOL)) for _ in range(n))
    if r < 0.9:
        return "".join(chr(rng.choice([rng.randrange(0x20, 0x7f), rng.randrange(0x80, 0x3000), rng.randrange(0x10000, 0x1ffff)]))
                       for _ in range(n))
    return "".join(rng.choice("-+0123456789abcdefg.") for _ in range(n))


def random_dim(rng):
    r = rng.random()
    if r < 0.55:
        return rng.randint(1, 6)
    if r < 0.7:
        return rng.randint(0, 1)
    if r < 0.95:
        return rng.randint(0, 70)
    return rng.choice([100, 1000, 10 ** 6, 10 ** 12, 2 ** 64])


def random_dims(rng):
    """(h, w); a huge dimension is only paired with a dimension >= 2: with a zero-width board (or a one-column Rooms
    board) both the real decoder and the model build `height` empty rows, which for 10**12 rows does not finish
    (reported as an observation: the cost of decoding is not bounded by the length of the text)."""
    h, w = random_dim(rng), random_dim(rng)
    if max(h, w) > 1000 and min(h, w) < 2:
        if h < w:
            h = 2
        else:
            w = 2
    return h, w


# ------------------------------------------------------------------ thin boards with one dimension around a power of two

POW2_DIMS = [255, 256, 257, 511, 512, 513, 1023, 1024, 1025, 2047, 2048, 2049, 4095, 4096, 4097]


def slab_cuts(n):
    """Positions c (a border between index c and c + 1 of the long dimension of length n): the two ends, one third, and
    both sides of the power of two nearest to n."""
    p = 1 << ((n + 2).bit_length() - 1)
    return sorted(c for c in {0, n // 3, p - 2, p - 1, n - 2} if 0 <= c <= n - 2)


def slab_border_text(h, w, cuts):
    """puzz.link border body of the h x w board cut into slabs ACROSS its long dimension after each index in `cuts`
    (columns if w >= h, rows otherwise), written from the format description (vertical borders row by row, then
    horizontal borders row by row, five bits per base-32 character, most significant first, last group zero padded);
    does not call the serializer."""
    cuts = set(cuts)
    along_w = w >= h
    vert = [1 if (along_w and x in cuts) else 0 for y in range(h) for x in range(w - 1)]
    horiz = [1 if ((not along_w) and y in cuts) else 0 for y in range(h - 1) for x in range(w)]
    out = []
    for bits in (vert, horiz):
        for i in range(0, len(bits), 5):
            g = bits[i:i + 5] + [0] * (5 - len(bits[i:i + 5]))
            out.append("0123456789abcdefghijklmnopqrstuv"[int("".join(map(str, g)), 2)])
    return "".join(out)


def slab_rooms(h, w, cuts):
    """the partition `slab_border_text(h, w, cuts)` describes, rooms and cells in canonical (row-major) order"""
    along_w = w >= h
    n = w if along_w else h
    edges = [0] + [c + 1 for c in sorted(cuts)] + [n]
    rooms = []
    for lo, hi in zip(edges, edges[1:]):
        if along_w:
            rooms.append([(y, x) for y in range(h) for x in range(lo, hi)])
        else:
            rooms.append([(y, x) for y in range(lo, hi) for x in range(w)])
    return rooms


PUZZLES = ["nurikabe", "masyu", "slitherlink", "sudoku", "nurimisaki", "yajilin", "heyawake", "lits", "norinori"]


def puzzle_objects():
    """name -> (module, combinator object, serialize fn, deserialize fn)"""
    import importlib
    out = {}
    for p in PUZZLES:
        m = importlib.import_module("cspuz.puzzle." + p)
        out[p] = (m, getattr(m, p.upper() + "_COMBINATOR"), getattr(m, "serialize_" + p), getattr(m, "deserialize_" + p))
    return out


def capture_codec(mod, name):
    """The arguments deserialize_<name> / serialize_<name> pass to the URL functions, captured by substituting the
    module-level names in-process (no source access)."""
    rec = {}
    orig_d = mod.deserialize_problem_as_url
    orig_s = mod.serialize_problem_as_url

    def fake_d(combinator, url, allowed_puzzles=None, allow_failure=False, return_size=False):
        rec["d"] = (combinator, allowed_puzzles, bool(allow_failure), bool(return_size))
        return None

    def fake_s(combinator, puzzle, height, width, problem, prefix="https://puzz.link/p?"):
        rec["s"] = (combinator, puzzle, prefix)
        return ""

    mod.deserialize_problem_as_url = fake_d
    mod.serialize_problem_as_url = fake_s
    try:
        getattr(mod, "deserialize_" + name)("x")
        ser = getattr(mod, "serialize_" + name)
        try:
            if name in ("lits", "norinori"):
                ser(1, 1, [[(0, 0)]])
            elif name == "heyawake":
                ser(1, 1, [[(0, 0)]], [-1])
            else:
                ser([[0]])
        except Exception:
            pass
    finally:
        mod.deserialize_problem_as_url = orig_d
        mod.serialize_problem_as_url = orig_s
    return rec


def check_puzzle_table(ctx, drv, objs):
    """The driver's copy of Gen/PuzzleCombinators.lean must describe the live *_COMBINATOR objects.  The Gen file and the
    driver binary are shared by all checks; if a concurrent check (e.g. another slice's mutation test on a scratch
    repo) regenerated them in between, regenerate + rebuild once before judging."""
    def stale():
        outs = drv.run(["(pcomb %s)" % p for p in PUZZLES])
        bad = []
        for p, mo in zip(PUZZLES, outs):
            live = comb_sx(objs[p][1])
            got = core.parse_sx(mo)
            if not isinstance(got, list) or core.sx(got[0]) != core.sx(core.parse_sx(live)):
                bad.append((p, live, mo))
        return bad
    bad = stale()
    if bad:
        from . import sergen
        sergen.gen_all()
        core.lake_build(["CspuzModel.Properties." + ctx.prop, "cspuzdriver"])
        ctx.notes.append("Gen/PuzzleCombinators.lean had been regenerated by a concurrent run; regenerated and rebuilt once")
        bad = stale()
    for p, live, mo in bad:
        ctx.disagree("puzzle-table-stale", puzzle=p, live=live, table=mo)
