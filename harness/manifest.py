"""Writes /verif/MANIFEST.json from the table below (run: /venv/bin/python -m harness.manifest)."""
import json
import os

VERIF = os.path.dirname(os.path.dirname(os.path.abspath(__file__)))

# property -> (level text, level note, technique, design_ref)
CLAIMED = {
    "C13": (
        "Kernel-checked theorem C13_getitem: for every element type, shape and key (ints, slices with any start/stop/step, "
        "pairs, coordinate lists) the model of Array2D._getitem_impl returns exactly what per-axis Python list indexing "
        "selects from the equivalent list of lists (same elements, order, result kind/shape, same exception); C13_reshape "
        "for flatten/reshape. Model tied to /repo by an exhaustive small-scope + random correspondence run against the real "
        "arrays, and the spec itself is run against CPython lists.",
        "Trusted: Lean kernel + propext/Classical.choice/Quot.sound; the Lean model of _parse_range/_range_size/_getitem_impl "
        "(hand-written, correspondence-checked); CPython's slice.indices and list indexing (modelled by sliceIndices / "
        "Spec.sliceSel, validated against CPython on every run); 1-D arrays delegate to list indexing (checked by correspondence).",
        "Lean 4 theorem (model = filter-style list-slicing spec) + differential correspondence",
        "DESIGN.md §5 C13"),
}

NOT_YET = "machinery for this property is still under construction in this round (model/theorems not yet committed)"

ALL = ["C%02d" % i for i in range(1, 21)]


def main():
    checks = []
    for p in ALL:
        if p in CLAIMED:
            text, note, tech, ref = CLAIMED[p]
            checks.append({
                "property_id": p,
                "quick_cmd": f"./check {p} --tier quick",
                "thorough_cmd": f"./check {p} --tier thorough",
                "evidence_file": f"evidence/{p}.json",
                "replay_cmd_template": f"./check {p} --replay {{path}}",
                "engine": "lean-cspuzmodel",
                "level_claimed": {"category": "proof", "text": text, "design_ref": ref},
                "level_note": note,
                "technique": tech,
            })
    m = {
        "version": 1,
        "setup_cmd": "cd lean && lake build CspuzModel cspuzdriver",
        "hooks": {
            "guard": "CSPUZ_VERIF",
            "enable": "no source hooks are needed: the harness captures programs by substituting Solver/backends in-process",
            "baseline_off_cmd": "cd /repo && /venv/bin/python -m pytest -ra -q -p no:cacheprovider --timeout=900 --continue-on-collection-errors",
            "source_commits": [],
            "add_only": True,
        },
        "engines": [{
            "name": "lean-cspuzmodel",
            "path": "lean/",
            "serves_properties": sorted(CLAIMED),
            "kind_free_text": "Lean 4 library: executable model of cspuz + specs + kernel-checked property theorems; "
                              "compiled line-protocol driver for the model-vs-code correspondence run by harness/*.py",
        }],
        "checks": checks,
        "not_applicable": [{"property_id": p, "reason": NOT_YET} for p in ALL if p not in CLAIMED],
        "notes": "See DESIGN.md. Every check: regenerate Gen tables from /repo -> lake build Properties.Cxx -> #print axioms audit -> "
                 "correspondence (real code vs compiled Lean model) -> failing-input search on the real code if anything broke.",
    }
    with open(os.path.join(VERIF, "MANIFEST.json"), "w") as f:
        json.dump(m, f, indent=1)


if __name__ == "__main__":
    main()
