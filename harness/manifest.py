"""Writes /verif/MANIFEST.json from the table below (run: /venv/bin/python -m harness.manifest)."""
import json
import os

VERIF = os.path.dirname(os.path.dirname(os.path.abspath(__file__)))

# property -> (level text, level note, technique, design_ref)
CLAIMED = {
    "C13": (
        "Kernel-checked theorem C13_getitem: for every element type, shape and key (ints, slices with any start/stop/step, "
        "pairs, coordinate lists) the model of Array2D._getitem_impl returns exactly what per-axis Python list indexing "
        "selects from the equivalent list of lists (same elements, order, result kind/shape, same exception); C13_reshape "
        "for flatten/reshape; C13_nested / C13_nested_getitem: an array built from a nested (list-of-rows) argument with the shape "
        "inferred equals the array built from the flattened buffer, so indexing it selects what indexing the nested list selects. "
        "Model tied to /repo by an exhaustive small-scope + random correspondence run against the real arrays (flat and nested "
        "constructors, Boolean indices, lookup histories with source-list mutation), and the spec itself is run against CPython lists.",
        "Trusted: Lean kernel + propext/Classical.choice/Quot.sound; the Lean model of _parse_range/_range_size/_getitem_impl "
        "(hand-written, correspondence-checked); CPython's slice.indices and list indexing (modelled by sliceIndices / "
        "Spec.sliceSel, validated against CPython on every run); 1-D arrays delegate to list indexing (checked by correspondence).",
        "Lean 4 theorem (model = filter-style list-slicing spec) + differential correspondence",
        "DESIGN.md §5 C13"),
    "C04": (
        "Kernel-checked theorems for ALL finite multigraphs, all lists of well-typed Boolean is_active expressions and all "
        "assignments: C04_aux_exact (the rank/root program emitted by the model of _active_vertices_connected can be completed "
        "to a satisfying assignment of the hidden variables iff the active set induces a connected subgraph / a tree or nothing "
        "when acyclic -- soundness, completeness and 'caller's variables not otherwise constrained' in one statement), "
        "C04_prim_exact (native operator route, incl. correctness of the label-propagation semantics w.r.t. Mathlib "
        "Preconnected), C04_dispatch (never primitive when acyclic; generator total), C04_grid (inferred grid graph = "
        "4-neighbour adjacency). The model is tied to /repo by program equality: the constraint program emitted by the real "
        "function on a real Solver equals the model's program (declarations in order, constraints as a multiset) on random "
        "graphs/grids/argument forms; on any break a bounded search runs the real program through the harness's own z3 "
        "translation against a BFS oracle to produce a concrete failing graph and pattern.",
        "Trusted: Lean kernel + standard axioms; Mathlib's SimpleGraph/Preconnected/IsTree; the reference semantics `eval` and "
        "the documented meaning of graph-active-vertices-connected (`evalAVC`); the hand-written Lean generator (tied by program "
        "equality on sampled calls); 0-vertex graphs raise ValueError (int_array(0,0,-1)) and are outside the theorem; acyclic "
        "statement assumes a loop-free graph.",
        "Lean 4 theorems (certificate layer + Mathlib graph theory) + program-equality correspondence",
        "DESIGN.md §5 C04"),
    "C09": (
        "Kernel-checked theorem C09_exact: for every loop-free multigraph, all well-typed Boolean edge-flag expressions and all "
        "assignments, the program emitted by the model of active_edges_acyclic is satisfiable by a choice of hidden ranks iff the "
        "active edges form a forest (Mathlib IsAcyclic of the active-edge graph and no two active parallel edges); C09_total. "
        "Tied to /repo by program equality on random multigraphs / flag forms; failing-input search over all edge subsets of "
        "small graphs on the real code.",
        "Trusted: Lean kernel + standard axioms; Mathlib IsAcyclic; `eval`; hand-written generator model tied by program equality; "
        "self-loops are outside the statement (the property says loop-free).",
        "Lean 4 theorems (certificate layer + Mathlib graph theory) + program-equality correspondence",
        "DESIGN.md §5 C09"),
    "C05": (
        "Kernel-checked theorems for ALL multigraphs, k>=1, well-typed integer label expressions with values in 0..k-1, roots lists "
        "(None holes) and both allow_empty_group settings: C05_aux_exact (rank/is_root/spanning_forest program of the model of "
        "_division_connected is satisfiable for a labeling iff every label class induces a connected subgraph, every label is used "
        "unless empty groups are allowed, and listed roots carry their position's label), C05_prim_exact (native route: indicator "
        "arrays + graph-active-vertices-connected + counts), C05_total. Tie: program equality with the real function on random "
        "graphs/grids/argument forms (IntArray1D, plain lists, (y,x) roots); failing-input search over all labelings of small graphs.",
        "Trusted: Lean kernel + standard axioms; Mathlib Preconnected; `eval`, `evalAVC`; hand-written generator model tied by program "
        "equality; n=0 raises ValueError on the auxiliary route (vacuous there).",
        "Lean 4 theorems (certificate layer + Mathlib graph theory) + program-equality correspondence",
        "DESIGN.md §5 C05"),
    "C14": (
        "Kernel-checked theorems for ALL frame heights/widths (incl. 0 and 1), all base offsets and ALL integer coordinates: "
        "C14_getitem (exact 3-case characterisation of doubled-coordinate addressing incl. IndexError), C14_cell, C14_vertex "
        "(exactly the bounding / incident segments, in the documented order), C14_graph (edge i of the list handed to the loop "
        "constraints is the segment joining exactly the two lattice points graph.edges[i]), C14_iter (all_edges = horizontal ++ "
        "vertical, a permutation of the graph edge list, no duplicates), C14_dual (roles swap, variables stay on their segments, "
        "dual of dual is the original), C14_names (injectivity of the naming used). Geometry spec is independent of the accessor "
        "code and is itself executed against the real accessors. Tie: exhaustive correspondence on all frames up to 5x5 (8x8 "
        "thorough) with a coordinate margin.",
        "Trusted: Lean kernel + standard axioms; Spec/FrameGeom.lean as the meaning of 'the geometry'; hand-written model of "
        "grid_frame.py/_from_grid_frame tied by exhaustive small-scope correspondence; theorems are about freshly allocated frames "
        "(consecutive variable ids, checked by the harness); ill-typed arguments and 0-sized inner frames are outside the model.",
        "Lean 4 theorems (index arithmetic) + exhaustive small-scope correspondence",
        "DESIGN.md §5 C14"),
    "C01": (
        "Kernel-checked theorems: C01_translation_faithful (for EVERY well-typed tree -- all operators, any arity incl. 0/1, "
        "Python literals, constant-only forms, any nesting -- the model of z3.py::_convert_expr succeeds and the z3 term, or the "
        "Python constant z3py folds to, means exactly what the tree means under every assignment), C01_z3_backend_correct (for any "
        "correct z3 the backend returns a genuine in-bounds model or, only when none exists, UNSAT), C01_find_answer_exact and "
        "C01_session (after EVERY prefix of any interleaving of declare/ensure/add_answer_key/find_answer the verdict is exactly the "
        "satisfiability of the program accumulated by that prefix, and sol is a model). Tie: programs built through the REAL DSL; "
        "the real _convert_expr result evaluated by z3 under random assignments vs the model's term semantics vs the reference eval; "
        "real find_answer('z3') verdict/sol vs enumeration by the Lean eval.",
        "Relative to a correct z3 (explicit hypothesis Z3Oracle.Correct). Trusted: Lean kernel + standard axioms; `eval` as the "
        "'ordinary meaning'; z3py coercion rules as modelled (ZV/ZT, validated by the correspondence); DSL construction itself is "
        "covered by C12, not here.",
        "Lean 4 theorems (structural induction on trees, induction over operation histories) + differential correspondence",
        "DESIGN.md §5 C01"),
    "C02": (
        "Kernel-checked theorems for every correct backend, every well-typed program and every key subset: C02_exact (solve() returns "
        "True iff satisfiable, never raises, and each key's sol is v iff every model gives v, None iff two models disagree), "
        "C02_terminates (the refute-and-re-solve loop stops within #keys+1 refuting solves; the model's fuel is never exhausted). The "
        "native deduction route is covered under C03. Tie: real Solver.solve driven by a mock backend class whose returned models "
        "are chosen by the PRNG, the same oracle answers drive the Lean loop; plus real solve('z3') vs the Lean enumeration spec.",
        "Relative to a correct backend (Backend.Correct). Trusted: Lean kernel + standard axioms; `eval`; the hand-written model of "
        "Solver.solve (tied by correspondence); a real loop that does not return within 10 s is reported as non-termination.",
        "Lean 4 theorems (loop invariant + termination measure) + differential correspondence",
        "DESIGN.md §5 C02"),
    "C06": (
        "Kernel-checked theorems for all loop-free multigraphs, all well-typed edge-flag expressions and assignments, both routes: "
        "C06_cycle_aux / C06_cycle_prim (satisfiable iff the active edges are empty or form exactly one simple cycle given as a cyclic "
        "sequence of distinct vertices and edges -- incl. the 2-cycle of parallel edges -- and is_passed is true exactly at visited "
        "vertices in every model), the degree-form versions, C06_regular_is_cycle / C06_regular_is_path (pure graph theory, proved), "
        "C06_path (primitive-only path constraint: one simple path with >= 1 edge, or empty as documented), "
        "C06_path_aux_unimplemented. Frame form: the edge list / lattice graph conversion is C14_graph. Tie: program equality "
        "(line-graph edge sets canonicalised) incl. frames; beyond the sizes program equality reaches, the real Graph.line_graph() of "
        "graphs with more than 2^16 edges is compared with the definition the model implements; search over all edge subsets with "
        "forced-value checks of is_passed.",
        "Trusted: Lean kernel + standard axioms; Mathlib Reachable; `eval`/`evalAVC`; hand-written generator model tied by program "
        "equality; self-loops excluded (loop-free hypothesis).",
        "Lean 4 theorems (certificate layer + graph theory incl. cycle extraction) + program-equality correspondence",
        "DESIGN.md §5 C06"),
    "C08": (
        "Kernel-checked for all graphs / ALL board shapes: C08_not_adjacent_graph, C08_not_adjacent_grid (shifted-slice form = pairwise "
        "form on the grid graph, 1xN and Nx1 included), C08_segmenting_graph (generic route = no adjacent actives and inactive vertices "
        "connected), C08_grid (FULL array-form statement: the specialised grid encoding accepts exactly the patterns of the "
        "explicit-graph form on the grid graph), assembled from C08_grid_line (single-row/column boards), C08_grid_diag_sound + "
        "C08_grid_diag_complete (diagonal-rank program satisfiable iff non-adjacent and the diagonal chains form a forest touching the "
        "border at most once, incl. the rank range (h*w-1)//2) and C08_planar (the discrete Jordan-curve lemma: diagonal forest iff "
        "white cells connected, proved by leaf removal / ray-casting parity). Tie: program equality on random graphs and boards up to "
        "5x5; failing-input search over all patterns of small boards, long diagonal chains on boards up to 8x8, small graphs; the "
        "thorough tier additionally compares both encodings exhaustively up to 16 cells on the real code.",
        "Trusted: Lean kernel + standard axioms; Mathlib IsAcyclic/Preconnected; generator models tied by program equality; boards with "
        "a zero dimension raise ValueError (vacuous).",
        "Lean 4 theorems (certificate layers + planar lemma) + program-equality correspondence",
        "DESIGN.md §5 C08"),
    "C10": (
        "Kernel-checked theorems for ALL frame sizes, both modes and both routes, for EVERY well-formed frame whose entries are "
        "well-typed Boolean expressions over the caller's variables at any variable offset (C10_general_aux / C10_general_prim; "
        "fresh frames at any offset, negated entries, dual frames are instances: C10_fresh_ok), and the original fresh-frame forms "
        "C10_exact_aux / C10_exact_prim (the emitted program "
        "is satisfiable iff every lattice point meets 0,1,2 or 4 active segments (0,2,4 for a cycle; 4 only at interior points) and all "
        "active segments belong to one strand, where segments continue each other at points of degree <= 2 and straight pairs pass "
        "through 4-way points; the returned arrays are exactly 'visited' and '4-way'), incl. the identification of split-graph "
        "connectivity with strand connectivity; C10_total / C10_general_total. Tie: program equality incl. the 3-nodes-per-point "
        "auxiliary graph, on frames allocated at offset 0 and at random offsets, with later caller variables and negated entries.",
        "Trusted: Lean kernel + standard axioms; Mathlib Reachable; hand-written model of active_edges_connected_crossable tied by "
        "program equality.",
        "Lean 4 theorems (local rules + reduction to C04 + strand/split-graph identification) + program-equality correspondence",
        "DESIGN.md §5 C10"),
    "C12": (
        "Kernel-checked theorems for all shapes (1-D, 2-D, empty, 1xN), all operand contents and assignments: C12_pointwise (every "
        "infix/reflected/unary/then/cond form through the full Python operator dispatch yields the operand shape with element i = op of "
        "the operand elements in semantic order; literals act as constants), C12_rejects (wrong-kind operand => TypeError, shape "
        "mismatch => ValueError), C12_count_true / C12_fold_or / C12_fold_and / C12_alldifferent over arbitrary nestings, C12_conv2d, "
        "C12_four_neighbors, C12_scalar_dispatch, and C12_dunder_table: a 7041-row table of (receiver class x operator form x operand "
        "kind) -> (operator, operand order) or exception, REGENERATED from the live classes on every run and re-checked by the kernel "
        "against the model. Tie: regenerated table + correspondence on random shapes/values.",
        "Trusted: Lean kernel + standard axioms; `eval`; the model of CPython's binary-operator dispatch; conv2d with negative window "
        "sizes and four_neighbors on out-of-range cells are modelled and correspondence-checked but not specified.",
        "Lean 4 theorems + kernel-checked regenerated dispatch table + differential correspondence",
        "DESIGN.md §5 C12"),
    "C07": (
        "Kernel-checked theorems for all multigraphs, all shapes of group_size (absent, constant / integer expression, per-vertex list "
        "with None holes) and all assignments: C07_groups_exact (a partition is realisable by the returned group ids -- equal ids "
        "exactly within a block, for some completion of the hidden variables -- iff every block induces a connected subgraph and every "
        "vertex with a specified size lies in a block of exactly that size; includes the subtree-size accounting), C07_groups_nosize, "
        "C07_borders_aux / C07_borders_prim (with-borders form, auxiliary route and native graph-division operator: satisfiable iff "
        "every border edge joins two different blocks of the partition obtained by cutting the border edges and the blocks meet the "
        "size condition). Inner-frame dualisation to the cell graph is covered by C14_dual/C14_graph. Tie: program equality incl. "
        "returned ids; search over all set partitions / border subsets of small graphs on the real code.",
        "Trusted: Lean kernel + standard axioms; Mathlib Reachable/Preconnected/Set.ncard; `eval`, `evalDiv`; hand-written generator "
        "model tied by program equality.",
        "Lean 4 theorems (certificate layer + graph theory + size accounting) + program-equality correspondence",
        "DESIGN.md §5 C07"),
    "C18": (
        "Kernel-checked theorems for all board sizes, all bound configurations (incl. None/0), all states, all candidate choices and all "
        "seed streams: C18_step (Inv preserved by every proposed update: merge, two-seed BFS Voronoi split, move of a boundary cell), "
        "C18_part_step, C18_initial, C18_reachable (induction over any finite update sequence), C18_isConnected (the recursive visit "
        "decides connectivity of block minus cell), C18_split_halves, C18_bfs_total, C18_pure. Random choices are parameters of the "
        "model. 'Never modifies the value it was applied to' is decided by the correspondence (snapshots of every earlier value). Tie: "
        "real SegmentationBuilder2D with `random` replaced in the harness process by a recording source feeding the same draws to the "
        "Lean model, over random walks; independent partition/BFS oracle.",
        "Trusted: Lean kernel + standard axioms; Spec/Partition.lean; hand-written model tied by correspondence; CPython recursion "
        "limit is a parameter (RecursionError on ~1000-cell blocks is an observation outside the property); set iteration order "
        "canonicalised; aliasing/purity rests on the harness.",
        "Lean 4 theorems (invariant by induction over updates) + differential correspondence with recorded randomness",
        "DESIGN.md §5 C18"),
    "C20": (
        "Kernel-checked decision-logic theorems over ALL environments, availability combinations, config values and call arguments: "
        "C20_backend (the class that receives the solve is the one named by the call argument, else by config.default_backend; unknown "
        "names => ValueError), C20_default (CSPUZ_DEFAULT_BACKEND verbatim unless 'auto', else first importable of cspuz_core, "
        "enigma_csp, csugar, z3, else sugar), C20_flags (defaults on exactly for the supporting backends, strict env parsing, "
        "infer_from_env=False), C20_strtobool, C20_primitive (each graph generator emits a native operator iff the resolved flag says "
        "so, never for acyclic connectivity), tables_agree (tables of _get_backend_by_name/_strtobool/_detect_backend/Config() "
        "REGENERATED from the live code in subprocesses under all 2^4 availability combinations, re-checked by the kernel). Tie: "
        "regenerated tables + dispatch/graph-call correspondence.",
        "Trusted: Lean kernel + standard axioms; str.lower modelled as ASCII folding (harness checks on every run that no non-ASCII "
        "code point lower-cases into a relevant character); import probing modelled as one Boolean per module.",
        "Lean 4 theorems (case analysis) + kernel-checked regenerated tables + differential correspondence",
        "DESIGN.md §5 C20"),
    "C19": (
        "Kernel-checked theorems for all seeds, states and inputs: C19_xorshift_range (every output < 2^32 although _w is unmasked), "
        "C19_randint_range + C19_randint_uniform (result is a + x mod w for the first accepted output; every residue is hit by exactly "
        "limit/w accepted 32-bit outputs), C19_choice, C19_shuffle_perm + C19_shuffle_bijective (every permutation of a duplicate-free "
        "list arises from exactly one admissible draw sequence), C19_random_range, C19_sound (a returned problem was passed to the "
        "solver, reported satisfiable, accepted by uniqueness and pretest), C19_neighbours (every tried neighbour differs only inside "
        "one builder's position by an admissible update), C19_array / C19_array_initial (ArrayBuilder2D: only listed cells change, to "
        "choice/default values; point symmetry of default-ness preserved; adjacency rule preserved by value-setting updates). "
        "Reproducibility w.r.t. the global random state / backend and purity (earlier problems never mutated) are decided by the "
        "correspondence: real runs under different random.seed() states and snapshots vs the model run from the same XorShift seed.",
        "Trusted: Lean kernel + standard axioms; the float acceptance test random() < exp(d/T) is an abstract parameter of the model "
        "(soundness does not depend on it); exactness of float(x)/2**32 checked per call by the harness; independence of successive "
        "PRNG outputs is not claimed; reproducibility/purity rest on the correspondence.",
        "Lean 4 theorems (invariants by induction over PRNG steps / generator steps, counting) + differential correspondence",
        "DESIGN.md §5 C19"),
    "C03": (
        "Kernel-checked theorems for all programs, variable lists (sparse, permuted ids, negative bounds), key subsets and replies: "
        "C03_text_roundtrip (the CSP description parses back -- with an independent reading of Sugar's input syntax -- to exactly the "
        "declared variables with their domains, the posted constraints up to 'constant node = literal', and the registered keys in "
        "deduction mode; pure ASCII), C03_wt_printable (every well-typed tree incl. the two native graph operators with * for None), "
        "C03_reply_sat / C03_reply_facts (string-level round trips of both reply formats of CspuzSugarInterface.java into sol fields "
        "of the right variables with the right Python types, arbitrary integers), C03_five_backends (regenerated dispatch table: shared "
        "printer/parsers, only `sugar` lacks native deduction, entry points), C03_backend_correct, C03_native_deduction, "
        "C03_plain_sugar (so C01/C02 hold through these backends for a correct external solver), C03_java_loop (the Java deduction "
        "loop prints exactly the exact facts), C03_solver_exists (hypotheses satisfiable). Tie: the exact string handed to each of "
        "the five real backend classes (patched run_subprocess / planted fake modules) vs the model; real parsers fed replies from the "
        "model's formatter.",
        "Relative to a correct external solver (SolverCorrect). Trusted: Sugar's input syntax and the two wire formats are modelled "
        "from the documentation and the Java source (no Sugar-family solver exists in the sandbox, the Java cannot be run); "
        "pycsugar/enigma_csp/cspuz_core assumed to print the same formats; one-operand SUB (only buildable by hand) excluded.",
        "Lean 4 theorems (printer/parser round trips by induction) + regenerated name/dispatch table + text-level correspondence",
        "DESIGN.md §5 C03"),
    "C11": (
        "Per puzzle (the evidence file lists the status of each module, measured on each run; all 31 modules of cspuz.puzzle -- the 26 "
        "named in the property plus firefly, magnets, nanro, nurimaze, slalom -- have status theorem). Kernel-checked: "
        "C11_compose (if the program posted by a solve_<puzzle> encodes the rules R -- an answer grid extends to a model of the whole "
        "program incl. hidden variables iff it obeys R -- then for every correct backend the solver reports a solution iff a "
        "rule-obeying grid exists and its decided cells are exactly the cells on which all rule-obeying grids agree), and per puzzle "
        "`Cspuz.C11.<P>.program_iff_rules` + `total` (the Lean model of the posted program encodes an independently written rules "
        "spec, for all board sizes and clue layouts), the planar puzzles yinyang, castle_wall and shakashaka included. For EVERY module: "
        "(a) program correspondence -- the program posted by the real solve_<p> (recording Solver "
        "substituted in the module) equals the Lean model's program (declarations, constraint multiset, answer keys) on random small "
        "instances and on a 6x9 board and boards with more than 256 cells; (b) rule differential -- real solve_<p> through z3 vs exact "
        "facts by brute force over all answer grids with an independent plain-Python rule checker; (c) only after (a) broke: "
        "model-guided search on medium boards (the real report vs what the model's program admits, every difference turned into a "
        "witness grid judged by the rule checker).",
        "Relative to a correct backend. Trusted: Lean kernel + standard axioms; the rule specs (Spec/PuzzleRules/*.lean) and the Python "
        "rule checkers, written from the published rule texts (adopted readings are marked READING: in the modules: nurikabe needs a "
        "sea cell, aquarium levels per touching cells, empty loop allowed); hand-written program models tied by program equality; "
        "z3 (harness translation) for the differential and the search.",
        "Lean 4 theorems (composition + per-puzzle encodes-rules) + program-equality correspondence + bounded rule differential",
        "DESIGN.md §5 C11"),
    "C15": (
        "Kernel-checked theorems over the model of problem_serializer.py: C15_leaves_local (every leaf combinator -- FixStr, Dict, "
        "Spaces, DecInt (under 'next character is not a digit'), HexInt, IntSpaces, MultiDigit -- decodes what it emitted, in any "
        "context, consuming exactly the produced characters), C15_composition (locality preserved by Seq, Grid with explicit "
        "dimensions >= 0, Tupl, and OneOf under the decidable Distinguishable side condition), C15_roundtrip (for every well-formed "
        "problem-level term, every board size and every value in its domain: deserialize_problem(serialize_problem(v)) = v), "
        "C15_seq_terminates, C15_borders_roundtrip, C15_rooms and C15_valued_rooms (all h,w >= 1, rooms and cells in ANY order: the "
        "decoded partition is the canonical form, values stay attached to their rooms; includes flood-fill correctness), "
        "C15_puzzles_wf (the REGENERATED puzzle combinators are well-formed terms), C15_wf_ctorOk (every well-formed term is accepted "
        "by the model of the real constructors' argument checks). Tie: random combinator terms and values through "
        "the real classes vs the model (outcome kinds and constructor acceptance included, every constructor argument form, "
        "aliasing of decoded values with the combinator's own tables), regenerated puzzle combinator table.",
        "Trusted: Lean kernel + standard axioms; hand-written model of the combinator classes tied by correspondence; strings "
        "modelled as lists of Unicode scalar values (lone surrogates excluded); degenerate terms whose Seq base can succeed without "
        "consuming or producing anything loop forever in Python and are excluded by `wf` (recorded as a termination observation).",
        "Lean 4 theorems (structural induction on combinator terms, flood-fill invariant) + differential correspondence",
        "DESIGN.md §5 C15"),
    "C17": (
        "Kernel-checked theorems: C17_total (for every combinator term and EVERY string, deserialize returns a value, None, or raises "
        "ValueError -- never IndexError/KeyError/AssertionError/TypeError/RecursionError), C17_total_problem (deserialize_problem: "
        "None, ValueError or a problem of the stated dimensions), C17_total_url (deserialize_problem_as_url with any allowed_puzzles / "
        "allow_failure / return_size on ANY string, and get_puzzle_info_from_url), C17_total_puzzles (every regenerated puzzle codec), "
        "re-encodability (whenever a problem is returned, serializing it succeeds and decoding that text returns the same problem) for "
        "all NINE puzzle codecs incl. the URL layer (C17_reencodable_puzzles, C17_reencodable_rooms_puzzles), for every nested Seq/Grid "
        "term over closed flat bases (C17_reencodable_nested), for Rooms with all flags and board sizes (C17_reencodable_rooms, via "
        "C17_rooms_decoded_canonical: whatever Rooms.deserialize returns is a canonical valid partition) and ValuedRooms "
        "(C17_reencodable_valued_rooms). The full statement for ARBITRARY terms is proved FALSE on the current code "
        "(C17_reencodable_fails: a Tupl whose element is a value-ambiguous OneOf loses items -- known finding K1, replayed on the real "
        "code every run); other Tupl/OneOf-above-Seq terms are covered by the property oracle that runs on the real code for every "
        "generated in-scope case in every run. Tie: structured (valid encoding + one mutation) "
        "and malformed (random URL-alphabet / Unicode strings, dims 0..70) streams through every real codec vs the model, outcome "
        "kinds compared one by one; Unicode digit table regenerated from the running CPython.",
        "Trusted: Lean kernel + standard axioms; model of str.isdigit/int() via the regenerated Unicode digit table; the regex as a "
        "hand-written matcher (validated against `re`); re-encodability of terms outside the proved classes rests on the per-run oracle.",
        "Lean 4 theorems (totality by structural induction; re-encodability for the puzzle codecs, nested Seq/Grid, Rooms, ValuedRooms; "
        "refutation of the unrestricted statement) + differential correspondence on malformed input + per-run property oracle",
        "DESIGN.md §5 C17"),
    "C16": (
        "Kernel-checked theorems for all problems of each module's format and all board sizes (non-square, 1xN, 1x1 included): URL "
        "round trips deserialize_<p>(serialize_<p>(pb)) = pb with height/width recovered for nurikabe, masyu, slitherlink, sudoku, "
        "nurimisaki, yajilin (all clue kinds), heyawake, lits, norinori (any order of rooms and cells; canonical form; clues stay "
        "attached) -- as instances of the C15 theorems on the REGENERATED combinator terms -- and compass parse(to(pb)) = pb; the URL "
        "frame prefix name/width/height/body and get_puzzle_info_from_url = (name, height, width); an INDEPENDENT decoder of the pzpr "
        "encodings (number16, border bitmaps, 4-cell, base-3 circles, arrow-number, star-battle and aquarium bodies) reads every "
        "produced body back as the same problem (12 modules); the legacy encoders encode_array / encode_grid_segmentation produce the "
        "same text as the combinator codecs on identical data (with the exact domain of agreement). Tie: random problems per module "
        "through the real functions vs the model and the pzpr decoder (Lean and a plain-Python twin).",
        "Trusted: Lean kernel + standard axioms; the pzpr format as written in Spec/Pzpr.lean from its public description (pzpr's "
        "source is not available offline; unsure points are marked UNSURE there: the '/' in aquarium bodies, outside-number order, "
        "compass token order); CPython's 4300-digit int limit as an explicit hypothesis; hand-written codec model tied by "
        "correspondence.",
        "Lean 4 theorems (corollaries of the C15 round trips + independent pzpr decoders) + differential correspondence",
        "DESIGN.md §5 C16"),
}

NOT_YET = "machinery for this property is still under construction in this round (model/theorems not yet committed)"

ALL = ["C%02d" % i for i in range(1, 21)]


def main():
    checks = []
    for p in ALL:
        if p in CLAIMED:
            text, note, tech, ref = CLAIMED[p]
            checks.append({
                "property_id": p,
                "quick_cmd": f"./check {p} --tier quick",
                "thorough_cmd": f"./check {p} --tier thorough",
                "evidence_file": f"evidence/{p}.json",
                "replay_cmd_template": f"./check {p} --replay {{path}}",
                "engine": "lean-cspuzmodel",
                "level_claimed": {"category": "proof", "text": text, "design_ref": ref},
                "level_note": note,
                "technique": tech,
            })
    m = {
        "version": 1,
        "setup_cmd": "cd lean && lake build CspuzModel cspuzdriver",
        "hooks": {
            "guard": "CSPUZ_VERIF",
            "enable": "no source hooks are needed: the harness captures programs by substituting Solver/backends in-process",
            "baseline_off_cmd": "cd /repo && /venv/bin/python -m pytest -ra -q -p no:cacheprovider --timeout=900 --continue-on-collection-errors",
            "source_commits": [],
            "add_only": True,
        },
        "engines": [{
            "name": "lean-cspuzmodel",
            "path": "lean/",
            "serves_properties": sorted(CLAIMED),
            "kind_free_text": "Lean 4 library: executable model of cspuz + specs + kernel-checked property theorems; "
                              "compiled line-protocol driver for the model-vs-code correspondence run by harness/*.py",
        }],
        "checks": checks,
        "not_applicable": [{"property_id": p, "reason": NOT_YET} for p in ALL if p not in CLAIMED],
        "notes": "See DESIGN.md. Every check: regenerate Gen tables from /repo -> lake build Properties.Cxx -> #print axioms audit -> "
                 "correspondence (real code vs compiled Lean model) -> failing-input search on the real code if anything broke.",
    }
    with open(os.path.join(VERIF, "MANIFEST.json"), "w") as f:
        json.dump(m, f, indent=1)
    # the library root imports the property files of every claimed check, so that setup_cmd builds them all
    root = ["-- generated by harness/manifest.py: one import per claimed property"]
    root += [f"import CspuzModel.Properties.{'C11All' if p == 'C11' else p}" for p in sorted(CLAIMED)]
    with open(os.path.join(VERIF, "lean", "CspuzModel.lean"), "w") as f:
        f.write("\n".join(root) + "\n")


if __name__ == "__main__":
    main()
