"""C03 — Sugar-family backends: emitted CSP text and parsed replies are faithful.

gen        : Gen/SugarOpNames.lean from the LIVE code: `OP_TO_OPNAME`; for each of the five names the class
             `_get_backend_by_name` returns, whether it inherits the shared `__init__`/`add_constraint`/`solve`, whether
             `solve_irrefutably` is the shared one or raises NotImplementedError (observed), and which external entry
             point `_call_solver` reaches (observed with a patched `run_subprocess` / planted fake modules); the codecs
             of `run_subprocess` (observed with a patched `subprocess.run`).
correspond : real programs (random DSL sessions, native graph primitives, permuted / sparse / hand-made variable
             lists, degenerate trees) through each of the five REAL backend classes with the external entry point
             replaced by a recorder; compared with the compiled Lean model: the exact description text, the Spec's
             reading of that text, the reference formatters, and (for replies written per the Java format, well-formed
             and malformed) the return value and every variable's `sol` (value and Python type), for `find_answer`,
             native deduction and the plain-`sugar` refinement loop.
search     : plain-Python oracle written from the property text: an independent reader / evaluator of the Sugar text,
             well-formed replies written directly per CspuzSugarInterface.java, and an end-to-end mock solver.
"""
import os
import sys
import types
import warnings

from . import core, exprio, dslgen, graphs
from .core import Finding, sx

THEOREMS = ["Cspuz.C03.C03_text_roundtrip", "Cspuz.C03.C03_wt_printable", "Cspuz.C03.C03_reply_sat",
            "Cspuz.C03.C03_reply_facts", "Cspuz.C03.C03_five_backends", "Cspuz.C03.C03_backend_correct",
            "Cspuz.C03.C03_native_deduction", "Cspuz.C03.C03_plain_sugar", "Cspuz.C03.C03_java_loop",
            "Cspuz.C03.C03_solver_exists"]

NAMES = ["sugar", "sugar_extended", "csugar", "enigma_csp", "cspuz_core"]
FAKE_MODULES = {"csugar": "pycsugar", "enigma_csp": "enigma_csp", "cspuz_core": "cspuz_core"}
LEAN_OP = {"VAR": "var", "BOOL_CONSTANT": "boolConst", "INT_CONSTANT": "intConst", "NEG": "neg", "ADD": "add",
           "SUB": "sub", "EQ": "eq", "NE": "ne", "LE": "le", "LT": "lt", "GE": "ge", "GT": "gt", "NOT": "not",
           "AND": "and", "OR": "or", "IFF": "iff", "XOR": "xor", "IMP": "imp", "IF": "ite", "ALLDIFF": "alldiff",
           "GRAPH_ACTIVE_VERTICES_CONNECTED": "graphAVC", "GRAPH_DIVISION": "graphDiv"}


# ---------------------------------------------------------------------------------------------------------
# recording the external entry points


class Recorder:
    """Replaces `run_subprocess` in cspuz.backend.sugar_like and plants fake pycsugar / enigma_csp / cspuz_core."""

    def __init__(self, reply_fn):
        self.reply_fn = reply_fn
        self.calls = []   # (entry, description)

    def __enter__(self):
        import cspuz.backend.sugar_like as SL
        self.SL = SL
        self.saved_rs = SL.run_subprocess
        self.saved_mods = {m: sys.modules.get(m, "absent") for m in FAKE_MODULES.values()}

        def fake_rs(args, input, timeout=None):
            self.calls.append(("subprocess:" + ",".join(str(a) for a in args), input))
            return self.reply_fn(input)
        SL.run_subprocess = fake_rs
        for m in FAKE_MODULES.values():
            mod = types.ModuleType(m)

            def solver(desc, m=m):
                self.calls.append((f"module:{m}.solver", desc))
                return self.reply_fn(desc)
            mod.solver = solver
            sys.modules[m] = mod
        return self

    def __exit__(self, *a):
        self.SL.run_subprocess = self.saved_rs
        for m, old in self.saved_mods.items():
            if old == "absent":
                sys.modules.pop(m, None)
            else:
                sys.modules[m] = old
        return False


# ---------------------------------------------------------------------------------------------------------
# gen


def _lean_str(s):
    return '"' + s.replace("\\", "\\\\").replace('"', '\\"').replace("\n", "\\n").replace("\t", "\\t") + '"'


def extract_tables():
    import cspuz.backend.sugar_like as SL
    from cspuz import solver as S
    from cspuz.configuration import config
    ops = []
    for op, name in SL.OP_TO_OPNAME.items():
        if not isinstance(name, str):
            raise TypeError("OP_TO_OPNAME value is not a str")
        ops.append((LEAN_OP[op.name], name))
    rows = []
    base = SL.SugarLikeBackend
    for name in NAMES:
        cls = S._get_backend_by_name(name)
        shared = (isinstance(cls, type) and issubclass(cls, base) and cls.__init__ is base.__init__
                  and cls.add_constraint is base.add_constraint and cls.solve is base.solve)
        native = cls.solve_irrefutably is base.solve_irrefutably
        probe = "(bool b0)\nb0"
        canned = "s SATISFIABLE\na b0\ttrue\na\n"
        with Recorder(lambda d: canned) as rec:
            obj = cls([])
            if not native:
                try:
                    obj.solve_irrefutably([])
                    raise RuntimeError(f"{cls.__name__}.solve_irrefutably is overridden and did not raise")
                except NotImplementedError:
                    pass
            out = obj._call_solver(probe)
        if len(rec.calls) != 1 or rec.calls[0][1] != probe or out != canned:
            raise RuntimeError(f"{cls.__name__}._call_solver does not pass description / reply through unchanged")
        entry = rec.calls[0][0]
        if entry.startswith("subprocess:"):
            args = entry[len("subprocess:"):].split(",")
            if len(args) != 2 or args[0] != (config.backend_path or "sugar"):
                raise RuntimeError(f"{cls.__name__}: unexpected subprocess arguments {args}")
            entry = "subprocess:" + args[1]
        rows.append((name, cls.__name__, shared, native, entry))
    # codecs of run_subprocess
    import subprocess
    from cspuz.backend import _subproc
    seen = {}

    class R:
        stdout = "\u00e9".encode("utf-8")

    def fake_run(args, input=None, stdout=None, **kw):
        seen["input"] = input
        return R()
    saved = subprocess.run
    subprocess.run = fake_run
    try:
        out = _subproc.run_subprocess(["x"], "abc")
        enc = "?"
        if seen.get("input") == b"abc":
            try:
                _subproc.run_subprocess(["x"], "\u00e9")
                enc = "non-ascii-accepted"
            except UnicodeEncodeError as e:
                enc = e.encoding
        dec = "utf-8" if out == "\u00e9" else "?"
    finally:
        subprocess.run = saved
    return ops, rows, (enc, dec)


def render_tables(ops, rows, codecs):
    b = lambda x: "true" if x else "false"
    L = []
    L.append("/-  GENERATED by harness/c03.py::gen from the live /repo modules on every run of ./check C03.  Do not edit. -/")
    L.append("import CspuzModel.Model.Expr")
    L.append("namespace Cspuz.Gen.Sugar")
    L.append("open Cspuz")
    L.append("")
    L.append("/-- `cspuz.backend.sugar_like.OP_TO_OPNAME` (in dict order). -/")
    L.append("def opNameTable : List (Op × String) := [")
    L.append(",\n".join(f"  (.{o}, {_lean_str(n)})" for o, n in ops) + "]")
    L.append("")
    L.append("/-- One row per text-protocol backend name accepted by `_get_backend_by_name`. -/")
    L.append("structure BackendRow where")
    L.append("  /-- the backend name -/")
    L.append("  name : String")
    L.append("  /-- the class it maps to -/")
    L.append("  cls : String")
    L.append("  /-- the class is a subclass of `SugarLikeBackend` and `__init__`, `add_constraint`, `solve` are the inherited")
    L.append("  (shared) functions: the shared printer and the shared answer-finder reply parser are used -/")
    L.append("  sharedCore : Bool")
    L.append("  /-- `solve_irrefutably` is the inherited shared one (native deduction mode); `false` = the class overrides it")
    L.append("  and the override raises NotImplementedError (observed by calling it) -/")
    L.append("  nativeDeduction : Bool")
    L.append("  /-- how `_call_solver(desc)` reaches the external solver (observed by calling it with planted fakes):")
    L.append("  `subprocess:/dev/stdin` = `run_subprocess([<config.backend_path or \"sugar\">, \"/dev/stdin\"], desc, …)`,")
    L.append("  `module:<m>.solver` = `<m>.solver(desc)`; the description is passed unchanged and the reply returned unchanged -/")
    L.append("  entry : String")
    L.append("  deriving DecidableEq, Repr")
    L.append("")
    L.append("def backendTable : List BackendRow := [")
    L.append(",\n".join(f"  ⟨{_lean_str(n)}, {_lean_str(c)}, {b(s)}, {b(nat)}, {_lean_str(e)}⟩" for n, c, s, nat, e in rows) + "]")
    L.append("")
    L.append("/-- `run_subprocess` encodes its input with this codec and decodes stdout with the second one. -/")
    L.append(f"def subprocCodecs : String × String := ({_lean_str(codecs[0])}, {_lean_str(codecs[1])})")
    L.append("")
    L.append("end Cspuz.Gen.Sugar")
    return "\n".join(L) + "\n"


def gen(ctx):
    ops, rows, codecs = extract_tables()
    text = render_tables(ops, rows, codecs)
    path = os.path.join(core.LEAN, "CspuzModel", "Gen", "SugarOpNames.lean")
    if not os.path.exists(path) or open(path).read() != text:
        with open(path, "w") as f:
            f.write(text)


# ---------------------------------------------------------------------------------------------------------
# wire helpers


def codes(s):
    return "(" + " ".join(str(ord(c)) for c in s) + ")"


def decode(t):
    return "".join(chr(int(x)) for x in t)


def pvar(v):
    from cspuz.expr import BoolVar
    if isinstance(v, BoolVar):
        return f"(b {v.id})"
    return f"(i {v.id} {v.lo} {v.hi})"


def pvars(vs):
    return "(" + " ".join(pvar(v) for v in vs) + ")"


def vname(v):
    from cspuz.expr import BoolVar
    return ("b" if isinstance(v, BoolVar) else "i") + str(v.id)


def sols_of(vs):
    return [sx(v.sol) for v in vs]    # T/F for bool, decimal for int, N for None: the Python TYPE is visible


def model_result(out):
    """driver `(ok (T (..)))` / `(err Name)` -> canonical python list"""
    t = core.parse_sx(out)
    if t[0] == "err":
        return ["err", t[1]]
    return [t[1][0], list(t[1][1])]


# ---------------------------------------------------------------------------------------------------------
# reply formats written directly from CspuzSugarInterface.java (independent of the Lean model)


def java_sat(vs, asg):
    from cspuz.expr import BoolVar
    out = ["s SATISFIABLE"]
    for v in vs:
        if not isinstance(v, BoolVar):
            out.append("a i%d\t%d" % (v.id, asg[vname(v)]))
    for v in vs:
        if isinstance(v, BoolVar):
            out.append("a b%d\t%s" % (v.id, "true" if asg[vname(v)] else "false"))
    out.append("a")
    return "\n".join(out) + "\n"


def java_facts(vs, keynames, facts):
    from cspuz.expr import BoolVar
    ks = set(keynames)
    out = ["sat"]
    for v in vs:
        if not isinstance(v, BoolVar) and vname(v) in ks and facts.get(vname(v)) is not None:
            out.append("i%d %d" % (v.id, facts[vname(v)]))
    for v in vs:
        if isinstance(v, BoolVar) and vname(v) in ks and facts.get(vname(v)) is not None:
            out.append("b%d %s" % (v.id, "true" if facts[vname(v)] else "false"))
    return "\n".join(out) + "\n"


# ---------------------------------------------------------------------------------------------------------
# independent reader / evaluator of the Sugar text (for `search` and for the end-to-end mock solver)


def read_sugar(desc):
    keys = None
    body = []
    for line in desc.split("\n"):
        if line.startswith("#"):
            keys = [k for k in line[1:].split(" ") if k != ""]
        else:
            body.append(line)
    text = "\n".join(body)
    toks = text.replace("(", " ( ").replace(")", " ) ").split()
    stack = [[]]
    for t in toks:
        if t == "(":
            stack.append([])
        elif t == ")":
            x = stack.pop()
            stack[-1].append(x)
        else:
            stack[-1].append(t)
    if len(stack) != 1:
        raise ValueError("unbalanced")
    decls, cs = [], []
    for f in stack[0]:
        if isinstance(f, list) and f and f[0] == "int":
            decls.append(("i", f[1], int(f[2]), int(f[3])))
        elif isinstance(f, list) and f and f[0] == "bool":
            decls.append(("b", f[1]))
        else:
            cs.append(f)
    return decls, cs, keys


class Ill(Exception):
    pass


def sugar_ev(t, asg):
    """Meaning of a Sugar term / formula (documented syntax of Sugar + the two extension operators)."""
    if isinstance(t, str):
        if t == "true":
            return True
        if t == "false":
            return False
        if t == "*":
            return None
        if t in asg:
            return asg[t]
        return int(t)
    op = t[0]
    a = [sugar_ev(x, asg) for x in t[1:]]

    def ints(n=None):
        if any(isinstance(x, bool) or not isinstance(x, int) for x in a) or (n is not None and len(a) != n):
            raise Ill(op)
        return a

    def bools(n=None):
        if any(not isinstance(x, bool) for x in a) or (n is not None and len(a) != n):
            raise Ill(op)
        return a
    if op == "-":
        if len(a) == 1:
            return -ints(1)[0]
        xs = ints()
        if not xs:
            raise Ill(op)
        r = xs[0]
        for x in xs[1:]:
            r -= x
        return r
    if op == "+":
        if not a:
            raise Ill(op)
        return sum(ints())
    if op in ("=", "!=", "<=", "<", ">=", ">"):
        x, y = ints(2)
        return {"=": x == y, "!=": x != y, "<=": x <= y, "<": x < y, ">=": x >= y, ">": x > y}[op]
    if op == "!":
        return not bools(1)[0]
    if op == "&&":
        return all(bools())
    if op == "||":
        return any(bools())
    if op == "iff":
        x, y = bools(2)
        return x == y
    if op == "xor":
        x, y = bools(2)
        return x != y
    if op == "=>":
        x, y = bools(2)
        return (not x) or y
    if op == "if":
        if len(a) != 3 or not isinstance(a[0], bool):
            raise Ill(op)
        for x in a[1:]:
            if isinstance(x, bool) or not isinstance(x, int):
                raise Ill(op)
        return a[1] if a[0] else a[2]
    if op == "alldifferent":
        xs = ints()
        return len(set(xs)) == len(xs)
    if op == "graph-active-vertices-connected":
        n, m = a[0], a[1]
        act, es = a[2:2 + n], a[2 + n:]
        if len(es) != 2 * m or any(not isinstance(x, bool) for x in act):
            raise Ill(op)
        edges = [(es[2 * i], es[2 * i + 1]) for i in range(m)]
        return exprio.connected([v for v in range(n) if act[v]], [(u, v) for u, v in edges if act[u] and act[v]])
    if op == "graph-division":
        n, m = a[0], a[1]
        sizes, es, bd = a[2:2 + n], a[2 + n:2 + n + 2 * m], a[2 + n + 2 * m:]
        if len(bd) != m or any(not isinstance(x, bool) for x in bd):
            raise Ill(op)
        edges = [(es[2 * i], es[2 * i + 1]) for i in range(m)]
        comp = exprio.components(n, [e for i, e in enumerate(edges) if not bd[i]])
        for i, (u, v) in enumerate(edges):
            if bd[i] and comp[u] == comp[v]:
                return False
        for v in range(n):
            if sizes[v] is not None and sum(1 for u in range(n) if comp[u] == comp[v]) != sizes[v]:
                return False
        return True
    raise Ill("unknown operator " + op)


def sugar_models(decls, cs, limit=300000):
    import itertools
    names, doms = [], []
    for d in decls:
        names.append(d[1])
        doms.append([False, True] if d[0] == "b" else list(range(d[2], d[3] + 1)))
    total = 1
    for d in doms:
        total *= len(d)
        if total > limit:
            # a large program: propagation first, enumeration of what stays open (OverflowError if that is still too much)
            return dslgen.scalable_models(names, doms, cs, sugar_ev, "||", "&&", limit)
    out = []
    for combo in itertools.product(*doms):
        asg = dict(zip(names, combo))
        if all(sugar_ev(c, asg) is True for c in cs):
            out.append(asg)
    return out


def make_mock_sugar(rng, log=None):
    """An external solver written in Python from the documentation: reads the text, solves by enumeration, prints the
    reply per CspuzSugarInterface.java.  WHICH model it prints is drawn from `rng`."""
    count = [0]

    def solver(desc):
        count[0] += 1
        if count[0] > 60:     # the refinement loop of Solver.solve needs at most #keys + 2 calls
            raise RuntimeError("the external solver was called more than 60 times in one session")
        decls, cs, keys = read_sugar(desc)
        models = sugar_models(decls, cs)
        ints = [d for d in decls if d[0] == "i"]
        bools = [d for d in decls if d[0] == "b"]
        if keys is None:
            if not models:
                reply = "s UNSATISFIABLE\n"
            else:
                m = rng.choice(models)
                reply = "s SATISFIABLE\n" + "".join("a %s\t%d\n" % (d[1], m[d[1]]) for d in ints) + "".join(
                    "a %s\t%s\n" % (d[1], "true" if m[d[1]] else "false") for d in bools) + "a\n"
        else:
            if not models:
                reply = "unsat\n"
            else:
                ks = set(keys)
                lines = ["sat"]
                for d in ints + bools:
                    if d[1] in ks:
                        vals = {m[d[1]] for m in models}
                        if len(vals) == 1:
                            v = vals.pop()
                            lines.append("%s %s" % (d[1], ("true" if v else "false") if d[0] == "b" else str(v)))
                reply = "\n".join(lines) + "\n"
        if log is not None:
            log.append((desc, reply))
        return reply
    return solver


# ---------------------------------------------------------------------------------------------------------
# case generators


def norm_sx(t):
    """the identification the printer makes: constant NODES print like the literal they wrap"""
    if isinstance(t, list):
        if t and t[0] in ("bool_constant", "int_constant") and len(t) == 2 and isinstance(t[1], str):
            return t[1]
        return [t[0]] + [norm_sx(x) for x in t[1:]]
    return t


def session_dsl(rng):
    s, bools, ints = dslgen.random_session(rng, max_bools=3, max_ints=3, depth=3, nconstraints=(0, 4), dom=(-2, 3))
    return list(s.variables), list(s.constraints), "dsl"


def session_native(rng):
    from cspuz import Solver, graph as G
    s = Solver()
    n, edges = graphs.rand_graph(rng, 5, allow_loops=False)
    m = len(edges)
    bs = [s.bool_var() for _ in range(max(1, rng.randint(1, max(n, m, 1))))]
    ins = [s.int_var(rng.randint(-1, 1), rng.randint(1, 4)) for _ in range(rng.randint(0, 2))]
    g = graphs.mk_graph(n, edges)
    if rng.random() < 0.5:
        act = graphs.bool_forms(rng, s, len(bs), len(ins), n)
        G.active_vertices_connected(s, act, g, use_graph_primitive=True)
        kind = "native-avc"
    else:
        sizes = []
        for _ in range(n):
            r = rng.random()
            sizes.append(None if r < 0.4 else (rng.randint(1, n) if r < 0.7 or not ins else (rng.choice(ins) if r < 0.9 else rng.choice(ins) + 1)))
        bd = graphs.bool_forms(rng, s, len(bs), len(ins), m)
        G.division_connected_variable_groups_with_borders(s, group_size=sizes, is_border=bd, graph=g, use_graph_primitive=True)
        kind = "native-div"
    if rng.random() < 0.5:
        s.ensure(rng.choice(bs) | ~rng.choice(bs))
    return list(s.variables), list(s.constraints), kind


def session_custom(rng):
    """hand-made variable list: sparse / permuted / large identifiers, wide and negative domains"""
    from cspuz.expr import BoolVar, IntVar
    ids = rng.sample(range(0, 40), rng.randint(1, 5))
    if rng.random() < 0.2:
        ids.append(rng.choice([100, 1234, 99999]))
    vs = []
    for i in ids:
        if rng.random() < 0.5:
            vs.append(BoolVar(i))
        else:
            lo = rng.choice([-3, -1, 0, 1, -10 ** 12, -7])
            vs.append(IntVar(i, lo, lo + rng.choice([0, 1, 3, 10 ** 13])))
    rng.shuffle(vs)
    bools = [v for v in vs if isinstance(v, BoolVar)]
    ints = [v for v in vs if not isinstance(v, BoolVar)]
    g = dslgen.Gen(rng, None, bools, ints)
    cs = []
    for _ in range(rng.randint(0, 3)):
        cs.append(g.bool_expr(rng.randint(0, 2))[0] if (bools or ints) else True)
    return vs, cs, "custom-ids"


def session_collide(rng):
    """the same number used by a Boolean and an integer variable (`b1` / `i1`), repeated variables"""
    from cspuz.expr import BoolVar, IntVar
    k = rng.randint(0, 3)
    vs = [BoolVar(k), IntVar(k, -2, 2)]
    if rng.random() < 0.5:
        vs.append(BoolVar(k + 1))
    if rng.random() < 0.3:
        vs.append(vs[0])
    rng.shuffle(vs)
    cs = [vs[0] == vs[0]] if rng.random() < 0.5 else []
    return vs, cs, "id-collision"


def session_degenerate(rng):
    """hand-built trees outside what the DSL builds (exception kinds / odd prints of `_convert_expr`)"""
    from cspuz.expr import BoolVar, IntVar, BoolExpr, IntExpr, Op
    b, i = BoolVar(0), IntVar(1, 0, 3)
    pool = [
        lambda: IntExpr(Op.SUB, [i]) == 1,
        lambda: BoolExpr(Op.VAR, []),
        lambda: BoolExpr(Op.BOOL_CONSTANT, []),
        lambda: IntExpr(Op.INT_CONSTANT, []) == 0,
        lambda: BoolExpr(Op.BOOL_CONSTANT, [3]),
        lambda: BoolExpr(Op.BOOL_CONSTANT, [0]),
        lambda: BoolExpr(Op.BOOL_CONSTANT, [None]),
        lambda: BoolExpr(Op.BOOL_CONSTANT, [b]),
        lambda: IntExpr(Op.INT_CONSTANT, [True]) == 0,
        lambda: IntExpr(Op.INT_CONSTANT, [None]) == 0,
        lambda: IntExpr(Op.NEG, [i, i]) == 0,
        lambda: IntExpr(Op.NEG, []) == 0,
        lambda: IntExpr(Op.SUB, []) == 0,
        lambda: IntExpr(Op.ADD, []) == 0,
        lambda: BoolExpr(Op.NOT, []),
        lambda: BoolExpr(Op.AND, [None, b]),
        lambda: None,
        lambda: BoolExpr(Op.IFF, [b]),
        lambda: BoolExpr(Op.EQ, [i, True]),
        lambda: BoolExpr(Op.OR, [BoolExpr(Op.VAR, [b]), b]),
    ]
    cs = [rng.choice(pool)() for _ in range(rng.randint(1, 2))]
    if rng.random() < 0.5:
        cs.insert(rng.randint(0, len(cs)), b | (i >= 1))
    return [b, i], cs, "degenerate"


def session_many(rng, n):
    """A large program: `n` Boolean variables and two integers, a handful of constraints (every variable is meant to be an
    answer key: directive lines and replies must scale past any fixed chunk size)."""
    from cspuz import Solver
    s = Solver()
    bs = [s.bool_var() for _ in range(n)]
    x, y = s.int_var(-3, 3), s.int_var(0, 2)
    s.ensure(bs[0] | ~bs[n // 2])
    s.ensure(x + y == -1)
    s.ensure(bs[-1].then(x < 0))
    return list(s.variables), list(s.constraints), "many-variables"


def session_pairs(k):
    """Deterministic sessions: every integer operator nested directly in every other (both operand positions), likewise the
    Boolean operators and the comparisons -- so that a printer that confuses two adjacent operators is seen whatever the
    random sessions of the run happen to contain.  `k` selects a slice."""
    from cspuz import Solver
    s = Solver()
    a, b = s.bool_var(), s.bool_var()
    x, y = s.int_var(-2, 2), s.int_var(-1, 3)
    iforms = [lambda p, q: -p, lambda p, q: p + q, lambda p, q: p - q, lambda p, q: q - p, lambda p, q: a.cond(p, q), lambda p, q: 1 - p,
              lambda p, q: p + 2]
    bforms = [lambda p, q: ~p, lambda p, q: p & q, lambda p, q: p | q, lambda p, q: p == q, lambda p, q: p != q, lambda p, q: p ^ q,
              lambda p, q: p.then(q)]
    cmps = [lambda p, q: p == q, lambda p, q: p != q, lambda p, q: p < q, lambda p, q: p <= q, lambda p, q: p > q, lambda p, q: p >= q]
    cs = []
    for f in iforms:
        for g in iforms:
            cs.append(f(g(x, y), y) == g(f(y, x), x))
            cs.append(f(x, g(y, x)) <= 1)
    for f in bforms:
        for g in bforms:
            cs.append(f(g(a, b), b) | g(b, f(b, a)))
    for c in cmps:
        for g in iforms:
            cs.append(c(g(x, y), g(y, x)) | a)
    n = 12
    chunk = cs[(k * n) % len(cs):(k * n) % len(cs) + n]
    for c in chunk:
        s.ensure(c)
    return list(s.variables), list(s.constraints), "operator-pairs"


N_PAIR_SESSIONS = 16


def session_bigint(k):
    """Deterministic sessions whose facts are integers outside CPython's small-int cache (dslgen.bigint_session): every reply
    of the external solver brings such a value as a fresh int object."""
    s, bools, ints = dslgen.bigint_session(k)
    return list(s.variables), list(s.constraints), "fixed-bigint"


def bigint_keys(k, n):
    ks = dslgen._bigint_specs()[k % dslgen.N_BIGINT][2]
    return [True] * n if ks is None else [i in ks for i in range(n)]


def session_large(kind, n):
    """A large program with facts known by construction (dslgen.large_session): (variables, constraints, keys, facts, text)."""
    s, facts, text = dslgen.large_session(kind, n)
    return list(s.variables), list(s.constraints), list(s.is_answer_key), facts, text


def loop_exchange_shape(log, vs, keys):
    """Do the (description, reply) pairs of one plain-`sugar` Solver.solve() look like the documented refinement loop -- satisfiable
    replies and one final unsatisfiable one, every description the previous one plus ONE more line, a disjunction with one
    disjunct per answer key whose value was the same in all replies so far?  Returns None or what is odd.  (A cheap gate in
    front of the Lean replay of thousand-variable exchanges: once the model's descriptions leave the recorded ones it runs its
    loop to the end on its own, which takes minutes there.)"""
    sat = ["UNSATISFIABLE" not in r.split("\n")[0] for _, r in log]
    if not log:
        return "no exchange"
    if not sat[0]:
        return None if len(log) == 1 else "calls after an UNSATISFIABLE first reply"
    if sat[-1] or not all(sat[:-1]):
        return f"reply pattern {['sat' if x else 'unsat' for x in sat]} (expected sat ... sat unsat)"
    keynames = {vname(v) for v, k in zip(vs, keys) if k}
    cand = None
    for k in range(1, len(log)):
        prev, cur = log[k - 1][0], log[k][0]
        if not cur.startswith(prev + "\n") or "\n" in cur[len(prev) + 1:]:
            return f"description #{k + 1} is not description #{k} plus one line"
        vals = {}
        for line in log[k - 1][1].split("\n")[1:]:
            if len(line) > 2 and "\t" in line:
                nm, val = line[2:].strip().split("\t")
                vals[nm] = val
        if cand is None:
            cand = {nm: vals.get(nm) for nm in keynames}
        else:
            cand = {nm: v for nm, v in cand.items() if vals.get(nm) == v}
        try:
            added = read_sugar(cur[len(prev) + 1:])[1]
        except Exception:
            return f"line added in description #{k + 1} is not an S-expression"
        if len(added) != 1 or not isinstance(added[0], list) or added[0][0] != "||" or len(added[0]) - 1 != len(cand):
            return (f"the line added in description #{k + 1} has {len(added[0]) - 1 if added and isinstance(added[0], list) else '?'} "
                    f"disjuncts, {len(cand)} answer keys are still candidates")
    return None


def driver_guarded(line, seconds=90):
    """One op through the Lean driver in its own process, time-limited.  None = no answer in time."""
    import subprocess
    try:
        p = subprocess.run([core.DRIVER], input=line + "\n", stdout=subprocess.PIPE, stderr=subprocess.PIPE, text=True, timeout=seconds)
    except subprocess.TimeoutExpired:
        return None
    if p.returncode != 0:
        raise RuntimeError("driver failed: " + p.stderr[-2000:])
    return p.stdout.split("\n")[0]


def e2e_large(rng, kind, n, name):
    vs, cs, keys, facts, text = session_large(kind, n)
    bad = _e2e(rng, vs, cs, keys, name, facts=facts)
    if not bad:
        return None
    return Finding(bad[0] + ":large", f"large program [{kind}, n={n}: {text}]: {bad[1]}",
                   {"large": [kind, n], "backend": name, "check": "e2e-large"})


def gen_case(rng):
    r = rng.random()
    if r < 0.45:
        return session_dsl(rng)
    if r < 0.62:
        return session_native(rng)
    if r < 0.80:
        return session_custom(rng)
    if r < 0.88:
        return session_collide(rng)
    return session_degenerate(rng)


def rand_value(rng, v, wide=True):
    from cspuz.expr import BoolVar
    if isinstance(v, BoolVar):
        return rng.random() < 0.5
    r = rng.random()
    if wide and r < 0.15:
        return rng.choice([-10 ** 15, 10 ** 15, -2 ** 31, 2 ** 31 - 1, -1234567890123])
    if wide and r < 0.4:
        return rng.randint(-50, 50)
    return rng.randint(v.lo, min(v.hi, v.lo + 6))


def rand_keys(rng, n):
    r = rng.random()
    if r < 0.2:
        return [False] * n
    if r < 0.4:
        return [True] * n
    return [rng.random() < 0.5 for _ in range(n)]


MALFORM = ["drop-char", "tab-to-space", "space-to-tab", "extra-field", "bad-index", "neg-index", "plus", "underscore",
           "empty-val", "no-newline", "crlf", "blank-line", "short-line", "junk-val", "big-index", "spaces", "True",
           "dup-line", "first-line", "empty"]


def malform(rng, reply, how):
    lines = reply.split("\n")
    body = [k for k in range(1, len(lines)) if len(lines[k]) > 2]
    k = rng.choice(body) if body else None
    if how == "empty":
        return ""
    if how == "first-line":
        return rng.choice(["", "s", "SAT", "s UNKNOWN", "UNSATISFIABLE", "xunsatx", "sat unsat"]) + "\n" + "\n".join(lines[1:])
    if how == "no-newline":
        return reply.rstrip("\n")
    if how == "crlf":
        return reply.replace("\n", "\r\n")
    if k is None:
        return reply + "zzz\n"
    ln = lines[k]
    if how == "drop-char":
        p = rng.randrange(len(ln))
        ln = ln[:p] + ln[p + 1:]
    elif how == "tab-to-space":
        ln = ln.replace("\t", " ")
    elif how == "space-to-tab":
        ln = ln.replace(" ", "\t")
    elif how == "extra-field":
        ln = ln + rng.choice(["\t1", " 1", "\t", " "])
    elif how == "bad-index":
        ln = ln.replace(ln[2:4] if ln.startswith("a ") else ln[0:2], rng.choice(["bx", "i", "b", "ii", "b 1"]), 1)
    elif how == "neg-index":
        p = 3 if ln.startswith("a ") else 1
        ln = ln[:p] + "-" + ln[p:]
    elif how == "big-index":
        p = 3 if ln.startswith("a ") else 1
        ln = ln[:p] + "9" + ln[p:]
    elif how == "plus":
        ln = ln[:-1] + "+" + ln[-1] if ln[-1].isdigit() else ln
    elif how == "underscore":
        ln = ln + rng.choice(["_0", "_", "__1", "0_0"]) if ln[-1].isdigit() else ln
    elif how == "empty-val":
        ln = ln.rstrip("0123456789-truefals")
    elif how == "blank-line":
        lines.insert(k, rng.choice(["", " ", "a", "a ", "xy"]))
        return "\n".join(lines)
    elif how == "short-line":
        ln = ln[:rng.randint(0, 3)]
    elif how == "junk-val":
        ln = ln.rstrip("0123456789-truefals") + rng.choice(["x", "1.0", "0x10", "--1", "1e3", "tru", "TRUE", "١"[:0] + "12a", " 5", "5 ", "\x0b7"])
    elif how == "spaces":
        ln = ln.replace("\t", " \t ") if "\t" in ln else ln.replace(" ", "  ", 1)
    elif how == "True":
        ln = ln.replace("true", "True").replace("false", "False")
    elif how == "dup-line":
        lines.insert(k, ln)
        return "\n".join(lines)
    lines[k] = ln
    return "\n".join(lines)


# ---------------------------------------------------------------------------------------------------------
# running the real code


def real_backend_run(name, vs, cs, mode, keys, reply):
    """`mode` in find / deduce.  Returns (captured calls, result) where result = [ret, sols] or ['err', kind]."""
    from cspuz import solver as S
    for v in vs:
        v.sol = None
    with Recorder(lambda d: reply) as rec:
        try:
            cls = S._get_backend_by_name(name)
            be = cls(vs)
            be.add_constraint(cs)
            ret = be.solve() if mode == "find" else be.solve_irrefutably(keys)
            res = [sx(ret), sols_of(vs)]
        except Exception as e:
            res = ["err", core.err_name(e)]
    return rec.calls, res


def real_solver_run(name, decl_vs, cs, keys, mode, reply_fn):
    """Through the real `Solver` (variables with positional ids)."""
    from cspuz import Solver
    s = Solver()
    s.variables = list(decl_vs)      # objects created by a real Solver: ids are the positions
    s.constraints = list(cs)
    s.is_answer_key = list(keys)
    for v in decl_vs:
        v.sol = None
    if REAL_PROCESS[0]:
        # the external solver is a real executable (see real_process_probe): nothing is patched, the reply travels through the real
        # `_subproc.run_subprocess`
        with warnings.catch_warnings():
            warnings.simplefilter("ignore")
            try:
                ret = core.with_timeout(60, s.find_answer if mode == "find" else s.solve, name)
                res = [sx(ret), sols_of(decl_vs)]
            except Exception as e:
                res = ["err", core.err_name(e)]
        return [], res
    with Recorder(reply_fn) as rec:
        with warnings.catch_warnings():
            warnings.simplefilter("ignore")
            try:
                ret = s.find_answer(name) if mode == "find" else s.solve(name)
                res = [sx(ret), sols_of(decl_vs)]
            except Exception as e:
                res = ["err", core.err_name(e)]
    return rec.calls, res


REAL_PROCESS = [False]

FAKE_SUGAR = r"""#!%(py)s
# stand-in for the `sugar` script: reads the CSP file named on the command line, answers in the wire format of
# CspuzSugarInterface.java (reference solver of harness/c03.py), optionally chatting on STDERR first like a JVM does
import os, sys, random
sys.path.insert(0, %(verif)r)
from harness import c03
desc = open(sys.argv[1]).read()
if os.environ.get("C03_FAKE_NOISE"):
    sys.stderr.write("Picked up JAVA_TOOL_OPTIONS: -Xmx2g\nc 0 warnings\n")
    sys.stderr.flush()
sys.stdout.write(c03.make_mock_sugar(random.Random(int(os.environ.get("C03_FAKE_SEED", "0"))))(desc))
sys.stdout.flush()
if os.environ.get("C03_FAKE_NOISE"):
    sys.stderr.write("done\n")
"""


def real_process_probe(ctx, rng):
    """`sugar` / `sugar_extended` with a REAL external process behind the real `run_subprocess` (everything else in this module
    replaces that function): a stand-in executable at `config.backend_path`, silent and with diagnostics on stderr.  The reply
    is what its stdout carries; find_answer / solve must reflect it.  Returns findings as (signature, message, data)."""
    import shutil
    import tempfile
    import cspuz.configuration as CF
    out = []
    d = tempfile.mkdtemp(prefix="c03sugar_")
    path = os.path.join(d, "sugar")
    with open(path, "w") as f:
        f.write(FAKE_SUGAR % {"py": sys.executable, "verif": core.VERIF})
    os.chmod(path, 0o755)
    saved = (CF.config.backend_path, CF.config.solver_timeout)
    saved_env = {k: os.environ.get(k) for k in ("C03_FAKE_NOISE", "C03_FAKE_SEED")}
    REAL_PROCESS[0] = True
    try:
        CF.config.backend_path = path
        CF.config.solver_timeout = None
        for noisy in ("", "1"):
            os.environ["C03_FAKE_NOISE"] = noisy
            for k in (0, 1, 9, 11):
                s, bools, ints = dslgen.bigint_session(k)
                vs = list(s.variables)
                kl = getattr(s, "_verif_keys", vs)
                keys = [any(v is k for k in kl) for v in vs]
                for name in ("sugar", "sugar_extended"):
                    os.environ["C03_FAKE_SEED"] = str(rng.randrange(1000))
                    ctx.count("real-process:" + name + (":stderr-noise" if noisy else ":quiet"))
                    bad = _e2e(rng, vs, list(s.constraints), keys, name)
                    if bad:
                        out.append(("process:" + bad[0], bad[1] + " -- external solver: a real process that writes %s"
                                    % ("diagnostics to stderr and the reply to stdout" if noisy else "only the reply to stdout"),
                                    {"check": "real-process", "noisy": bool(noisy), "session": k, "backend": name}))
                        break
    finally:
        REAL_PROCESS[0] = False
        CF.config.backend_path, CF.config.solver_timeout = saved
        for k, v in saved_env.items():
            if v is None:
                os.environ.pop(k, None)
            else:
                os.environ[k] = v
        shutil.rmtree(d, ignore_errors=True)
    return out


def pexprs(cs):
    return [exprio.pexpr(c) for c in cs]


def printable_for_model(cs_txt):
    return all("<?" not in t for t in cs_txt)


# ---------------------------------------------------------------------------------------------------------
# correspondence


def _correspond_main(ctx):
    ctx.extra["rule"] = (
        "programs: random sessions through the real DSL (<=3 bools, <=3 ints, depth<=3), native graph primitives built by "
        "cspuz.graph with use_graph_primitive=True (None sizes, expression operands), hand-made variable lists (sparse / "
        "permuted / huge ids, domains up to 1e13), b/i identifier collisions and repeated variables, hand-built degenerate "
        "trees; each through all five REAL backend classes with the external entry point recorded (patched run_subprocess / "
        "planted modules); compared with the Lean model: exact description text (answer-finder and deduction mode, "
        "all/none/some keys, short flag lists), Spec reading of the real text, reference formatters vs replies written per "
        "the Java source, return value and every sol (value AND Python type) for well-formed replies (arbitrary totals, "
        "negative / 64-bit ints, unsat, decided subsets) and 20 kinds of malformed replies, and Solver.find_answer / "
        "Solver.solve end-to-end against a Python mock solver (refinement loop for plain sugar: every (description, reply) "
        "exchanged is replayed through the Lean model); deterministic sessions with integer facts outside CPython's small-int "
        "cache next to undetermined keys (dslgen.bigint_session) always end to end through plain sugar and one native backend; "
        "LARGE constructed programs (513..1030 answer keys, facts known by construction) end to end through plain sugar and one "
        "native backend: exchange shape, Lean replay, constructed facts; non-trivial = a description was captured and a sat/facts reply "
        "parsed; distinct by (kind, backend, description, reply)")
    ctx.extra["assumptions"] = [
        "No Sugar / csugar / enigma_csp / cspuz_core binary or module exists in the sandbox: the external solver is a "
        "parameter with the explicit hypothesis SolverCorrect (shown satisfiable: C03_solver_exists); what is verified is "
        "the text contract on both sides",
        "Sugar's input syntax (Spec/SugarSyntax.lean: S-expressions, int/bool definitions, the operator names and their "
        "meaning, `-` unary = negation) and the two reply formats (Model/Sugar.lean formatters, Model/SugarJava.lean) are "
        "modelled from Sugar's documentation and sugar_extension/CspuzSugarInterface.java, which cannot be compiled or run "
        "here; pycsugar / enigma_csp / cspuz_core are assumed to print the same two formats",
        "variable identifiers are natural numbers; CPython's 4300-digit limit of int<->str and non-ASCII decimal digits "
        "accepted by int() are outside the model",
    ]
    rng = ctx.rng
    drv = core.Driver()
    lines, checks = [], []

    def ask(line, fn):
        lines.append(line)
        checks.append(fn)

    ncases = ctx.n(1500, 12000)
    many = [1001, 2300]
    nfix = len(many) + N_PAIR_SESSIONS
    for ci in range(ncases):
        try:
            vs, cs, kind = (session_many(rng, many[ci]) if ci < len(many) else
                            session_pairs(ci - len(many)) if ci < nfix else
                            session_bigint(ci - nfix) if ci < nfix + dslgen.N_BIGINT else gen_case(rng))
        except Exception as e:
            ctx.count("gen-error:" + core.err_name(e))
            continue
        cs_txt = pexprs(cs)
        if not printable_for_model(cs_txt):
            continue
        ctx.count("kind:" + kind)
        vtxt = pvars(vs)
        positional = all(v.id == k for k, v in enumerate(vs))
        # ---- 1. description text + Spec reading, every backend
        keys = rand_keys(rng, len(vs))
        if kind == "many-variables":
            keys = [True] * len(vs)
        elif rng.random() < 0.05 and keys:
            keys = keys[:-1]                       # too short: IndexError in solve_irrefutably
        total = {vname(v): rand_value(rng, v) for v in vs}
        sat_reply = java_sat(vs, total)
        keynames = [vname(v) for v, k in zip(vs, keys) if k]
        facts = {vname(v): (rand_value(rng, v) if rng.random() < 0.6 else None) for v in vs}
        facts_reply = java_facts(vs, keynames, facts)
        descs = {}
        for name in NAMES:
            calls, res = real_backend_run(name, vs, cs, "find", None, sat_reply)
            descs[(name, "find")] = (calls, res)
            calls2, res2 = real_backend_run(name, vs, cs, "deduce", keys, facts_reply)
            descs[(name, "deduce")] = (calls2, res2)
        ref_calls, ref_res = descs[("sugar_extended", "find")]
        ref_calls2, ref_res2 = descs[("sugar_extended", "deduce")]
        for name in NAMES:
            c1, r1 = descs[(name, "find")]
            if [d for _, d in c1] != [d for _, d in ref_calls] or r1 != ref_res:
                ctx.disagree("backends-differ:find", backend=name, vars=vtxt, constraints=cs_txt, got=r1, ref=ref_res)
            c2, r2 = descs[(name, "deduce")]
            if name == "sugar":
                # conversion errors of add_constraint come first; otherwise the override raises NotImplementedError
                if r2 != (ref_res if ref_res[0] == "err" else ["err", "NotImplementedError"]) or c2:
                    ctx.disagree("sugar-native-deduction", vars=vtxt, got=r2)
            elif [d for _, d in c2] != [d for _, d in ref_calls2] or r2 != ref_res2:
                ctx.disagree("backends-differ:deduce", backend=name, vars=vtxt, constraints=cs_txt, got=r2, ref=ref_res2)
            want_entry = ("subprocess:sugar,/dev/stdin" if name in ("sugar", "sugar_extended")
                          else f"module:{FAKE_MODULES[name]}.solver")
            for e, _ in c1 + c2:
                if e != want_entry:
                    ctx.disagree("entry-point", backend=name, got=e, want=want_entry)

        def chk_desc(out, real_calls=ref_calls, real_res=ref_res, vtxt=vtxt, cs_txt=cs_txt, mode="find", keys=None):
            t = core.parse_sx(out)
            if t[0] == "err":
                if real_res != ["err", t[1]] or real_calls:
                    ctx.disagree("description:" + mode, vars=vtxt, constraints=cs_txt, keys=keys, real=real_res, model=out)
            else:
                text = decode(t[1])
                if len(real_calls) != 1 or real_calls[0][1] != text:
                    ctx.disagree("description:" + mode, vars=vtxt, constraints=cs_txt, keys=keys,
                                 real=[d for _, d in real_calls] or real_res, model=text)
        ask(f"(sugar-desc {vtxt} N " + " ".join(cs_txt) + ")", chk_desc)
        ask(f"(sugar-desc {vtxt} {sx(keys)} " + " ".join(cs_txt) + ")",
            lambda out, f=chk_desc, rc=ref_calls2, rr=ref_res2, keys=keys: f(out, real_calls=rc, real_res=rr, mode="deduce", keys=keys))
        # Spec reading of the REAL text
        for (calls, mode) in ((ref_calls, "find"), (ref_calls2, "deduce")):
            if len(calls) == 1 and kind != "degenerate":
                want_cs = [sx(norm_sx(core.parse_sx(t))) for t in cs_txt]
                want_keys = None if mode == "find" else keynames

                def chk_read(out, want_cs=want_cs, want_keys=want_keys, vtxt=vtxt, text=calls[0][1]):
                    t = core.parse_sx(out)
                    if t == "none":
                        ctx.disagree("spec-reading", text=text, model="no parse")
                        return
                    got_vars = sx(t[0])
                    got_cs = [sx(c) for c in t[1]]
                    got_keys = None if t[2] == "N" else list(t[2])
                    if got_vars != vtxt or got_cs != want_cs or got_keys != want_keys:
                        ctx.disagree("spec-reading", text=text, vars=vtxt, got=[got_vars, got_cs, got_keys],
                                     want=[vtxt, want_cs, want_keys])
                ask(f"(sugar-parsecsp {codes(calls[0][1])})", chk_read)
        # ---- 2. reference formatters vs the Java format
        vals = "(" + " ".join(sx(total[vname(v)]) for v in vs) + ")"
        if True:
            ask(f"(sugar-format-sat {vtxt} {vals})",
                lambda out, want=sat_reply, vtxt=vtxt: (decode(core.parse_sx(out)) == want) or ctx.disagree(
                    "format-sat", vars=vtxt, model=decode(core.parse_sx(out)), java=want))
            if len(keys) >= len(vs):
                fvals = "(" + " ".join(sx(facts[vname(v)]) for v in vs) + ")"
                ask(f"(sugar-format-facts {vtxt} {sx(keys)} {fvals})",
                    lambda out, want=facts_reply, vtxt=vtxt: (decode(core.parse_sx(out)) == want) or ctx.disagree(
                        "format-facts", vars=vtxt, model=decode(core.parse_sx(out)), java=want))
        # ---- 3. reply parsing (the description part already succeeded or failed above)
        if len(ref_calls) == 1:
            replies = [("sat", sat_reply), ("unsat", "s UNSATISFIABLE\n")]
            for how in rng.sample(MALFORM, ctx.n(3, 6)):
                replies.append(("bad:" + how, malform(rng, sat_reply, how)))
            for tag, rep in replies:
                name = rng.choice(NAMES)
                _, real = real_backend_run(name, vs, cs, "find", None, rep)
                if tag == "sat":
                    real = ref_res

                def chk(out, real=real, rep=rep, tag=tag, vtxt=vtxt, name=name):
                    m = model_result(out)
                    if m != real:
                        ctx.disagree("parse-sat:" + tag.split(":")[0], backend=name, vars=vtxt, reply=rep, real=real, model=m)
                ask(f"(sugar-parse-sat {vtxt} {codes(rep)})", chk)
                ctx.count("reply:" + tag.split(":")[0])
            ctx.case({"kind": kind, "vars": vtxt, "constraints": cs_txt[:3], "description": ref_calls[0][1][:200],
                      "sat_reply": sat_reply, "sols": sx(ref_res)}, (kind, ref_calls[0][1], sat_reply))
        else:
            ctx.case({"kind": kind, "vars": vtxt, "constraints": cs_txt[:3], "real": sx(ref_res)}, None)
        if len(ref_calls2) == 1:
            replies = [("facts", facts_reply), ("unsat", "unsat\n")]
            for how in rng.sample(MALFORM, ctx.n(3, 6)):
                replies.append(("bad:" + how, malform(rng, facts_reply, how)))
            for tag, rep in replies:
                name = rng.choice(NAMES[1:])
                _, real = real_backend_run(name, vs, cs, "deduce", keys, rep)
                if tag == "facts":
                    real = ref_res2

                def chk2(out, real=real, rep=rep, tag=tag, vtxt=vtxt, name=name):
                    m = model_result(out)
                    if m != real:
                        ctx.disagree("parse-facts:" + tag.split(":")[0], backend=name, vars=vtxt, reply=rep, real=real, model=m)
                ask(f"(sugar-parse-facts {vtxt} {codes(rep)})", chk2)
                ctx.count("reply:" + tag.split(":")[0])
            ctx.case({"kind": kind, "vars": vtxt, "keys": sx(keys), "description": ref_calls2[0][1][-120:],
                      "facts_reply": facts_reply, "sols": sx(ref_res2)}, (kind, ref_calls2[0][1], facts_reply))
        # ---- 4. end to end through the real Solver with a Python mock solver (positional ids only)
        if positional and (kind == "fixed-bigint" or (kind in ("dsl", "native-avc", "native-div") and rng.random() < 0.6)):
            skeys = bigint_keys(ci - nfix, len(vs)) if kind == "fixed-bigint" else rand_keys(rng, len(vs))
            decls = "(" + " ".join(exprio.pdecl(v) for v in vs) + ")"
            for name in (["sugar", rng.choice(NAMES[1:])] if kind == "fixed-bigint" else
                         rng.sample(NAMES, 2) + (["sugar"] if rng.random() < 0.5 else [])):
                for mode in ("find", "solve"):
                    log = []
                    try:
                        calls, real = real_solver_run(name, vs, cs, skeys, mode, make_mock_sugar(rng, log))
                    except (OverflowError, Ill):
                        continue
                    if real[0] == "err" and real[1] in ("Ill", "OverflowError"):
                        continue
                    pairs = "(" + " ".join(f"({codes(d)} {codes(r)})" for d, r in log) + ")"

                    def chk3(out, real=real, name=name, mode=mode, decls=decls, cs_txt=cs_txt, skeys=skeys, n=len(log)):
                        t = core.parse_sx(out)
                        m = ["err", t[0][1]] if isinstance(t[0], list) else [t[0], list(t[1])]
                        if mode == "solve" and name == "sugar" and real[0] == "T":
                            # only the answer keys' sol fields are specified after the refinement loop
                            m[1] = [x if k else "-" for x, k in zip(m[1], skeys)]
                            real = [real[0], [x if k else "-" for x, k in zip(real[1], skeys)]]
                        if m != real:
                            ctx.disagree(f"solver-{mode}", backend=name, decls=decls, constraints=cs_txt, keys=skeys,
                                         exchanges=n, real=real, model=m)
                    if mode == "find":
                        ask(f"(sugar-find {decls} {pairs} " + " ".join(cs_txt) + ")", chk3)
                    else:
                        ask(f"(sugar-solve {name} {decls} {sx(skeys)} {pairs} " + " ".join(cs_txt) + ")", chk3)
                    for d, r in log[:3]:
                        def chk4(out, d=d, r=r):
                            j = decode(core.parse_sx(out))
                            same = (j == r) if "#" in d else (j.split("\n")[0] == r.split("\n")[0])
                            if not same:
                                ctx.disagree("java-model", description=d, java_model=j, python_mock=r)
                        ask(f"(java-run {codes(d)})", chk4)
                        ctx.count("java-run:" + ("deduction" if "#" in d else "finder"))
                    ctx.count(f"e2e:{mode}:{name}:exchanges={min(len(log), 4)}")
                    if real[0] == "T":
                        ctx.case({"kind": "e2e-" + mode, "backend": name, "decls": decls, "constraints": cs_txt[:3],
                                  "keys": sx(skeys), "result": sx(real)}, ("e2e", mode, name, decls, " ".join(cs_txt), sx(skeys)))
    # ---- 5. LARGE programs (hundreds of answer keys, facts known by construction) end to end: Solver.find_answer / Solver.solve
    # with the reference protocol solver; every (description, reply) exchanged is replayed through the Lean model, and the
    # sol fields are compared with the constructed facts
    if not hasattr(ctx, "concrete"):
        ctx.concrete = []
    for lkind, n in dslgen.LARGE_CASES:
        vs, cs, lkeys, facts, text = session_large(lkind, n)
        cs_txt = pexprs(cs)
        decls = "(" + " ".join(exprio.pdecl(v) for v in vs) + ")"
        for name in ("sugar", rng.choice(NAMES[1:])):
            for mode in ("find", "solve"):
                log = []
                calls, real = real_solver_run(name, vs, cs, lkeys, mode, make_mock_sugar(rng, log))
                pairs = "(" + " ".join(f"({codes(d)} {codes(r)})" for d, r in log) + ")"
                coherent = True
                if mode == "solve":
                    want = ["T", [sx(f) if k else "-" for f, k in zip(facts, lkeys)]]
                    got = [real[0], [x if k else "-" for x, k in zip(real[1], lkeys)]] if real[0] == "T" else real
                    if got != want:
                        wrong = [i for i, (a, b) in enumerate(zip(got[1], want[1])) if a != b] if got[0] == "T" else []
                        what = (f"solve({name}) on the large program [{lkind}, n={n}: {text}] with a correct external solver: " +
                                (f"{len(wrong)} answer keys wrong, first: variable #{wrong[0]} ({vname(vs[wrong[0]])}): sol={got[1][wrong[0]]} "
                                 f"but the exact fact is {want[1][wrong[0]]}; wrong positions {wrong[:6]}" if wrong else f"result {got[:1]}"))
                        ctx.disagree("solver-solve-large:facts", backend=name, program=f"{lkind} n={n}", what=what)
                        ctx.concrete.append(Finding("e2e:solve:large", what, {"large": [lkind, n], "backend": name, "check": "e2e-large"}))
                        # the model is not asked to replay an exchange that already went wrong: once its descriptions leave the
                        # recorded ones it runs its loop to the end on thousand-variable texts (minutes)
                        coherent = False

                def chk5(out, real=real, name=name, mode=mode, lkeys=lkeys, n=n, lkind=lkind, nex=len(log)):
                    t = core.parse_sx(out)
                    m = ["err", t[0][1]] if isinstance(t[0], list) else [t[0], list(t[1])]
                    if mode == "solve" and name == "sugar" and real[0] == "T":
                        m[1] = [x if k else "-" for x, k in zip(m[1], lkeys)]
                        real = [real[0], [x if k else "-" for x, k in zip(real[1], lkeys)]]
                    if m != real:
                        diff = [(i, a, b) for i, (a, b) in enumerate(zip(real[1], m[1])) if a != b][:6] if real[0] == "T" and m[0] == "T" else []
                        ctx.disagree(f"solver-{mode}-large", backend=name, program=f"{lkind} n={n}", exchanges=nex, real=real[0], model=m[0],
                                     first_differences_index_real_model=diff)
                if coherent and mode == "solve" and name == "sugar":
                    odd = loop_exchange_shape(log, vs, lkeys)
                    if odd:
                        ctx.disagree("solver-solve-large:exchanges", backend=name, program=f"{lkind} n={n}", exchanges=len(log), what=odd)
                        coherent = False
                if coherent:
                    line = (f"(sugar-find {decls} {pairs} " + " ".join(cs_txt) + ")" if mode == "find" else
                            f"(sugar-solve {name} {decls} {sx(lkeys)} {pairs} " + " ".join(cs_txt) + ")")
                    out = driver_guarded(line)
                    if out is None:
                        ctx.disagree(f"solver-{mode}-large:model-replay", backend=name, program=f"{lkind} n={n}", exchanges=len(log),
                                     what="the Lean model, replaying the recorded exchange, does not finish in 90 s (normally < 1 s): "
                                          "its descriptions left the recorded ones")
                    else:
                        chk5(out)
                ctx.count(f"e2e-large:{mode}:{name}:exchanges={min(len(log), 4)}")
                if real[0] == "T":
                    ctx.case({"kind": "e2e-large-" + mode, "backend": name, "program": text, "exchanges": len(log)},
                             ("e2e-large", mode, name, lkind, n))
    # the dispatch table as the compiled model sees it
    ask("(sugar-table)", lambda out: _check_table(ctx, out))
    ask("(sugar-format-unsat)", lambda out: decode(core.parse_sx(out)) == "s UNSATISFIABLE\n" or ctx.disagree(
        "format-unsat", model=decode(core.parse_sx(out))))
    ask("(sugar-format-unsat-facts)", lambda out: decode(core.parse_sx(out)) == "unsat\n" or ctx.disagree(
        "format-unsat-facts", model=decode(core.parse_sx(out))))
    outs = drv.run(lines)
    for fn, out in zip(checks, outs):
        fn(out)


def _check_table(ctx, out):
    from cspuz import solver as S
    import cspuz.backend.sugar_like as SL
    t = core.parse_sx(out)
    for row in t:
        name, native, cls, entry = row
        real_cls = S._get_backend_by_name(name)
        real_native = real_cls.solve_irrefutably is SL.SugarLikeBackend.solve_irrefutably
        if real_cls.__name__ != cls or sx(real_native) != native:
            ctx.disagree("dispatch-table", name=name, model=row, real=[real_cls.__name__, real_native])


# ---------------------------------------------------------------------------------------------------------
# search: independent oracle on the real code


def _vars_data(vs):
    from cspuz.expr import BoolVar
    return [["b", v.id] if isinstance(v, BoolVar) else ["i", v.id, v.lo, v.hi] for v in vs]


def build_case(data):
    """Rebuild variable objects and constraint trees from stored data."""
    from cspuz.expr import BoolVar, IntVar, BoolExpr, IntExpr, Op
    objs = {}
    vs = []
    for d in data["vars"]:
        key = (d[0], d[1])
        if key not in objs:
            objs[key] = BoolVar(d[1]) if d[0] == "b" else IntVar(d[1], d[2], d[3])
        vs.append(objs[key])
    names = {o.name.lower(): o for o in Op}
    int_ops = {"int_constant", "neg", "add", "sub", "if"}

    def mk(t):
        if isinstance(t, str):
            if t == "T":
                return True
            if t == "F":
                return False
            if t == "N":
                return None
            if t[0] in "bi" and t[1:].isdigit():
                key = (t[0], int(t[1:]))
                if key not in objs:
                    objs[key] = BoolVar(key[1]) if t[0] == "b" else IntVar(key[1], 0, 1)
                return objs[key]
            return int(t)
        ops = [mk(x) for x in t[1:]]
        return (IntExpr if t[0] in int_ops else BoolExpr)(names[t[0]], ops)
    cs = [mk(core.parse_sx(c)) for c in data["constraints"]]
    return vs, cs


def check_text(vs, cs, keys, desc, rng):
    """Independent reading of the description vs the program.  Returns a (signature, message) or None."""
    from cspuz.expr import BoolVar
    try:
        decls, rcs, rkeys = read_sugar(desc)
    except Exception as e:
        return "text:syntax", f"the description is not a sequence of S-expressions ({e})"
    want = [("b", vname(v)) if isinstance(v, BoolVar) else ("i", vname(v), v.lo, v.hi) for v in vs]
    if decls != want:
        return "text:decls", f"declares {decls}, the backend was given {want}"
    wk = None if keys is None else [vname(v) for v, k in zip(vs, keys) if k]
    if rkeys != wk:
        return "text:keys", f"names the answer keys {rkeys}, registered are {wk}"
    if len(rcs) != len(cs):
        return "text:constraint-count", f"{len(rcs)} constraints in the text, {len(cs)} posted"
    orig = [core.parse_sx(exprio.pexpr(c)) for c in cs]
    names = set()

    def walk(t):
        if isinstance(t, list):
            for x in t[1:]:
                walk(x)
        elif isinstance(t, str) and t[0] in "bi" and t[1:].isdigit():
            names.add(t)
    for t in orig:
        walk(t)
    doms = {vname(v): ([False, True] if isinstance(v, BoolVar) else [v.lo, v.hi, v.lo + 1, (v.lo + v.hi) // 2]) for v in vs}
    for _ in range(16):
        asg = {}
        for nme in names | set(doms):
            asg[nme] = rng.choice(doms.get(nme, [False, True] if nme[0] == "b" else [-1, 0, 1, 2]))
        for k, (o, r) in enumerate(zip(orig, rcs)):
            try:
                a = exprio.ev(o, asg)
            except (exprio.IllTyped, Exception) as e:
                a = "ill"
            try:
                b = sugar_ev(r, asg)
            except (Ill, Exception) as e:
                b = "ill"
            if a != b or type(a) is not type(b):
                return "text:constraint", (f"constraint #{k} {exprio.pexpr(cs[k])} is printed as {sx(r)} which means {b!r} "
                                           f"under {asg}, the posted constraint means {a!r}")
    return None


def check_reply_sat(name, vs, cs, total):
    from cspuz.expr import BoolVar
    rep = java_sat(vs, total)
    _, res = real_backend_run(name, vs, cs, "find", None, rep)
    if res[0] == "err":
        return "reply:sat", f"raised {res[1]} on the well-formed reply {rep!r}", rep
    for v in vs:
        want = total[vname(v)]
        if v.sol != want or type(v.sol) is not type(want):
            return "reply:sat", f"{vname(v)}.sol = {v.sol!r} after the reply {rep!r} (intended {want!r})", rep
    if res[0] != "T":
        return "reply:sat", f"solve() returned {res[0]} on a SATISFIABLE reply", rep
    return None


def check_reply_facts(name, vs, cs, keys, facts):
    rep = java_facts(vs, [vname(v) for v, k in zip(vs, keys) if k], facts)
    _, res = real_backend_run(name, vs, cs, "deduce", keys, rep)
    if res[0] == "err":
        return "reply:facts", f"raised {res[1]} on the well-formed reply {rep!r}", rep
    for v, k in zip(vs, keys):
        want = facts[vname(v)] if k else None
        if v.sol != want or type(v.sol) is not type(want):
            return "reply:facts", f"{vname(v)}.sol = {v.sol!r} after the reply {rep!r} with keys {keys} (intended {want!r})", rep
    if res[0] != "T":
        return "reply:facts", f"solve_irrefutably() returned {res[0]} on a sat reply", rep
    return None


def _distinct_ids(vs):
    return len({v.id for v in vs}) == len(vs)


def search(ctx, why):
    rng = ctx.rng
    found = {}

    def add(sig, what, data):
        if sig not in found:
            found[sig] = Finding(sig, what, data)
    for it in range(ctx.n(500, 3000)):
        r = rng.random()
        try:
            if it < 2:
                vs, cs, kind = session_many(rng, [1001, 2300][it])
            elif it < 2 + N_PAIR_SESSIONS:
                vs, cs, kind = session_pairs(it - 2)
            elif it < 2 + N_PAIR_SESSIONS + dslgen.N_BIGINT:
                vs, cs, kind = session_bigint(it - 2 - N_PAIR_SESSIONS)
            else:
                vs, cs, kind = session_dsl(rng) if r < 0.5 else session_native(rng) if r < 0.75 else session_custom(rng)
        except Exception:
            continue
        if not _distinct_ids(vs):
            continue
        cs_txt = pexprs(cs)
        keys = ([True] * len(vs) if kind == "many-variables" else
                bigint_keys(it - 2 - N_PAIR_SESSIONS, len(vs)) if kind == "fixed-bigint" else rand_keys(rng, len(vs)))
        base = {"vars": _vars_data(vs), "constraints": cs_txt, "keys": keys}
        for name in NAMES:
            ctx.count("search:" + name)
            calls, res = real_backend_run(name, vs, cs, "find", None, "s UNSATISFIABLE\n")
            if res[0] == "err" or len(calls) != 1:
                add("text:raises", f"{name}: solve() raised {res} on a well-typed program {cs_txt}",
                    dict(base, backend=name, mode="find", check="text"))
                continue
            bad = check_text(vs, cs, None, calls[0][1], rng)
            if bad:
                add(bad[0], f"{name}: {bad[1]}", dict(base, backend=name, mode="find", check="text"))
            if res != ["F", ["N"] * len(vs)]:
                add("reply:unsat", f"{name}: UNSATISFIABLE reply gave {res}", dict(base, backend=name, mode="find", check="unsat"))
            if name != "sugar":
                calls, res = real_backend_run(name, vs, cs, "deduce", keys, "unsat\n")
                if res[0] == "err" or len(calls) != 1:
                    add("text:raises", f"{name}: solve_irrefutably() raised {res}", dict(base, backend=name, mode="deduce", check="text"))
                else:
                    bad = check_text(vs, cs, keys, calls[0][1], rng)
                    if bad:
                        add(bad[0] + ":deduction", f"{name} (deduction mode): {bad[1]}", dict(base, backend=name, mode="deduce", check="text"))
                    if res != ["F", ["N"] * len(vs)]:
                        add("reply:unsat", f"{name}: unsat reply gave {res}", dict(base, backend=name, mode="deduce", check="unsat"))
            total = {vname(v): rand_value(rng, v) for v in vs}
            bad = check_reply_sat(name, vs, cs, total)
            if bad:
                add(bad[0], f"{name}: {bad[1]}", dict(base, backend=name, check="sat", total=total))
            if name != "sugar":
                facts = {vname(v): (rand_value(rng, v) if rng.random() < 0.6 else None) for v in vs}
                bad = check_reply_facts(name, vs, cs, keys, facts)
                if bad:
                    add(bad[0], f"{name}: {bad[1]}", dict(base, backend=name, check="facts", facts=facts))
        # end to end with the Python mock solver vs brute force on the ORIGINAL trees
        if kind in ("dsl", "native-avc", "native-div", "operator-pairs", "fixed-bigint") and all(v.id == k for k, v in enumerate(vs)):
            # the deterministic large-value sessions: always through plain `sugar` (cspuz's own refinement loop) and one more
            for name in (["sugar", rng.choice(NAMES[1:])] if kind == "fixed-bigint" else [rng.choice(NAMES)]):
                bad = _e2e(rng, vs, cs, keys, name)
                if bad:
                    add(bad[0], bad[1] + f" -- vars={base['vars']} constraints={cs_txt}", dict(base, backend=bad[2], check="e2e"))
    # large programs with facts known by construction, end to end (plain sugar and one backend with native deduction)
    for kind, n in dslgen.LARGE_CASES:
        for name in ("sugar", rng.choice(NAMES[1:])):
            ctx.count("search:large:" + name)
            f = e2e_large(rng, kind, n, name)
            if f:
                found.setdefault(f.signature, f)
    return list(found.values())


def _exact(vs, cs):
    import itertools
    from cspuz.expr import BoolVar
    names = [vname(v) for v in vs]
    doms = [[False, True] if isinstance(v, BoolVar) else list(range(v.lo, v.hi + 1)) for v in vs]
    trees = [core.parse_sx(exprio.pexpr(c)) for c in cs]
    models = []
    for combo in itertools.product(*doms):
        asg = dict(zip(names, combo))
        if all(exprio.ev(t, asg) is True for t in trees):
            models.append(asg)
    return models


def _e2e(rng, vs, cs, keys, name, facts=None):
    """find_answer(name) and solve(name) through the real Solver with the reference protocol solver vs the exact facts: by brute
    force on the original trees, or -- for large satisfiable programs -- `facts` known by construction (one entry per variable)."""
    if facts is not None:
        models = [None]        # satisfiable by construction; only the count's truth value is used
    else:
        try:
            models = _exact(vs, cs)
        except Exception:
            return None
    trees = [core.parse_sx(exprio.pexpr(c)) for c in cs]
    try:
        _, res = real_solver_run(name, vs, cs, keys, "find", make_mock_sugar(rng))
    except (OverflowError, Ill):
        return None
    if res[0] == "err":
        return "e2e:find", f"find_answer({name}) raised {res[1]} with a correct external solver", name
    if (res[0] == "T") != bool(models):
        return "e2e:find", f"find_answer({name}) returned {res[0]}, the program has {len(models)} models", name
    if models:
        asg = {vname(v): v.sol for v in vs}
        try:
            ok = all(exprio.ev(t, asg) is True for t in trees)
        except Exception:
            ok = False
        from cspuz.expr import BoolVar
        typed = all((type(v.sol) is bool) if isinstance(v, BoolVar) else (type(v.sol) is int) for v in vs)
        if not ok or not typed:
            return "e2e:find", f"find_answer({name}) left sol = {asg} which is not a (well-typed) model", name
    _, res = real_solver_run(name, vs, cs, keys, "solve", make_mock_sugar(rng))
    if res[0] == "err":
        return "e2e:solve", f"solve({name}) raised {res[1]} with a correct external solver", name
    if (res[0] == "T") != bool(models):
        return "e2e:solve", f"solve({name}) returned {res[0]}, the program has {len(models)} models", name
    if models:
        for pos, (v, k) in enumerate(zip(vs, keys)):
            if k:
                if facts is not None:
                    want = facts[pos]
                else:
                    vals = {m[vname(v)] for m in models}
                    want = vals.pop() if len(vals) == 1 else None
                if v.sol != want or type(v.sol) is not type(want):
                    where = (f"keys {keys}" if len(keys) <= 40 else
                             f"variable #{pos}, the {sum(1 for x in keys[:pos] if x) + 1}th of {sum(1 for x in keys if x)} answer keys")
                    return "e2e:solve", f"solve({name}): key {vname(v)}.sol = {v.sol!r}, exact fact {want!r} ({where})", name
    return None


def replay(ctx, data):
    rng = ctx.rng
    if data.get("check") == "real-process":
        bad = real_process_probe(ctx, rng)
        return Finding(bad[0][0], bad[0][1], data) if bad else None
    if data.get("check") == "e2e-large":
        for _ in range(3):
            f = e2e_large(rng, data["large"][0], data["large"][1], data.get("backend", "sugar"))
            if f:
                return f
        return None
    if "vars" not in data:
        return None
    vs, cs = build_case(data)
    keys = data.get("keys")
    name = data.get("backend", "sugar_extended")
    check = data.get("check")
    if check == "text":
        mode = data.get("mode", "find")
        calls, res = real_backend_run(name, vs, cs, mode, keys if mode == "deduce" else None,
                                      "s UNSATISFIABLE\n" if mode == "find" else "unsat\n")
        if res[0] == "err" or len(calls) != 1:
            return Finding("text:raises", f"{name}: raised {res}", data)
        for _ in range(8):
            bad = check_text(vs, cs, keys if mode == "deduce" else None, calls[0][1], rng)
            if bad:
                return Finding(bad[0], f"{name}: {bad[1]}", data)
        return None
    if check == "unsat":
        mode = data.get("mode", "find")
        _, res = real_backend_run(name, vs, cs, mode, keys, "s UNSATISFIABLE\n" if mode == "find" else "unsat\n")
        return None if res == ["F", ["N"] * len(vs)] else Finding("reply:unsat", f"{name}: unsat reply gave {res}", data)
    if check == "sat":
        bad = check_reply_sat(name, vs, cs, data["total"])
        return Finding(bad[0], f"{name}: {bad[1]}", data) if bad else None
    if check == "facts":
        bad = check_reply_facts(name, vs, cs, keys, data["facts"])
        return Finding(bad[0], f"{name}: {bad[1]}", data) if bad else None
    if check == "e2e":
        for _ in range(10):
            bad = _e2e(rng, vs, cs, keys, name)
            if bad:
                return Finding(bad[0], bad[1], data)
        return None
    return None


def correspond(ctx):
    _correspond_main(ctx)
    # the one path nothing above reaches: a real child process behind the real run_subprocess
    for sig, what, data in real_process_probe(ctx, ctx.rng):
        ctx.disagree("real-process", what=what)
        if not hasattr(ctx, "concrete"):
            ctx.concrete = []
        ctx.concrete.append(Finding(sig, what, data))
