"""Confirm seeded changes: usage  /venv/bin/python -m harness.seeded import <Cxx> <worktree>   |   run <Cxx>|all

import: copies SEED/{patch.diff,demo.py,meta.json} from a sub-agent's worktree into /verif/seeded/<id>/.
run:    in a fresh scratch worktree of /repo HEAD (under /tmp, removed afterwards): demo passes on the original, patch applies,
        demo fails with it, pytest pass/fail counts unchanged, and `./check <id>` (CSPUZ_REPO=scratch) reports a VIOLATION.
        Results are written into seeded/<id>/meta.json under "confirmed"."""
import json
import os
import shutil
import subprocess
import sys

VERIF = os.path.dirname(os.path.dirname(os.path.abspath(__file__)))
PY = "/venv/bin/python"


def sh(cmd, cwd=None, env=None, timeout=3600):
    e = dict(os.environ)
    if env:
        e.update(env)
    import signal
    pr = subprocess.Popen(cmd, shell=True, cwd=cwd, env=e, stdout=subprocess.PIPE, stderr=subprocess.STDOUT, text=True,
                          start_new_session=True)
    try:
        out, _ = pr.communicate(timeout=timeout)
        return pr.returncode, out
    except subprocess.TimeoutExpired:
        try:
            os.killpg(pr.pid, signal.SIGKILL)      # the whole group: a seeded change may make a check hang
        except ProcessLookupError:
            pass
        out, _ = pr.communicate()
        return 124, (out or "") + "\nTIMEOUT"


def do_import(pid, wt, name=None):
    dst = os.path.join(VERIF, "seeded", name or pid)
    os.makedirs(dst, exist_ok=True)
    for f in ("patch.diff", "demo.py", "meta.json"):
        shutil.copy(os.path.join(wt, "SEED", f), os.path.join(dst, f))
    # paths inside demo.py may mention the worktree; make them relative to the repository under test
    p = os.path.join(dst, "demo.py")
    s = open(p).read().replace(wt, "${REPO}")
    open(p, "w").write(s)
    print("imported", pid)


def do_run(pid):
    d = os.path.join(VERIF, "seeded", pid)
    meta = json.load(open(os.path.join(d, "meta.json")))
    prop = meta.get("property", pid)[:3]
    wt = f"/tmp/seedrun_{pid}"
    demo_wt_name = wt
    sh(f"git -C /repo worktree remove --force {wt}")
    rc, out = sh(f"git -C /repo worktree add -q --detach {wt} HEAD")
    res = {"repo_head": sh("git -C /repo log --format=%h -1")[1].strip()}
    try:
        demo = open(os.path.join(d, "demo.py")).read().replace("${REPO}", wt)
        os.makedirs(os.path.join(wt, "SEED"), exist_ok=True)
        open(os.path.join(wt, "SEED", "demo.py"), "w").write(demo)
        env = {"PYTHONPATH": wt}
        rc0, o0 = sh(f"{PY} SEED/demo.py", cwd=wt, env=env, timeout=1800)
        res["demo_on_original"] = rc0
        rca, oa = sh(f"git apply --exclude='SEED/*' {os.path.join(d, 'patch.diff')}", cwd=wt)
        res["patch_applies"] = (rca == 0)
        if rca != 0:
            res["apply_output"] = oa[-400:]
        rc1, o1 = sh(f"{PY} SEED/demo.py", cwd=wt, env=env, timeout=1800)
        res["demo_with_change"] = rc1
        res["demo_failure"] = o1.strip().split("\n")[-1][:300] if rc1 else ""
        rct, ot = sh(f"{PY} -m pytest -q -p no:cacheprovider 2>&1 | tail -1", cwd=wt, env=env, timeout=1800)
        res["pytest"] = ot.strip()[-80:]
        rcc, oc = sh(f"./check {prop}", cwd=VERIF, env={"CSPUZ_REPO": wt}, timeout=3000)
        res["check_exit"] = rcc
        res["check_output"] = [l[:400] for l in oc.strip().split("\n") if l.startswith(("VIOLATION", "#", "OK", "KNOWN"))][:6]
        res["caught"] = (rcc == 1 and any(l.startswith("VIOLATION") for l in res["check_output"]))
        res["caught_with_concrete_input"] = res["caught"] and not all("no-failing-input-found" in l for l in res["check_output"] if l.startswith("VIOLATION"))
    finally:
        sh(f"git -C /repo worktree remove --force {wt}")
    meta["confirmed"] = res
    json.dump(meta, open(os.path.join(d, "meta.json"), "w"), indent=1)
    ok = res.get("demo_on_original") == 0 and res.get("patch_applies") and res.get("demo_with_change") not in (0, None) and "558 passed" in res.get("pytest", "")
    print(pid, "valid-seed" if ok else "INVALID-SEED", "caught" if res.get("caught") else "MISSED",
          "concrete" if res.get("caught_with_concrete_input") else "", res.get("check_output", [])[:1])


if __name__ == "__main__":
    if sys.argv[1] == "import":
        do_import(sys.argv[2], sys.argv[3], sys.argv[4] if len(sys.argv) > 4 else None)
    else:
        ids = sorted(os.listdir(os.path.join(VERIF, "seeded"))) if sys.argv[2] == "all" else sys.argv[2:]
        for pid in ids:
            do_run(pid)
