"""C04 — active_vertices_connected holds exactly for connected (or tree) active sets."""
from . import core, exprio, graphs, graphcorr
from .core import Finding, sx

THEOREMS = ["Cspuz.C04.C04_aux_exact", "Cspuz.C04.C04_prim_exact", "Cspuz.C04.C04_dispatch", "Cspuz.C04.C04_grid"]


def correspond(ctx):
    ctx.extra["rule"] = ("random multigraphs (paths, cycles, stars, complete, Erdos-Renyi with isolated vertices, parallel edges, "
                         "occasional self-loops) and grids up to 4x4; is_active given as variables / negations / compound "
                         "expressions / Python constants; acyclic and use_graph_primitive on/off; compared: the program "
                         "emitted by the real cspuz.graph.active_vertices_connected on a real Solver vs the Lean model's "
                         "program (declarations in order, constraints as a multiset); non-trivial = a program was emitted, "
                         "distinct by call arguments"
                         " + a handful of deterministic medium / LARGE instances per family (graphs.big_graphs: 40, 70 and 258..319 vertices -- vertex ids beyond CPython's small-int cache, more than 32 / 64 vertices --, boards up to 16x17); about half of the Graph objects are observed part-way through construction (accessors read, every graph constraint posted once on a throw-away Solver) before the remaining edges are added"
                         " + a deterministic sweep over EVERY size of a medium range (graphs.medium_graphs / medium_grids: for every n from 30 to 130 a star with a rim edge between its last two leaves and a path or cycle; boards of every height 30..130 with width 1 or 2 and a few transposed) -- block arithmetic in an encoder (sums cut into blocks of 24 / 40 / 50 ... with a leftover) changes branch at sizes nobody knows in advance")
    graphcorr.run_cases(ctx, graphcorr.case_avc, ctx.n(400, 6000), "avc", bigs=graphcorr.graph_bigs() + graphcorr.grid_bigs() + graphcorr.medium_bigs() + graphcorr.medium_grid_bigs())
    if not ctx.quick():
        fs = search(ctx, None, budget=40)
        for f in fs:
            ctx.disagree("semantic", what=f.what, data=f.data)
        ctx.extra["semantic_differential"] = "thorough tier: all activity patterns of 40 graphs (n<=5) x acyclic x route, real program solved by the harness's own z3 translation / brute force vs BFS oracle (a bounded test, not a proof)"


def _check_graph(n, edges, acyclic, prim, forms=None):
    """All 2^n patterns on the real code.  Returns a failing (pattern, got, want) or None."""
    from cspuz import graph as G
    mk = graphs.mk_graph(n, edges)

    def builder(s):
        vs = [s.bool_var() for _ in range(n)]
        ia = vs if forms is None else forms(vs)
        return lambda: G.active_vertices_connected(s, ia, mk, acyclic=acyclic, use_graph_primitive=prim)
    decls, cs, base, _ = graphs.real_program(builder)
    for pat in graphs.all_patterns(n):
        fixed = {f"b{i}": pat[i] for i in range(n)}
        act = list(pat) if forms is None else forms(list(pat))
        act = [bool(a) for a in act]
        got = exprio.solve_prog(decls, cs, base, fixed) is not None
        want = graphs.is_tree_or_empty(n, edges, act) if acyclic else graphs.is_connected(n, edges, act)
        if got != want:
            return list(pat), got, want
    return None


def _check_patterns(n, edges, acyclic, prim, patterns):
    """Selected activity patterns of a medium / large graph on the real code (see graphs.vertex_patterns)."""
    from cspuz import graph as G
    mk = graphs.mk_graph(n, edges)

    def builder(s):
        vs = [s.bool_var() for _ in range(n)]
        return lambda: G.active_vertices_connected(s, vs, mk, acyclic=acyclic, use_graph_primitive=prim)
    decls, cs, base, _ = graphs.real_program(builder)
    for name, pat in patterns:
        got = exprio.solve_prog(decls, cs, base, {f"b{i}": pat[i] for i in range(n)}) is not None
        want = graphs.is_tree_or_empty(n, edges, pat) if acyclic else graphs.is_connected(n, edges, pat)
        if got != want:
            return name, [v for v in range(n) if pat[v]], got, want
    return None


def _check_board(h, w, acyclic, regions, prim=False):
    """Selected regions of an h x w board through the public BoolArray2D entry point."""
    from cspuz import graph as G

    def builder(s):
        arr = s.bool_array((h, w))
        return lambda: G.active_vertices_connected(s, arr, acyclic=acyclic, use_graph_primitive=prim)
    decls, cs, base, _ = graphs.real_program(builder)
    edges = graphs.grid_edges(h, w)
    for name, cells in regions:
        pat = [(y, x) in cells for y in range(h) for x in range(w)]
        got = exprio.solve_prog(decls, cs, base, {f"b{i}": pat[i] for i in range(h * w)}) is not None
        want = graphs.is_tree_or_empty(h * w, edges, pat) if acyclic else graphs.is_connected(h * w, edges, pat)
        if got != want:
            return name, ["".join("#" if pat[y * w + x] else "." for x in range(w)) for y in range(h)], got, want
    return None


WINDING_BOARDS = ((5, 6), (6, 5), (6, 6), (5, 7), (7, 7), (4, 9))


def _neg_forms(vs):
    return [(~v if i % 2 else v) if not isinstance(v, bool) else (not v if i % 2 else v) for i, v in enumerate(vs)]


def search(ctx, why, budget=None):
    rng = ctx.rng
    found = {}
    gs = graphs.small_graphs(rng, budget or ctx.n(30, 60), 5)
    for (n, edges) in gs:
        for acyclic in (False, True):
            for prim in (False, True):
                if acyclic and any(a == b for a, b in edges):
                    continue
                for forms, fname in ((None, "vars"), (_neg_forms, "negated")):
                    if fname == "negated" and n > 4:
                        continue
                    key = ("acyclic" if acyclic else "connected") + (":prim" if prim else ":aux")
                    if key in found:
                        continue
                    try:
                        bad = _check_graph(n, edges, acyclic, prim, forms)
                    except Exception as e:
                        bad = ("exception", core.err_name(e), str(e)[:200])
                    ctx.count("search:" + key)
                    if bad:
                        found[key] = Finding(
                            "avc:" + key,
                            f"active_vertices_connected(acyclic={acyclic}, use_graph_primitive={prim}) on graph n={n} edges={edges} "
                            f"is_active({fname})={bad[0]}: satisfiable={bad[1]} but expected {bad[2]}" + graphs.history_note(n, edges),
                            {"n": n, "edges": edges, "acyclic": acyclic, "prim": prim, "forms": fname, "pattern": bad[0],
                             "got": bad[1], "want": bad[2]})
    # medium and LARGE graphs (vertex ids >= 257, more than 32 / 64 vertices): targeted patterns instead of all subsets
    for (n, edges) in graphs.big_graphs():
        for acyclic in (False, True):
            for prim in (False, True):
                key = "big:" + ("acyclic" if acyclic else "connected") + (":prim" if prim else ":aux")
                if key in found or (acyclic and prim):
                    continue
                try:
                    bad = _check_patterns(n, edges, acyclic, prim, graphs.vertex_patterns(n, edges))
                except Exception as e:
                    bad = ("exception", None, core.err_name(e), str(e)[:200])
                ctx.count("search:" + key)
                if bad:
                    found[key] = Finding(
                        "avc:" + key[4:] + ":large-graph",
                        f"active_vertices_connected(acyclic={acyclic}, use_graph_primitive={prim}) on a graph with {n} vertices and "
                        f"{len(edges)} edges (edges {edges[:4]} ... {edges[-6:]}), active vertices ({bad[0]}) = {bad[1] if bad[1] is None or len(bad[1]) <= 16 else str(bad[1][:8]) + ' ... ' + str(bad[1][-8:])}: "
                        f"satisfiable={bad[2]} but expected {bad[3]}" + graphs.history_note(n, edges),
                        {"big": True, "n": n, "edges": edges, "acyclic": acyclic, "prim": prim, "pattern_name": bad[0], "active": bad[1]})
    # EVERY size of the medium range (block arithmetic in the encoder: a leftover block at n = k * block + 1 ...): one cheap graph per n,
    # a few patterns around the LAST vertex -- a far-apart pair containing it, the last two vertices, first + last, everything
    for (n, edges) in graphs.medium_graphs("rotate"):
        pats = [(name, [v in vs for v in range(n)]) for name, vs in (
            ("vertex n//3 and the last vertex", {n // 3, n - 1}), ("the last two vertices", {n - 2, n - 1}), ("first and last vertex", {0, n - 1}),
            ("vertex 1, the middle vertex and the last vertex", {1, n // 2, n - 1}), ("all", set(range(n))))]
        for acyclic in (False, True):
            key = "medium:" + ("acyclic" if acyclic else "connected")
            if key in found:
                continue
            try:
                bad = _check_patterns(n, edges, acyclic, False, pats)
            except Exception as e:
                bad = ("exception", None, core.err_name(e), str(e)[:200])
            ctx.count("search:" + key)
            if bad:
                found[key] = Finding(
                    "avc:" + key[7:] + ":medium-graph",
                    f"active_vertices_connected(acyclic={acyclic}, use_graph_primitive=False) on {graphs.instance_name(n, edges)} ({n} vertices, "
                    f"edges {edges[:3]} ... {edges[-3:]}), active vertices ({bad[0]}) = {bad[1] if bad[1] is None or len(bad[1]) <= 16 else str(bad[1][:8]) + ' ... ' + str(bad[1][-8:])}: "
                    f"satisfiable={bad[2]} but expected {bad[3]}" + graphs.history_note(n, edges),
                    {"big": True, "n": n, "edges": edges, "acyclic": acyclic, "prim": False, "pattern_name": bad[0], "active": bad[1]})
    for idx, (h, w) in enumerate(graphs.medium_grids()[::2]):
        acyclic = idx % 2 == 1
        key = "medium-board:" + ("acyclic" if acyclic else "connected")
        if key in found:
            continue
        regions = [("two opposite corners", {(0, 0), (h - 1, w - 1)}), ("last cell and the cell two rows above it", {(h - 1, w - 1), (max(0, h - 3), w - 1)}),
                   ("last column", {(y, w - 1) for y in range(h)}), ("last cell and its neighbour", {(h - 1, w - 1), (h - 2, w - 1) if h > 1 else (0, w - 2)})]
        try:
            bad = _check_board(h, w, acyclic, regions)
        except Exception as e:
            bad = ("exception", None, core.err_name(e), str(e)[:200])
        ctx.count("search:" + key)
        if bad:
            rows = bad[1] if bad[1] is None or len(bad[1]) <= 12 else bad[1][:3] + ["... (%d rows)" % h] + bad[1][-4:]
            found[key] = Finding(
                "avc:grid:medium-board",
                f"active_vertices_connected(acyclic={acyclic}) on a {h}x{w} BoolArray2D, active cells ({bad[0]}) = {rows}: "
                f"satisfiable={bad[2]} but expected {bad[3]}",
                {"board": [h, w], "acyclic": acyclic, "region_name": bad[0], "rows": bad[1]})
    # winding regions (serpentines, spirals: the in-region distances exceed the board's diameter) through the 2-D entry point
    for (h, w) in WINDING_BOARDS:
        for acyclic in (False, True):
            key = "board:" + ("acyclic" if acyclic else "connected")
            if key in found:
                continue
            try:
                bad = _check_board(h, w, acyclic, graphs.winding_regions(h, w))
            except Exception as e:
                bad = ("exception", None, core.err_name(e), str(e)[:200])
            ctx.count("search:" + key)
            if bad:
                found[key] = Finding(
                    "avc:grid:winding-region",
                    f"active_vertices_connected(acyclic={acyclic}) on a {h}x{w} BoolArray2D, active cells ({bad[0]}) = {bad[1]}: "
                    f"satisfiable={bad[2]} but expected {bad[3]}",
                    {"board": [h, w], "acyclic": acyclic, "region_name": bad[0], "rows": bad[1]})
    # grids through the public 2-D entry point
    from cspuz import graph as G, Solver
    from cspuz.array import BoolArray2D
    for h, w in ((1, 1), (1, 3), (2, 2), (2, 3), (3, 1)):
        for acyclic in (False, True):
            if "grid" in found:
                break

            def builder(s, h=h, w=w, acyclic=acyclic):
                arr = s.bool_array((h, w))
                return lambda: G.active_vertices_connected(s, arr, acyclic=acyclic, use_graph_primitive=False)
            try:
                decls, cs, base, _ = graphs.real_program(builder)
                edges = graphs.grid_edges(h, w)
                for pat in graphs.all_patterns(h * w):
                    fixed = {f"b{i}": pat[i] for i in range(h * w)}
                    got = exprio.solve_prog(decls, cs, base, fixed) is not None
                    want = graphs.is_tree_or_empty(h * w, edges, pat) if acyclic else graphs.is_connected(h * w, edges, pat)
                    if got != want:
                        found["grid"] = Finding("avc:grid", f"active_vertices_connected on {h}x{w} grid acyclic={acyclic} pattern={list(pat)}: sat={got} expected {want}",
                                                {"grid": [h, w], "acyclic": acyclic, "pattern": list(pat), "got": got, "want": want})
                        break
            except Exception as e:
                found["grid"] = Finding("avc:grid-exception", f"{h}x{w}: {core.err_name(e)}: {e}", {"grid": [h, w], "acyclic": acyclic})
    return list(found.values())


def replay(ctx, data):
    if "board" in data:
        h, w = data["board"]
        cells = {(y, x) for y in range(h) for x in range(w) if data["rows"] and data["rows"][y][x] == "#"}
        bad = _check_board(h, w, data["acyclic"], [(data.get("region_name"), cells)])
        return Finding("avc:replay", f"still fails: {bad}", data) if bad else None
    if data.get("big"):
        n = data["n"]
        act = set(data["active"] or [])
        bad = _check_patterns(n, [tuple(e) for e in data["edges"]], data["acyclic"], data["prim"],
                              [(data.get("pattern_name"), [v in act for v in range(n)])])
        return Finding("avc:replay", f"still fails: {bad}", data) if bad else None
    if "grid" in data:
        fs = [f for f in search(ctx, None, budget=1) if f.signature.startswith("avc:grid")]
        return fs[0] if fs else None
    forms = _neg_forms if data.get("forms") == "negated" else None
    bad = _check_graph(data["n"], [tuple(e) for e in data["edges"]], data["acyclic"], data["prim"], forms)
    if bad:
        return Finding("avc:replay", f"still fails: pattern={bad[0]} sat={bad[1]} expected={bad[2]}", data)
    return None
