"""C07 — Variable-group division (with/without borders) admits exactly valid partitions."""
import itertools

from . import core, exprio, graphs, graphcorr
from .core import Finding

THEOREMS = ["Cspuz.C07.C07_groups_exact", "Cspuz.C07.C07_groups_nosize", "Cspuz.C07.C07_borders_aux", "Cspuz.C07.C07_borders_prim"]


def correspond(ctx):
    ctx.extra["rule"] = ("random multigraphs n<=5 and grids, group_size absent / constant / IntVar / per-vertex list with None holes, border "
                         "flags as variables/negations/constants, both routes; program emitted by the real "
                         "division_connected_variable_groups(_with_borders) and the returned ids vs the Lean model"
                         "; size variables declared 1..n or each with its own narrow domain (k..k, a..a+1, a..a+2) + a handful of deterministic medium / LARGE instances per family (graphs.big_graphs: 40, 70 and 258..319 vertices -- vertex ids beyond CPython's small-int cache, more than 32 / 64 vertices --, boards up to 16x17); about half of the Graph objects are observed part-way through construction (accessors read, every graph constraint posted once on a throw-away Solver) before the remaining edges are added")
    # every size of the medium range (graphs.medium_graphs / medium_grids).  These families are the expensive ones (seconds per hundred
    # instances), so the quick tier takes every n once per GRAPH family (one shape per n, rotating) and a quarter of the heights per
    # board family; the thorough tier takes everything.
    mg = graphcorr.medium_bigs("rotate" if ctx.quick() else "all")
    mgrid = graphcorr.medium_grid_bigs()
    step = 4 if ctx.quick() else 1
    graphcorr.run_cases(ctx, graphcorr.case_vgroups, ctx.n(300, 4000), "vgroups", with_ids=True,
                        bigs=graphcorr.graph_bigs() + graphcorr.grid_bigs() + mg + ([] if ctx.quick() else mgrid))
    graphcorr.run_cases(ctx, graphcorr.case_vgborders, ctx.n(300, 4000), "vgborders", bigs=graphcorr.graph_bigs() + mg)
    graphcorr.run_cases(ctx, graphcorr.case_vgborders_frame, ctx.n(80, 800), "vgborders_frame", bigs=graphcorr.grid_bigs() + mgrid[::step])
    graphcorr.run_cases(ctx, graphcorr.case_vgroups_shape, ctx.n(80, 800), "vgroups_shape", with_ids=True, bigs=graphcorr.grid_bigs() + mgrid[1::step])
    if not ctx.quick():
        for f in search(ctx, None, budget=24):
            ctx.disagree("semantic", what=f.what, data=f.data)


def set_partitions(n):
    """All set partitions of range(n) as block-id lists (restricted growth strings)."""
    def rec(i, cur, mx):
        if i == n:
            yield list(cur)
            return
        for b in range(mx + 2):
            cur.append(b)
            yield from rec(i + 1, cur, max(mx, b))
            cur.pop()
    yield from rec(0, [], -1)


def part_ok(n, edges, blk, sizes):
    for b in set(blk):
        vs = [v for v in range(n) if blk[v] == b]
        if not exprio.connected(vs, [(u, v) for u, v in edges if blk[u] == b and blk[v] == b]):
            return False
    for v in range(n):
        if sizes[v] is not None and sum(1 for w in range(n) if blk[w] == blk[v]) != sizes[v]:
            return False
    return True


def _check_groups(n, edges, sizes_kind, sizes):
    """sizes_kind: 'none' | 'scalar' | 'per'. Returns failing (partition, got, want) or None."""
    from cspuz import graph as G
    import z3
    mk = graphs.mk_graph(n, edges)
    st = {}

    def builder(s):
        gs = None if sizes_kind == "none" else (sizes[0] if sizes_kind == "scalar" else list(sizes))

        def call():
            r = G.division_connected_variable_groups(s, graph=mk, group_size=gs)
            st["ids"] = [exprio.pexpr(x) for x in r.data]
        return call
    decls, cs, base, _ = graphs.real_program(builder)
    sz = [None] * n if sizes_kind == "none" else ([sizes[0]] * n if sizes_kind == "scalar" else list(sizes))
    for blk in set_partitions(n):
        def extra(var, blk=blk):
            conds = []
            for u in range(n):
                for v in range(u + 1, n):
                    a, b = var[st["ids"][u]], var[st["ids"][v]]
                    conds.append(a == b if blk[u] == blk[v] else a != b)
            return z3.And(conds) if conds else z3.BoolVal(True)
        got = exprio.z3_solve(decls, cs, base, {}, extra=extra) is not None
        want = part_ok(n, edges, blk, sz)
        if got != want:
            return blk, got, want
    return None


def cut_blocks(n, edges, bd):
    return exprio.components(n, [e for k, e in enumerate(edges) if not bd[k]])


def _check_borders(n, edges, sizes, prim):
    from cspuz import graph as G
    mk = graphs.mk_graph(n, edges)
    m = len(edges)

    def builder(s):
        bs = [s.bool_var() for _ in range(m)]
        return lambda: G.division_connected_variable_groups_with_borders(s, group_size=list(sizes), is_border=bs, graph=mk,
                                                                       use_graph_primitive=prim)
    decls, cs, base, _ = graphs.real_program(builder)
    for bd in graphs.all_patterns(m):
        fixed = {f"b{k}": bd[k] for k in range(m)}
        got = exprio.solve_prog(decls, cs, base, fixed) is not None
        comp = cut_blocks(n, edges, bd)
        want = all(not (bd[k] and comp[u] == comp[v]) for k, (u, v) in enumerate(edges)) and \
            all(sizes[v] is None or sum(1 for w in range(n) if comp[w] == comp[v]) == sizes[v] for v in range(n))
        if got != want:
            return list(bd), got, want
    return None


def _check_borders_portable(n, edges, sizes, arg, gp, dp, frame=None):
    """Primitive OFF, decided by the REAL portable backend.  The call is made with use_graph_primitive=`arg` (False, or None with the
    configured division flag off) while config.use_graph_primitive = gp and config.use_graph_division_primitive = dp; the flags are
    restored before solving.  With the primitive off only portable constraints may be posted, so `Solver.find_answer("z3")` must decide
    every border pattern, and as the definition says.  frame=(H, W): IntArray2D sizes / BoolInnerGridFrame borders (`edges` = the
    cell graph in the frame's variable order)."""
    from cspuz import Solver, graph as G
    from cspuz.array import IntArray2D
    from cspuz.configuration import config
    from cspuz.grid_frame import BoolInnerGridFrame
    m = len(edges)
    mk = graphs.mk_graph(n, edges) if frame is None else None
    for bd in graphs.all_patterns(m):
        s = Solver()
        old = (config.use_graph_primitive, config.use_graph_division_primitive)
        config.use_graph_primitive, config.use_graph_division_primitive = gp, dp
        try:
            if frame:
                gs = IntArray2D([s.int_var(1, n) if x is None else s.int_var(x, x) for x in sizes], frame)
                fr = BoolInnerGridFrame(s, frame[0], frame[1])
                bs = list(fr.horizontal.data) + list(fr.vertical.data)
                G.division_connected_variable_groups_with_borders(s, group_size=gs, is_border=fr, use_graph_primitive=arg)
            else:
                bs = [s.bool_var() for _ in range(m)]
                G.division_connected_variable_groups_with_borders(s, group_size=list(sizes), is_border=bs, graph=mk, use_graph_primitive=arg)
        finally:
            config.use_graph_primitive, config.use_graph_division_primitive = old
        for k in range(m):
            s.ensure(bs[k] if bd[k] else ~bs[k])
        comp = cut_blocks(n, edges, bd)
        want = all(not (bd[k] and comp[u] == comp[v]) for k, (u, v) in enumerate(edges)) and \
            all(sizes[v] is None or sum(1 for w in range(n) if comp[w] == comp[v]) == sizes[v] for v in range(n))
        try:
            got = bool(core.with_timeout(20, s.find_answer, "z3"))
        except core.RealTimeout:
            raise
        except Exception as e:
            return list(bd), "%s: %s" % (core.err_name(e), str(e)[:120]), want
        if got != want:
            return list(bd), got, want
    return None


def _check_borders_frame(H, W):
    """The 2-D entry: group_size an IntArray2D of variables, is_border a BoolInnerGridFrame (horizontal (H-1) x W borders
    between vertically adjacent cells first, then vertical H x (W-1) borders).  For every border pattern: with every cell's size
    fixed to the size of its block after cutting the borders the constraints must be satisfiable exactly when no border lies
    inside a block; with one size off by one they must be unsatisfiable."""
    from cspuz import graph as G
    from cspuz.grid_frame import BoolInnerGridFrame
    n = H * W
    cell_edges = [((y, x), (y + 1, x)) for y in range(H - 1) for x in range(W)] + [((y, x), (y, x + 1)) for y in range(H) for x in range(W - 1)]
    edges = [(a[0] * W + a[1], b[0] * W + b[1]) for a, b in cell_edges]
    m = len(edges)

    def builder(s):
        gs = s.int_array((H, W), 1, max(1, n))
        fr = BoolInnerGridFrame(s, H, W)
        return lambda: G.division_connected_variable_groups_with_borders(s, group_size=gs, is_border=fr, use_graph_primitive=False)
    decls, cs, base, _ = graphs.real_program(builder)
    for bd in graphs.all_patterns(m):
        comp = cut_blocks(n, edges, bd)
        size = [sum(1 for w in range(n) if comp[w] == comp[v]) for v in range(n)]
        ok_borders = all(not (bd[k] and comp[u] == comp[v]) for k, (u, v) in enumerate(edges))
        for delta in (0, 1):
            sz = list(size)
            if delta:
                sz[0] = sz[0] % max(1, n) + 1
            fixed = {f"i{v}": sz[v] for v in range(n)}
            fixed.update({f"b{n + k}": bd[k] for k in range(m)})
            got = exprio.solve_prog(decls, cs, base, fixed) is not None
            want = ok_borders and sz == size
            if got != want:
                return list(bd), sz, got, want
    return None


# ---------------------------------------------------------------- sizes given as VARIABLES with their own declared domains
#
# The size of a block may be specified by an IntVar; what the variable's DECLARED domain is must not matter beyond restricting its
# values.  Domains here are narrow and differ from vertex to vertex (singletons k..k, a..a+1, ...), built around a partition that is
# realisable, so that neighbouring domains overlap in exactly one value, in several, or not at all.  The sizes are fixed through the
# variables' VALUES (`fixed`), never through the declarations.


def domain_families(rng, n, edges, count):
    """[[(lo, hi)] * n]: deterministic corner families first (all singletons of the sizes of a realisable partition; domains that
    meet their neighbours' in exactly one value), then random narrow domains around random realisable partitions."""
    out = []
    m = len(edges)
    cuts = [[False] * m, [True] * m] + [[(k % 2 == par) for k in range(m)] for par in (0, 1)]
    while len(cuts) < count + 2:
        cuts.append([rng.random() < 0.5 for _ in range(m)])
    for idx, cut in enumerate(cuts):
        comp = exprio.components(n, [e for k, e in enumerate(edges) if not cut[k]])
        size = [sum(1 for w in range(n) if comp[w] == comp[v]) for v in range(n)]
        if idx < 4:
            out.append([(size[v], size[v]) for v in range(n)])                                   # singletons k..k
            out.append([(max(1, size[v] - 1), size[v]) if v % 2 else (size[v], size[v] + 1) for v in range(n)])   # a..k next to k..b
        else:
            out.append([(max(1, size[v] - rng.choice([0, 0, 1])), size[v] + rng.choice([0, 0, 1, 2])) for v in range(n)])
    seen, uniq = set(), []
    for d in out:
        if tuple(d) not in seen:
            seen.add(tuple(d))
            uniq.append(d)
    return uniq[:count]


def _check_groups_vars(n, edges, doms, form, grid=None):
    """division_connected_variable_groups with per-vertex size VARIABLES declared with the domains `doms`.
    form: 'list' | 'array1d' (graph=...), 'shape' (shape=(h, w), 2-D list), 'array2d' (IntArray2D, shape inferred).
    Every set partition whose block sizes lie in the declared domains must be realisable exactly when its blocks are connected
    (sizes fixed to the block sizes through the variables' values); with one size moved to another value of its domain: never."""
    from cspuz import graph as G
    from cspuz.array import IntArray1D, IntArray2D
    import z3
    mk = graphs.mk_graph(n, edges) if grid is None else None
    st = {}

    def builder(s):
        vs = [s.int_var(lo, hi) for lo, hi in doms]

        def call():
            if form == "list":
                r = G.division_connected_variable_groups(s, graph=mk, group_size=list(vs))
            elif form == "array1d":
                r = G.division_connected_variable_groups(s, graph=mk, group_size=IntArray1D(vs))
            elif form == "shape":
                r = G.division_connected_variable_groups(s, shape=grid, group_size=[vs[y * grid[1]:(y + 1) * grid[1]] for y in range(grid[0])])
            else:
                r = G.division_connected_variable_groups(s, group_size=IntArray2D(vs, grid))
            st["ids"] = [exprio.pexpr(x) for x in r.data]
        return call
    decls, cs, base, _ = graphs.real_program(builder)
    for blk in set_partitions(n):
        size = [sum(1 for w in range(n) if blk[w] == blk[v]) for v in range(n)]
        if not all(doms[v][0] <= size[v] <= doms[v][1] for v in range(n)):
            continue

        def extra(var, blk=blk):
            conds = []
            for u in range(n):
                for v in range(u + 1, n):
                    a, b = var[st["ids"][u]], var[st["ids"][v]]
                    conds.append(a == b if blk[u] == blk[v] else a != b)
            return z3.And(conds) if conds else z3.BoolVal(True)
        variants = [list(size)]
        for v in range(n):
            other = [x for x in range(doms[v][0], doms[v][1] + 1) if x != size[v]]
            if other:
                sz = list(size)
                sz[v] = other[0]
                variants.append(sz)
                break
        for sz in variants:
            got = exprio.z3_solve(decls, cs, base, {f"i{v}": sz[v] for v in range(n)}, extra=extra) is not None
            want = part_ok(n, edges, blk, sz)
            if got != want:
                return blk, sz, got, want
    return None


def _check_borders_vars(n, edges, doms, prim=False, frame=None):
    """..._with_borders with per-vertex size VARIABLES declared with the domains `doms` (graph form; or, with frame=(H, W), the
    IntArray2D / BoolInnerGridFrame form -- `edges` must then be the cell graph in the inner frame's variable order).  For every
    border pattern whose block sizes lie in the declared domains: satisfiable exactly when no border lies inside a block; with
    one size moved to another value of its domain: never."""
    from cspuz import graph as G
    from cspuz.array import IntArray2D
    from cspuz.grid_frame import BoolInnerGridFrame
    m = len(edges)
    mk = graphs.mk_graph(n, edges) if frame is None else None

    def builder(s):
        vs = [s.int_var(lo, hi) for lo, hi in doms]
        if frame:
            fr = BoolInnerGridFrame(s, frame[0], frame[1])
            return lambda: G.division_connected_variable_groups_with_borders(s, group_size=IntArray2D(vs, frame), is_border=fr, use_graph_primitive=prim)
        bs = [s.bool_var() for _ in range(m)]
        return lambda: G.division_connected_variable_groups_with_borders(s, group_size=list(vs), is_border=bs, graph=mk, use_graph_primitive=prim)
    decls, cs, base, _ = graphs.real_program(builder)
    for bd in graphs.all_patterns(m):
        comp = cut_blocks(n, edges, bd)
        size = [sum(1 for w in range(n) if comp[w] == comp[v]) for v in range(n)]
        if not all(doms[v][0] <= size[v] <= doms[v][1] for v in range(n)):
            continue
        ok_borders = all(not (bd[k] and comp[u] == comp[v]) for k, (u, v) in enumerate(edges))
        variants = [list(size)]
        for v in range(n):
            other = [x for x in range(doms[v][0], doms[v][1] + 1) if x != size[v]]
            if other:
                sz = list(size)
                sz[v] = other[-1]
                variants.append(sz)
                break
        for sz in variants:
            fixed = {f"i{v}": sz[v] for v in range(n)}
            fixed.update({f"b{n + k}": bd[k] for k in range(m)})
            got = exprio.solve_prog(decls, cs, base, fixed) is not None
            want = ok_borders and sz == size
            if got != want:
                return list(bd), sz, got, want
    return None


def inner_frame_edges(H, W):
    """cell graph of an H x W board in the variable order of BoolInnerGridFrame (see _check_borders_frame)"""
    cell_edges = [((y, x), (y + 1, x)) for y in range(H - 1) for x in range(W)] + [((y, x), (y, x + 1)) for y in range(H) for x in range(W - 1)]
    return [(a[0] * W + a[1], b[0] * W + b[1]) for a, b in cell_edges]


def _check_big_borders(n, edges, variant):
    """A medium / LARGE graph through ..._with_borders (aux route), sizes as variables with narrow domains around the block sizes:
    the blocks left by cutting every edge with index = variant mod 5 (plus all edges between the two halves of the index range);
    then the same with one more border INSIDE a block, and with one size off by one."""
    from cspuz import graph as G
    m = len(edges)
    cut = [(k % 5 == variant % 5) or ((u < n // 2) != (v < n // 2)) for k, (u, v) in enumerate(edges)]
    comp = cut_blocks(n, edges, [bool(c) for c in cut])
    size = [sum(1 for w in range(n) if comp[w] == comp[v]) for v in range(n)]
    bd = [comp[u] != comp[v] for u, v in edges]
    doms = [((max(1, size[v] - 1), size[v]) if (v + variant) % 3 == 0 else ((size[v], size[v] + 1) if (v + variant) % 3 == 1 else (size[v], size[v])))
            for v in range(n)]
    mk = graphs.mk_graph(n, edges)

    def builder(s):
        vs = [s.int_var(lo, hi) for lo, hi in doms]
        bs = [s.bool_var() for _ in range(m)]
        return lambda: G.division_connected_variable_groups_with_borders(s, group_size=list(vs), is_border=bs, graph=mk, use_graph_primitive=False)
    decls, cs, base, _ = graphs.real_program(builder)
    cases = [("blocks", bd, size)]
    inside = [k for k in range(m) if not bd[k]]
    if inside:
        bd2 = list(bd)
        bd2[inside[-1]] = True            # a border whose two sides are (or are not) still connected: the oracle decides
        cases.append(("one more border", bd2, size))
    v = max(range(n), key=lambda v: (doms[v][1] - doms[v][0], v))
    if doms[v][0] != doms[v][1]:
        sz = list(size)
        sz[v] = doms[v][0] if doms[v][0] != size[v] else doms[v][1]
        cases.append(("size of vertex %d off" % v, bd, sz))
    for name, b, sz in cases:
        c2 = cut_blocks(n, edges, b)
        want = all(not (b[k] and c2[u] == c2[w]) for k, (u, w) in enumerate(edges)) and \
            all(sum(1 for w in range(n) if c2[w] == c2[x]) == sz[x] for x in range(n))
        fixed = {f"i{x}": sz[x] for x in range(n)}
        fixed.update({f"b{n + k}": b[k] for k in range(m)})
        try:
            got = exprio.solve_prog(decls, cs, base, fixed, timeout_ms=8000) is not None
        except exprio.Unknown:
            continue
        if got != want:
            return name, [edges[k] for k in range(m) if b[k]], sz, doms, got, want
    return None


def search(ctx, why, budget=None):
    rng = ctx.rng
    found = {}
    # sizes as variables with narrow declared domains: graph form, shape form, IntArray2D form, borders, borders on a frame
    small = [(n, es) for n, es in [(4, [(0, 1), (1, 2), (2, 3)])] + graphs.reversed_specials() + graphs.small_graphs(rng, budget or ctx.n(14, 30), 4)
             if 2 <= n <= 4 and 1 <= len(es) <= 5 and all(a != b for a, b in es)]
    jobs = []
    for idx, (n, edges) in enumerate(small):
        for d, doms in enumerate(domain_families(rng, n, edges, 5 if idx < 6 else 3)):
            jobs.append(("groups:domains", n, edges, doms, ("list", "array1d")[(idx + d) % 2], None))
            jobs.append(("borders:domains", n, edges, doms, None, None))
    for (H, W) in ((1, 3), (2, 2), (3, 1), (1, 4), (2, 3)):
        n, edges = H * W, inner_frame_edges(H, W)
        for d, doms in enumerate(domain_families(rng, n, edges, 4)):
            if n <= 4:
                jobs.append(("groups:domains:grid", n, graphs.grid_edges(H, W), doms, ("shape", "array2d")[d % 2], (H, W)))
            jobs.append(("borders:frame:domains", n, edges, doms, None, (H, W)))
    for key, n, edges, doms, form, grid in jobs:
        if key in found:
            continue
        try:
            if key.startswith("groups"):
                bad = _check_groups_vars(n, edges, doms, form, grid)
            else:
                bad = _check_borders_vars(n, edges, doms, False, grid)
        except Exception as e:
            bad = ("exception", None, core.err_name(e), str(e)[:200])
        ctx.count("search:" + key)
        if bad:
            where = (f"on a {grid[0]}x{grid[1]} board ({'shape=, 2-D list' if form == 'shape' else 'IntArray2D' if form == 'array2d' else 'IntArray2D sizes, BoolInnerGridFrame borders'})"
                     if grid else f"n={n} edges={edges} ({form or 'list'} form)" + graphs.history_note(n, edges))
            if key.startswith("groups"):
                what = (f"division_connected_variable_groups {where}, group_size = one IntVar per vertex with declared domains {doms}, sizes fixed to "
                        f"{bad[1]}, partition (block ids) {bad[0]}: realisable={bad[2]} expected {bad[3]}")
            else:
                what = (f"division_connected_variable_groups_with_borders {where}, group_size = one IntVar per vertex with declared domains {doms}, "
                        f"sizes fixed to {bad[1]}, is_border={bad[0]}: satisfiable={bad[2]} expected {bad[3]}")
            found[key] = Finding(key, what, {"fn": "domains", "key": key, "n": n, "edges": edges, "doms": doms, "form": form,
                                              "grid": list(grid) if grid else None})
    # medium / LARGE graphs through the borders form
    for idx, (n, edges) in enumerate(graphs.big_graphs()):
        if "borders:big" in found:
            break
        try:
            bad = _check_big_borders(n, edges, idx)
        except Exception as e:
            bad = ("exception", None, None, None, core.err_name(e), str(e)[:200])
        ctx.count("search:borders:big")
        if bad:
            found["borders:big"] = Finding(
                "borders:large-graph",
                f"division_connected_variable_groups_with_borders on a graph with {n} vertices and {len(edges)} edges (edges {edges[:4]} ... {edges[-6:]}), "
                f"sizes as IntVars with narrow declared domains around the block sizes, case '{bad[0]}', {len(bad[1] or [])} borders: satisfiable={bad[4]} expected {bad[5]}"
                + graphs.history_note(n, edges),
                {"fn": "bigborders", "n": n, "edges": edges, "variant": idx, "case": bad[0]})
    for (H, W) in ((1, 1), (1, 2), (2, 1), (1, 3), (3, 1), (2, 2), (2, 3)):
        if "borders:frame" in found:
            break
        try:
            bad = _check_borders_frame(H, W)
        except Exception as e:
            bad = ("exception", core.err_name(e), str(e)[:200], None)
        ctx.count("search:borders:frame")
        if bad:
            found["borders:frame"] = Finding(
                "borders:frame", f"division_connected_variable_groups_with_borders(group_size=IntArray2D, is_border=BoolInnerGridFrame) on a "
                f"{H}x{W} board, borders={bad[0]}, sizes={bad[1]}: satisfiable={bad[2]} expected {bad[3]}",
                {"fn": "frame", "H": H, "W": W, "borders": bad[0], "sizes": bad[1]})
    # the explicit argument beats the configuration (and None follows it): primitive OFF under every setting of the two global
    # flags, decided by the real portable backend
    portable = [(5, [(0, 1), (0, 2), (1, 3), (2, 3), (3, 4)], [None, 4, None, None, 1], None),
                (4, inner_frame_edges(2, 2), [None, 3, None, 1], (2, 2)),
                (3, [(1, 0), (2, 1)], [2, None, None], None)]
    for (n, edges, sizes, frame) in portable:
        for (arg, gp, dp) in ((False, False, True), (False, True, True), (False, True, False), (False, False, False),
                              (None, True, False), (None, False, False)):
            if "borders:portable" in found:
                break
            try:
                bad = _check_borders_portable(n, edges, sizes, arg, gp, dp, frame)
            except core.RealTimeout:
                raise
            except Exception as e:
                bad = ("exception", core.err_name(e), str(e)[:200])
            ctx.count("search:borders:portable")
            if bad:
                found["borders:portable"] = Finding(
                    "borders:explicit-argument-vs-configuration",
                    f"division_connected_variable_groups_with_borders(use_graph_primitive={arg}) called while config.use_graph_primitive={gp} and "
                    f"config.use_graph_division_primitive={dp}, on " + (f"a {frame[0]}x{frame[1]} board (IntArray2D sizes, BoolInnerGridFrame borders)" if frame else f"n={n} edges={edges}")
                    + f" group_size={sizes} is_border={bad[0]}: the primitive is off, so the portable backend must decide the constraints; "
                    f"Solver.find_answer('z3') gives {bad[1]}, expected {bad[2]}",
                    {"fn": "portable", "n": n, "edges": edges, "sizes": sizes, "frame": list(frame) if frame else None, "arg": arg, "gp": gp, "dp": dp})
    for (n, edges) in graphs.small_graphs(rng, budget or ctx.n(12, 30), 4):
        if n > 4 or len(edges) > 6:
            continue
        variants = [("none", None), ("scalar", [rng.randint(1, n)]), ("per", [rng.choice([None, rng.randint(1, n)]) for _ in range(n)]),
                    ("per", [None] * n)]
        # deterministic (PRNG-independent) size specifications on the smallest graphs and on every graph with an isolated vertex:
        # each constant size, and a size given for ONE vertex only (isolated vertices first)
        deg = [sum(1 for a, b in edges if v in (a, b)) for v in range(n)]
        if n <= 3 or 0 in deg:
            variants += [("scalar", [k]) for k in range(1, n + 1)]
            for v in sorted(range(n), key=lambda v: deg[v])[:2]:
                for k in (1, 2):
                    if k <= n:
                        variants.append(("per", [k if u == v else None for u in range(n)]))
        for kind, sizes in variants:
            key = "groups:" + kind
            if key not in found:
                try:
                    bad = _check_groups(n, edges, kind, sizes)
                except Exception as e:
                    bad = ("exception", core.err_name(e), str(e)[:200])
                ctx.count("search:" + key)
                if bad:
                    found[key] = Finding(key, f"division_connected_variable_groups n={n} edges={edges} group_size({kind})={sizes} partition={bad[0]}: "
                                              f"realisable={bad[1]} expected {bad[2]}" + graphs.history_note(n, edges), {"n": n, "edges": edges, "kind": kind, "sizes": sizes, "partition": bad[0], "fn": "groups"})
        for prim in (False, True):
            sizes = [rng.choice([None, rng.randint(1, n)]) for _ in range(n)]
            for sz in (sizes, [None] * n):
                key = "borders:" + ("prim" if prim else "aux")
                if key in found:
                    continue
                try:
                    bad = _check_borders(n, edges, sz, prim)
                except Exception as e:
                    bad = ("exception", core.err_name(e), str(e)[:200])
                ctx.count("search:" + key)
                if bad:
                    found[key] = Finding(key, f"division_connected_variable_groups_with_borders(prim={prim}) n={n} edges={edges} group_size={sz} "
                                              f"is_border={bad[0]}: satisfiable={bad[1]} expected {bad[2]}" + graphs.history_note(n, edges),
                                         {"n": n, "edges": edges, "sizes": sz, "prim": prim, "borders": bad[0], "fn": "borders"})
    return list(found.values())


def replay(ctx, data):
    if data.get("fn") == "domains":
        edges = [tuple(e) for e in data["edges"]]
        doms = [tuple(d) for d in data["doms"]]
        grid = tuple(data["grid"]) if data.get("grid") else None
        if data["key"].startswith("groups"):
            bad = _check_groups_vars(data["n"], edges, doms, data["form"], grid)
        else:
            bad = _check_borders_vars(data["n"], edges, doms, False, grid)
        return Finding("c07:replay", f"still fails: {bad}", data) if bad else None
    if data.get("fn") == "bigborders":
        bad = _check_big_borders(data["n"], [tuple(e) for e in data["edges"]], data["variant"])
        return Finding("c07:replay", f"still fails: {str(bad)[:300]}", data) if bad else None
    if data.get("fn") == "portable":
        bad = _check_borders_portable(data["n"], [tuple(e) for e in data["edges"]], data["sizes"], data["arg"], data["gp"], data["dp"],
                                      tuple(data["frame"]) if data.get("frame") else None)
        return Finding("c07:replay", f"still fails: {bad}", data) if bad else None
    if data.get("fn") == "frame":
        bad = _check_borders_frame(data["H"], data["W"])
        return Finding("c07:replay", f"still fails: {bad}", data) if bad else None
    edges = [tuple(e) for e in data["edges"]]
    if data.get("fn") == "groups":
        bad = _check_groups(data["n"], edges, data["kind"], data["sizes"])
    else:
        bad = _check_borders(data["n"], edges, data["sizes"], data["prim"])
    return Finding("c07:replay", f"still fails: {bad}", data) if bad else None
