"""C07 — Variable-group division (with/without borders) admits exactly valid partitions."""
import itertools

from . import core, exprio, graphs, graphcorr
from .core import Finding

THEOREMS = ["Cspuz.C07.C07_groups_exact", "Cspuz.C07.C07_groups_nosize", "Cspuz.C07.C07_borders_aux", "Cspuz.C07.C07_borders_prim"]


def correspond(ctx):
    ctx.extra["rule"] = ("random multigraphs n<=5 and grids, group_size absent / constant / IntVar / per-vertex list with None holes, border "
                         "flags as variables/negations/constants, both routes; program emitted by the real "
                         "division_connected_variable_groups(_with_borders) and the returned ids vs the Lean model")
    graphcorr.run_cases(ctx, graphcorr.case_vgroups, ctx.n(300, 4000), "vgroups", with_ids=True)
    graphcorr.run_cases(ctx, graphcorr.case_vgborders, ctx.n(300, 4000), "vgborders")
    graphcorr.run_cases(ctx, graphcorr.case_vgborders_frame, ctx.n(80, 800), "vgborders_frame")
    graphcorr.run_cases(ctx, graphcorr.case_vgroups_shape, ctx.n(80, 800), "vgroups_shape", with_ids=True)
    if not ctx.quick():
        for f in search(ctx, None, budget=24):
            ctx.disagree("semantic", what=f.what, data=f.data)


def set_partitions(n):
    """All set partitions of range(n) as block-id lists (restricted growth strings)."""
    def rec(i, cur, mx):
        if i == n:
            yield list(cur)
            return
        for b in range(mx + 2):
            cur.append(b)
            yield from rec(i + 1, cur, max(mx, b))
            cur.pop()
    yield from rec(0, [], -1)


def part_ok(n, edges, blk, sizes):
    for b in set(blk):
        vs = [v for v in range(n) if blk[v] == b]
        if not exprio.connected(vs, [(u, v) for u, v in edges if blk[u] == b and blk[v] == b]):
            return False
    for v in range(n):
        if sizes[v] is not None and sum(1 for w in range(n) if blk[w] == blk[v]) != sizes[v]:
            return False
    return True


def _check_groups(n, edges, sizes_kind, sizes):
    """sizes_kind: 'none' | 'scalar' | 'per'. Returns failing (partition, got, want) or None."""
    from cspuz import graph as G
    import z3
    mk = graphs.mk_graph(n, edges)
    st = {}

    def builder(s):
        gs = None if sizes_kind == "none" else (sizes[0] if sizes_kind == "scalar" else list(sizes))

        def call():
            r = G.division_connected_variable_groups(s, graph=mk, group_size=gs)
            st["ids"] = [exprio.pexpr(x) for x in r.data]
        return call
    decls, cs, base, _ = graphs.real_program(builder)
    sz = [None] * n if sizes_kind == "none" else ([sizes[0]] * n if sizes_kind == "scalar" else list(sizes))
    for blk in set_partitions(n):
        def extra(var, blk=blk):
            conds = []
            for u in range(n):
                for v in range(u + 1, n):
                    a, b = var[st["ids"][u]], var[st["ids"][v]]
                    conds.append(a == b if blk[u] == blk[v] else a != b)
            return z3.And(conds) if conds else z3.BoolVal(True)
        got = exprio.z3_solve(decls, cs, base, {}, extra=extra) is not None
        want = part_ok(n, edges, blk, sz)
        if got != want:
            return blk, got, want
    return None


def cut_blocks(n, edges, bd):
    return exprio.components(n, [e for k, e in enumerate(edges) if not bd[k]])


def _check_borders(n, edges, sizes, prim):
    from cspuz import graph as G
    mk = graphs.mk_graph(n, edges)
    m = len(edges)

    def builder(s):
        bs = [s.bool_var() for _ in range(m)]
        return lambda: G.division_connected_variable_groups_with_borders(s, group_size=list(sizes), is_border=bs, graph=mk,
                                                                       use_graph_primitive=prim)
    decls, cs, base, _ = graphs.real_program(builder)
    for bd in graphs.all_patterns(m):
        fixed = {f"b{k}": bd[k] for k in range(m)}
        got = exprio.solve_prog(decls, cs, base, fixed) is not None
        comp = cut_blocks(n, edges, bd)
        want = all(not (bd[k] and comp[u] == comp[v]) for k, (u, v) in enumerate(edges)) and \
            all(sizes[v] is None or sum(1 for w in range(n) if comp[w] == comp[v]) == sizes[v] for v in range(n))
        if got != want:
            return list(bd), got, want
    return None


def _check_borders_frame(H, W):
    """The 2-D entry: group_size an IntArray2D of variables, is_border a BoolInnerGridFrame (horizontal (H-1) x W borders
    between vertically adjacent cells first, then vertical H x (W-1) borders).  For every border pattern: with every cell's size
    fixed to the size of its block after cutting the borders the constraints must be satisfiable exactly when no border lies
    inside a block; with one size off by one they must be unsatisfiable."""
    from cspuz import graph as G
    from cspuz.grid_frame import BoolInnerGridFrame
    n = H * W
    cell_edges = [((y, x), (y + 1, x)) for y in range(H - 1) for x in range(W)] + [((y, x), (y, x + 1)) for y in range(H) for x in range(W - 1)]
    edges = [(a[0] * W + a[1], b[0] * W + b[1]) for a, b in cell_edges]
    m = len(edges)

    def builder(s):
        gs = s.int_array((H, W), 1, max(1, n))
        fr = BoolInnerGridFrame(s, H, W)
        return lambda: G.division_connected_variable_groups_with_borders(s, group_size=gs, is_border=fr, use_graph_primitive=False)
    decls, cs, base, _ = graphs.real_program(builder)
    for bd in graphs.all_patterns(m):
        comp = cut_blocks(n, edges, bd)
        size = [sum(1 for w in range(n) if comp[w] == comp[v]) for v in range(n)]
        ok_borders = all(not (bd[k] and comp[u] == comp[v]) for k, (u, v) in enumerate(edges))
        for delta in (0, 1):
            sz = list(size)
            if delta:
                sz[0] = sz[0] % max(1, n) + 1
            fixed = {f"i{v}": sz[v] for v in range(n)}
            fixed.update({f"b{n + k}": bd[k] for k in range(m)})
            got = exprio.solve_prog(decls, cs, base, fixed) is not None
            want = ok_borders and sz == size
            if got != want:
                return list(bd), sz, got, want
    return None


def search(ctx, why, budget=None):
    rng = ctx.rng
    found = {}
    for (H, W) in ((1, 1), (1, 2), (2, 1), (1, 3), (3, 1), (2, 2), (2, 3)):
        if "borders:frame" in found:
            break
        try:
            bad = _check_borders_frame(H, W)
        except Exception as e:
            bad = ("exception", core.err_name(e), str(e)[:200], None)
        ctx.count("search:borders:frame")
        if bad:
            found["borders:frame"] = Finding(
                "borders:frame", f"division_connected_variable_groups_with_borders(group_size=IntArray2D, is_border=BoolInnerGridFrame) on a "
                f"{H}x{W} board, borders={bad[0]}, sizes={bad[1]}: satisfiable={bad[2]} expected {bad[3]}",
                {"fn": "frame", "H": H, "W": W, "borders": bad[0], "sizes": bad[1]})
    for (n, edges) in graphs.small_graphs(rng, budget or ctx.n(12, 30), 4):
        if n > 4 or len(edges) > 6:
            continue
        variants = [("none", None), ("scalar", [rng.randint(1, n)]), ("per", [rng.choice([None, rng.randint(1, n)]) for _ in range(n)]),
                    ("per", [None] * n)]
        for kind, sizes in variants:
            key = "groups:" + kind
            if key not in found:
                try:
                    bad = _check_groups(n, edges, kind, sizes)
                except Exception as e:
                    bad = ("exception", core.err_name(e), str(e)[:200])
                ctx.count("search:" + key)
                if bad:
                    found[key] = Finding(key, f"division_connected_variable_groups n={n} edges={edges} group_size({kind})={sizes} partition={bad[0]}: "
                                              f"realisable={bad[1]} expected {bad[2]}", {"n": n, "edges": edges, "kind": kind, "sizes": sizes, "partition": bad[0], "fn": "groups"})
        for prim in (False, True):
            sizes = [rng.choice([None, rng.randint(1, n)]) for _ in range(n)]
            for sz in (sizes, [None] * n):
                key = "borders:" + ("prim" if prim else "aux")
                if key in found:
                    continue
                try:
                    bad = _check_borders(n, edges, sz, prim)
                except Exception as e:
                    bad = ("exception", core.err_name(e), str(e)[:200])
                ctx.count("search:" + key)
                if bad:
                    found[key] = Finding(key, f"division_connected_variable_groups_with_borders(prim={prim}) n={n} edges={edges} group_size={sz} "
                                              f"is_border={bad[0]}: satisfiable={bad[1]} expected {bad[2]}",
                                         {"n": n, "edges": edges, "sizes": sz, "prim": prim, "borders": bad[0], "fn": "borders"})
    return list(found.values())


def replay(ctx, data):
    if data.get("fn") == "frame":
        bad = _check_borders_frame(data["H"], data["W"])
        return Finding("c07:replay", f"still fails: {bad}", data) if bad else None
    edges = [tuple(e) for e in data["edges"]]
    if data.get("fn") == "groups":
        bad = _check_groups(data["n"], edges, data["kind"], data["sizes"])
    else:
        bad = _check_borders(data["n"], edges, data["sizes"], data["prim"])
    return Finding("c07:replay", f"still fails: {bad}", data) if bad else None
