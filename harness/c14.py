"""C14 — BoolGridFrame accessors are consistent with the lattice geometry.

correspond : real `BoolGridFrame` / `BoolInnerGridFrame` on a real `cspuz.Solver()` against the Lean model
             (Model/GridFrame.lean, Model/GridFrameExt.lean) and the executable Lean spec (Spec/FrameGeom.lean).
search     : the real accessors against `Geom`, a plain-Python description of the lattice written from the
             geometry (segments with their two end points and their two cells), not from the accessor code.
"""
from . import core
from .core import Finding, sx

THEOREMS = [
    "Cspuz.C14.C14_getitem",
    "Cspuz.C14.C14_cell",
    "Cspuz.C14.C14_vertex",
    "Cspuz.C14.C14_graph",
    "Cspuz.C14.C14_names",
    "Cspuz.C14.C14_iter",
    "Cspuz.C14.C14_dual",
]

MARGIN = 3

# Long thin frames: the property is quantified over all sizes, and a dimension >= 257 is where integer coordinates stop being
# CPython's cached small-int objects (an identity comparison `y is frame.height` then differs from `y == frame.height`).  A handful
# per run, every accessor, coordinates in windows around 0, the small-int cache boundary, the middle and the far boundary.
LARGE_FRAMES = [(257, 0), (0, 257), (300, 2), (1, 260), (2, 258), (256, 1)]
LARGE_INNER = [(258, 1), (1, 258), (301, 3), (2, 261)]     # boards; the dual frame is one smaller in both directions
FULL_AXIS = 40


def _fresh(v):
    """An int equal to v that is a NEW object whenever v lies outside CPython's small-int cache (-5..256): never the same object
    as `frame.height` / `frame.width` or as a literal of the calling code (what `range`, arithmetic or parsing give a caller)."""
    return int(str(v))


def _axis(n, margin=MARGIN):
    """The coordinates -margin .. n+margin of one axis; on a long axis only the windows around 0, n/2, 256/257, 512/514 and n."""
    lo, hi = -margin, n + margin
    if hi - lo + 1 <= FULL_AXIS:
        vals = list(range(lo, hi + 1))
    else:
        vs = set()
        for c in (0, n // 2, 256, 257, 512, 514, n):
            if lo <= c <= hi:
                vs.update(range(max(lo, c - margin - 1), min(hi, c + margin + 1) + 1))
        vals = sorted(vs)
    return [_fresh(v) for v in vals]


# ---------------------------------------------------------------------------------------------
# the real code


def _solver(base, pattern=0):
    """A real Solver that already owns `base` variables (a mix of bool and int ones: ids are shared)."""
    import cspuz
    s = cspuz.Solver()
    for i in range(base):
        if (pattern >> (i % 8)) & 1:
            s.int_var(0, 3)
        else:
            s.bool_var()
    return s


def _frame(H, W, base, pattern=0):
    from cspuz.grid_frame import BoolGridFrame
    s = _solver(base, pattern)
    return s, BoolGridFrame(s, H, W)


def _inner(H, W, base, pattern=0):
    from cspuz.grid_frame import BoolInnerGridFrame
    s = _solver(base, pattern)
    return s, BoolInnerGridFrame(s, H, W)


# Histories: a call that FAILS must leave nothing behind.  Before the ordinary checks of a frame size, every public entry that
# derives a lattice graph from a frame is called with malformed frames of exactly that size (an edge array one row / one column
# short, passed with the `horizontal=` / `vertical=` constructor arguments, on a throw-away solver); whatever those calls do
# (IndexError is the usual outcome), the fresh, well-formed frames examined afterwards must still agree with the geometry.
HISTORY_MAX = 4              # every size 0x0 .. 4x4
HISTORY_LARGE = [(300, 2)]   # and one long thin one
FAIL_LIMIT = 20.0            # seconds per failing call


def _has_history(H, W):
    return (0 <= H <= HISTORY_MAX and 0 <= W <= HISTORY_MAX) or (H, W) in HISTORY_LARGE


def _malformed_shapes(H, W):
    """(label, shape of `horizontal`, shape of `vertical`) for a H x W frame: exactly one array one row / one column short."""
    good_h, good_v = (H + 1, W), (H, W + 1)
    out = [("horizontal-row-short", (H, W), good_v), ("vertical-col-short", good_h, (H, W))]
    if W >= 1:
        out.append(("horizontal-col-short", (H + 1, W - 1), good_v))
    if H >= 1:
        out.append(("vertical-row-short", good_h, (H - 1, W + 1)))
    return out


def _failing_calls(H, W, ctx=None):
    """Calls with malformed frames of size H x W through every public entry that builds the lattice graph of a frame.  -> the list of
    (entry, malformation, outcome); outcomes are only recorded (the property says nothing about malformed frames), except that a
    call that does not return is a RealTimeout."""
    import cspuz
    from cspuz import graph as G
    from cspuz.grid_frame import BoolGridFrame, BoolInnerGridFrame

    def frame(label, hs, vs):
        s = cspuz.Solver()
        return s, BoolGridFrame(s, H, W, horizontal=s.bool_array(hs), vertical=s.bool_array(vs))

    def inner(label, hs, vs):
        # the board whose dual is the malformed H x W frame: dual() swaps the two arrays
        s = cspuz.Solver()
        return s, BoolInnerGridFrame(s, H + 1, W + 1, horizontal=s.bool_array(vs), vertical=s.bool_array(hs))

    def division(s, f):
        return G.division_connected_variable_groups_with_borders(s, group_size=s.int_array((H + 1, W + 1), 1, (H + 1) * (W + 1)), is_border=f)

    entries = [
        ("_from_grid_frame", frame, lambda s, f: G._from_grid_frame(f)),
        ("active_edges_single_cycle", frame, lambda s, f: G.active_edges_single_cycle(s, f)),
        ("single_loop", frame, lambda s, f: f.single_loop()),
        ("active_edges_single_path", frame, lambda s, f: G.active_edges_single_path(s, f)),
        ("active_edges_connected_crossable", frame, lambda s, f: G.active_edges_connected_crossable(s, f)),
        ("division_connected_variable_groups_with_borders", inner, division),
        ("_from_grid_frame(inner.dual())", inner, lambda s, f: G._from_grid_frame(f.dual())),
    ]
    log = []
    for (label, hs, vs) in _malformed_shapes(H, W):
        for (name, mk, call) in entries:
            try:
                s, f = mk(label, hs, vs)
                core.with_timeout(FAIL_LIMIT, call, s, f)
                r = "returned"
            except Exception as e:  # noqa: BLE001 - the call is allowed to fail; RealTimeout (a BaseException) goes through
                r = core.err_name(e)
            log.append((name, label, r))
            if ctx is not None:
                ctx.count("failing-call:" + r)
                ctx.case({"frame": [H, W], "failing_call": name, "malformed": label, "real": r}, ("failing-call", H, W, name, label))
    return log


def _ident(e):
    from cspuz.expr import BoolVar
    if isinstance(e, BoolVar):
        return e.id
    return "?" + type(e).__name__


def _one(fn):
    try:
        return _ident(fn())
    except Exception as e:  # noqa: BLE001 - the exception kind is the observation
        return ["err", core.err_name(e)]


def _many(fn):
    try:
        r = fn()
        return [_ident(e) for e in r]
    except Exception as e:  # noqa: BLE001
        return ["err", core.err_name(e)]


def _arr(a):
    return [a.shape[0], a.shape[1], [_ident(e) for e in a.data]]


def _frame_repr(f):
    return [f.height, f.width, _arr(f.horizontal), _arr(f.vertical)]


def _s(x):
    """to the nested-list-of-strings form `core.parse_sx` produces"""
    if isinstance(x, (list, tuple)):
        return [_s(e) for e in x]
    return str(x)


# ---------------------------------------------------------------------------------------------
# the geometry, in plain Python (independent of cspuz): used by `search` / `replay`


class Geom:
    """The segments of a H x W frame whose variables were allocated after `base` others.

    h(y,x), 0<=y<=H, 0<=x<W : joins points (y,x)-(y,x+1), separates cells (y-1,x) | (y,x)
    v(y,x), 0<=y<H, 0<=x<=W : joins points (y,x)-(y+1,x), separates cells (y,x-1) | (y,x)
    variables: horizontal ones row by row first, then the vertical ones row by row."""

    def __init__(self, H, W, base):
        self.H, self.W, self.base = H, W, base
        self.segs = []  # (id, kind, (p1, p2), (c1, c2))
        n = base
        for y in range(H + 1):
            for x in range(W):
                self.segs.append((n, "h", ((y, x), (y, x + 1)), ((y - 1, x), (y, x))))
                n += 1
        for y in range(H):
            for x in range(W + 1):
                self.segs.append((n, "v", ((y, x), (y + 1, x)), ((y, x - 1), (y, x))))
                n += 1
        self.by_pos = {(p[0][0] + p[1][0], p[0][1] + p[1][1]): i for (i, _, p, _) in self.segs}
        self.by_points = {frozenset(p): i for (i, _, p, _) in self.segs}
        self.by_cells = {frozenset(c): i for (i, _, _, c) in self.segs}

    def is_cell(self, y, x):
        return 0 <= y < self.H and 0 <= x < self.W

    def is_point(self, y, x):
        return 0 <= y <= self.H and 0 <= x <= self.W

    def getitem(self, Y, X):
        return self.by_pos.get((Y, X), ["err", "IndexError"])

    def cell(self, y, x):
        """upper, lower, left, right side of the cell"""
        if not self.is_cell(y, x):
            return ["err", "IndexError"]
        return [self.by_cells[frozenset(((y, x), n))] for n in ((y - 1, x), (y + 1, x), (y, x - 1), (y, x + 1))]

    def vertex(self, y, x):
        """segments going up, down, left, right from the point (those that exist)"""
        if not self.is_point(y, x):
            return ["err", "IndexError"]
        out = []
        for n in ((y - 1, x), (y + 1, x), (y, x - 1), (y, x + 1)):
            i = self.by_points.get(frozenset(((y, x), n)))
            if i is not None:
                out.append(i)
        return out

    def point_index(self, p):
        return p[0] * (self.W + 1) + p[1]

    def horizontal(self):
        return [i for (i, k, _, _) in self.segs if k == "h"]

    def vertical(self):
        return [i for (i, k, _, _) in self.segs if k == "v"]

    def graph_pairs(self):
        return sorted((i, tuple(sorted((self.point_index(p[0]), self.point_index(p[1]))))) for (i, _, p, _) in self.segs)


def _oracle_checks(H, W, base, pattern=0, history=True):
    """Yield (op, args, real, expected) for every observation on one real frame that contradicts the geometry.  For the sizes of
    `_has_history` the failing calls on malformed frames of the same size come first (in a fresh process they are the first
    requests for that size); the frame examined is created afterwards."""
    from cspuz import graph as G
    from cspuz.grid_frame import BoolGridFrame, BoolInnerGridFrame
    g = Geom(H, W, base)
    if history and _has_history(H, W):
        _failing_calls(H, W)
    s, f = _frame(H, W, base, pattern)
    for Y in _axis(2 * H):
        for X in _axis(2 * W):
            r = _one(lambda: f[Y, X])
            if r != g.getitem(Y, X):
                yield ("getitem", [Y, X], r, g.getitem(Y, X))
    for y in _axis(H):
        for x in _axis(W):
            e = g.cell(y, x)
            for form, r in (("cell", _many(lambda: f.cell_neighbors(y, x))), ("cell-tuple", _many(lambda: f.cell_neighbors((y, x))))):
                if r != e:
                    kind = form if (r[:1] == ["err"] or e[:1] == ["err"] or sorted(map(str, r)) != sorted(map(str, e))) else form + "-order"
                    yield (kind, [y, x], r, e)
            e = g.vertex(y, x)
            for form, r in (("vertex", _many(lambda: f.vertex_neighbors(y, x))), ("vertex-tuple", _many(lambda: f.vertex_neighbors((y, x))))):
                if r != e:
                    kind = form if (r[:1] == ["err"] or e[:1] == ["err"] or sorted(map(str, r)) != sorted(map(str, e))) else form + "-order"
                    yield (kind, [y, x], r, e)
    e = g.horizontal() + g.vertical()
    for op, r in (("all_edges", _many(lambda: f.all_edges())), ("iter", _many(lambda: list(iter(f))))):
        if r != e:
            yield (op, [], r, e)
    r = [_arr(f.horizontal), _arr(f.vertical)]
    e = [[H + 1, W, g.horizontal()], [H, W + 1, g.vertical()]]
    if r != e:
        yield ("arrays", [], r, e)
    # graph handed to the loop constraints
    try:
        edges, gr = G._from_grid_frame(f)
        ids = [_ident(x) for x in edges]
        if gr.num_vertices != (H + 1) * (W + 1) or len(ids) != len(gr.edges):
            yield ("graph-size", [], [gr.num_vertices, len(ids), len(gr.edges)], [(H + 1) * (W + 1), len(g.segs), len(g.segs)])
        r = sorted((i, tuple(sorted(ab))) for i, ab in zip(ids, gr.edges))
        gp = g.graph_pairs()
        if r != gp:
            rset, gset = set(r), set(gp)
            bad = [x for x in r if x not in gset] + [x for x in gp if x not in rset]
            yield ("graph", [], r if len(r) < 12 else bad[:6], gp if len(r) < 12 else bad[:6])
    except Exception as ex:  # noqa: BLE001
        yield ("graph", [], ["err", core.err_name(ex)], "no exception")
    # dual: the points of the frame are the cells of the dual board; the border between two cells is the
    # segment joining the two points
    try:
        d = f.dual()
        dd = d.dual()
        ok = isinstance(d, BoolInnerGridFrame) and isinstance(dd, BoolGridFrame) and (d.height, d.width) == (H + 1, W + 1)
        if not ok:
            yield ("dual-kind", [], [type(d).__name__, d.height, d.width], ["BoolInnerGridFrame", H + 1, W + 1])
        if _frame_repr(dd) != _frame_repr(f):
            yield ("dual-dual", [], _frame_repr(dd), _frame_repr(f))
        for (i, k, p, _) in g.segs:
            (y1, x1), (y2, x2) = p
            # border between the dual cells p[0] | p[1]: stacked cells -> horizontal border, side by side -> vertical
            r = _one(lambda: d.horizontal[y1, x1]) if x1 == x2 else _one(lambda: d.vertical[y1, x1])
            if r != i:
                yield ("dual-border", [list(p[0]), list(p[1])], r, i)
        if (d.horizontal.shape, d.vertical.shape) != ((H, W + 1), (H + 1, W)):
            yield ("dual-shape", [], [list(d.horizontal.shape), list(d.vertical.shape)], [[H, W + 1], [H + 1, W]])
        r = _many(lambda: list(iter(d)))
        if sorted(map(str, r)) != sorted(map(str, [i for (i, _, _, _) in g.segs])):
            yield ("dual-iter", [], r, [i for (i, _, _, _) in g.segs])
    except Exception as ex:  # noqa: BLE001
        yield ("dual", [], ["err", core.err_name(ex)], "no exception")


def _inner_oracle_checks(Hb, Wb, base, pattern=0, history=True):
    """A fresh BoolInnerGridFrame of a Hb x Wb board (Hb, Wb >= 1): its dual frame has the board cells as points.  (Preceded by
    the failing calls of `_failing_calls` for the size of the dual frame, as in `_oracle_checks`.)"""
    from cspuz import graph as G
    from cspuz.grid_frame import BoolGridFrame
    if history and _has_history(Hb - 1, Wb - 1):
        _failing_calls(Hb - 1, Wb - 1)
    s, gi = _inner(Hb, Wb, base, pattern)
    # borders: hb(y,x) between cells (y,x)|(y+1,x) first (row-major), then vb(y,x) between (y,x)|(y,x+1)
    borders = {}
    n = base
    for y in range(Hb - 1):
        for x in range(Wb):
            borders[frozenset(((y, x), (y + 1, x)))] = n
            n += 1
    for y in range(Hb):
        for x in range(Wb - 1):
            borders[frozenset(((y, x), (y, x + 1)))] = n
            n += 1
    try:
        d = gi.dual()
        if not (isinstance(d, BoolGridFrame) and (d.height, d.width) == (Hb - 1, Wb - 1)):
            yield ("inner-dual-kind", [], [type(d).__name__, d.height, d.width], ["BoolGridFrame", Hb - 1, Wb - 1])
        for Y in _axis(2 * (Hb - 1)):
            for X in _axis(2 * (Wb - 1)):
                # the segment at (Y, X) joins the points (Y//2, X//2) and the next one down / right
                e = ["err", "IndexError"]
                if Y % 2 != X % 2:
                    p1 = (Y // 2, X // 2)
                    p2 = (p1[0] + Y % 2, p1[1] + X % 2)
                    e = borders.get(frozenset((p1, p2)), e)
                r = _one(lambda: d[Y, X])
                if r != e:
                    yield ("inner-dual-getitem", [Y, X], r, e)
        # the dual frame's points are the board cells: the segments at a point / around a cell of the dual frame are borders
        for y in _axis(Hb - 1):
            for x in _axis(Wb - 1):
                e = ["err", "IndexError"]
                if 0 <= y <= Hb - 1 and 0 <= x <= Wb - 1:
                    e = [borders[k] for k in (frozenset(((y, x), n)) for n in ((y - 1, x), (y + 1, x), (y, x - 1), (y, x + 1)))
                         if k in borders]
                for form, r in (("inner-dual-vertex", _many(lambda: d.vertex_neighbors(y, x))),
                                ("inner-dual-vertex-tuple", _many(lambda: d.vertex_neighbors((y, x))))):
                    if r != e:
                        yield (form, [y, x], r, e)
                e = ["err", "IndexError"]
                if 0 <= y < Hb - 1 and 0 <= x < Wb - 1:
                    e = [borders[frozenset(pq)] for pq in (((y, x), (y, x + 1)), ((y + 1, x), (y + 1, x + 1)),
                                                           ((y, x), (y + 1, x)), ((y, x + 1), (y + 1, x + 1)))]
                for form, r in (("inner-dual-cell", _many(lambda: d.cell_neighbors(y, x))),
                                ("inner-dual-cell-tuple", _many(lambda: d.cell_neighbors((y, x))))):
                    if r != e:
                        yield (form, [y, x], r, e)
        dd = d.dual()
        if [dd.height, dd.width, _arr(dd.horizontal), _arr(dd.vertical)] != [Hb, Wb, _arr(gi.horizontal), _arr(gi.vertical)]:
            yield ("inner-dual-dual", [], [dd.height, dd.width], [Hb, Wb])
        r = _many(lambda: list(iter(gi)))
        if sorted(map(str, r)) != sorted(map(str, borders.values())) or r != _many(lambda: list(iter(d))):
            yield ("inner-iter", [], r, sorted(borders.values()))
        # the graph the division constraint derives from the board: one vertex per cell (row-major), one edge per border
        edges, gr = G._from_grid_frame(gi.dual())
        r = sorted((_ident(e), tuple(sorted(ab))) for e, ab in zip(edges, gr.edges))
        e = sorted((i, tuple(sorted(p[0] * Wb + p[1] for p in k))) for k, i in borders.items())
        if gr.num_vertices != Hb * Wb or len(edges) != len(gr.edges):
            yield ("inner-dual-graph-size", [], [gr.num_vertices, len(edges), len(gr.edges)], [Hb * Wb, len(e), len(e)])
        if r != e:
            rset, eset = set(r), set(e)
            bad = [x for x in r if x not in eset] + [x for x in e if x not in rset]
            yield ("inner-dual-graph", [], r if len(r) < 12 else bad[:6], e if len(r) < 12 else bad[:6])
    except Exception as ex:  # noqa: BLE001
        yield ("inner-dual", [], ["err", core.err_name(ex)], "no exception")


def _sig(op):
    return "frame:" + op


def _finding(H, W, base, pattern, op, args, real, expected, inner=False):
    what = (f"{'BoolInnerGridFrame' if inner else 'BoolGridFrame'}(solver, {H}, {W}) created after {base} variables: "
            f"{op}{tuple(args) if args else ''} gives {sx(real)} but the geometry says {sx(expected)}")
    fh, fw = (H - 1, W - 1) if inner else (H, W)
    if _has_history(fh, fw):
        what += (f" [history: before this fresh, well-formed frame was created, the graph entries (_from_grid_frame, active_edges_single_cycle"
                 f" / _single_path / _connected_crossable, single_loop, division_connected_variable_groups_with_borders) were called with "
                 f"malformed {fh}x{fw} frames (horizontal / vertical one row or one column short), each call in try/except]")
    return Finding(_sig(op), what, {"H": H, "W": W, "base": base, "pattern": pattern, "op": op, "args": args,
                                    "real": real, "expected": expected, "inner": inner})


def search(ctx, why):
    """Every frame 0x0 .. 4x4 (and every inner frame 1x1 .. 5x5), every coordinate with a margin of 3, two variable
    offsets, each frame size preceded by failing calls of the graph entries on malformed frames of that size (`_failing_calls`); then the long thin frames of LARGE_FRAMES / LARGE_INNER (coordinates: windows around 0, the middle, 256/257 and the
    far boundary, every one a fresh int object): the real accessors against the plain-Python geometry.  One finding per kind
    of accessor (the smallest frame showing it)."""
    found = {}
    for base, pattern in ((0, 0), (5, 0b10110)):
        for H in range(0, HISTORY_MAX + 1):
            for W in range(0, HISTORY_MAX + 1):
                for (op, args, real, expected) in _oracle_checks(H, W, base, pattern):
                    if _sig(op) not in found:
                        found[_sig(op)] = _finding(H, W, base, pattern, op, args, real, expected)
        for H in range(1, HISTORY_MAX + 2):
            for W in range(1, HISTORY_MAX + 2):
                for (op, args, real, expected) in _inner_oracle_checks(H, W, base, pattern):
                    if _sig(op) not in found:
                        found[_sig(op)] = _finding(H, W, base, pattern, op, args, real, expected, inner=True)
    base, pattern = 3, 0b101
    for (H, W) in LARGE_FRAMES:
        for (op, args, real, expected) in _oracle_checks(H, W, base, pattern):
            if _sig(op) not in found:
                found[_sig(op)] = _finding(H, W, base, pattern, op, args, real, expected)
    for (H, W) in LARGE_INNER:
        for (op, args, real, expected) in _inner_oracle_checks(H, W, base, pattern):
            if _sig(op) not in found:
                found[_sig(op)] = _finding(H, W, base, pattern, op, args, real, expected, inner=True)
    return list(found.values())


def replay(ctx, data):
    if "op" not in data:
        return None
    H, W, base, pattern = data["H"], data["W"], data.get("base", 0), data.get("pattern", 0)
    gen = _inner_oracle_checks if data.get("inner") else _oracle_checks
    for (op, args, real, expected) in gen(H, W, base, pattern):
        if op == data["op"] and (list(args) == list(data.get("args", [])) or not data.get("args")):
            return _finding(H, W, base, pattern, op, args, real, expected, inner=bool(data.get("inner")))
    for (op, args, real, expected) in gen(H, W, base, pattern):
        if op == data["op"]:
            return _finding(H, W, base, pattern, op, args, real, expected, inner=bool(data.get("inner")))
    return None


# ---------------------------------------------------------------------------------------------
# correspondence with the Lean model and the Lean spec


def _expect(ctx, kind, H, W, base, op, real, other, side):
    if _s(real) != other:
        ctx.disagree(kind, H=H, W=W, base=base, op=op, real=sx(real), **{side: sx(other)})


def correspond(ctx):
    from cspuz import graph as G
    from cspuz.array import BoolArray1D
    from cspuz.grid_frame import BoolGridFrame, BoolInnerGridFrame
    rng = ctx.rng
    maxdim = ctx.n(5, 8)
    ctx.extra["rule"] = (
        f"every BoolGridFrame(solver, H, W) with 0 <= H, W <= {maxdim} on a real cspuz.Solver() that already owns a random "
        "number (0..9, one third 0) of bool/int variables; every doubled coordinate pair in [-3, 2H+3] x [-3, 2W+3] for "
        "frame[y, x]; every pair in [-3, H+3] x [-3, W+3] for cell_neighbors / vertex_neighbors (both call forms); "
        "all_edges(), iter(), the two arrays, dual(), dual().dual(), iter(dual()), graph._from_grid_frame; every "
        f"BoolInnerGridFrame(solver, H', W') with 1 <= H', W' <= {maxdim + 1}: arrays, dual() addressed at every coordinate with "
        "margin, dual().dual(), iter(); real variable ids / exception names vs Lean model vs executable Lean spec; a small "
        "stream of ill-typed calls. Histories: before all of this, for every size 0x0..4x4 and " + str(HISTORY_LARGE) + ", the graph entries "
        "(_from_grid_frame, active_edges_single_cycle / _single_path / _connected_crossable, single_loop, "
        "division_connected_variable_groups_with_borders) are called in try/except (time-limited) with malformed frames of that size "
        "(horizontal / vertical one row or one column short); the well-formed frames are created afterwards. Long thin frames " + str(LARGE_FRAMES) + " and inner frames " + str(LARGE_INNER) + ": the same "
        "accessors (plus cell/vertex_neighbors of an inner frame's dual) at coordinates in windows around 0, the middle, 256/257 "
        "and the far boundary, each coordinate a fresh int object (never the object stored in frame.height/width). Non-trivial+distinct = (H, W, accessor, coordinates) whose result is a variable, a "
        "non-empty list or an exception")
    # histories: the failing calls on malformed frames come first, for every size 0x0 .. 4x4 and one long thin size, before any
    # well-formed frame of that size has been handed to the graph code in this process
    for (H, W) in [(H, W) for H in range(0, HISTORY_MAX + 1) for W in range(0, HISTORY_MAX + 1)] + HISTORY_LARGE:
        _failing_calls(H, W, ctx)
    drv = core.Driver()
    lines = []
    plan = []  # (tag, H, W, base, args, index of first line)

    def add(tag, H, W, base, args, *ls):
        plan.append((tag, H, W, base, args, len(lines)))
        lines.extend(ls)

    frames = {}
    for (H, W) in [(H, W) for H in range(0, maxdim + 1) for W in range(0, maxdim + 1)] + LARGE_FRAMES:
        base = 0 if rng.random() < 0.34 else rng.randint(1, 9)
        pattern = rng.randint(0, 255)
        frames[(H, W)] = (base, pattern)
        for Y in _axis(2 * H):
            for X in _axis(2 * W):
                add("get", H, W, base, (Y, X), sx(["frame_get", H, W, base, Y, X]), sx(["spec_get", H, W, base, Y, X]))
        for y in _axis(H):
            for x in _axis(W):
                add("cell", H, W, base, (y, x), sx(["frame_cell", H, W, base, y, x]), sx(["spec_cell", H, W, base, y, x]))
                add("vertex", H, W, base, (y, x), sx(["frame_vertex", H, W, base, y, x]), sx(["spec_vertex", H, W, base, y, x]))
        add("whole", H, W, base, (), sx(["frame_all", H, W, base]), sx(["frame_dual", H, W, base]),
            sx(["frame_graph", H, W, base]), sx(["spec_all", H, W, base]))
    inners = {}
    for (H, W) in [(H, W) for H in range(1, maxdim + 2) for W in range(1, maxdim + 2)] + LARGE_INNER:
        base = 0 if rng.random() < 0.34 else rng.randint(1, 9)
        pattern = rng.randint(0, 255)
        inners[(H, W)] = (base, pattern)
        add("inner", H, W, base, (), sx(["inner_all", H, W, base]))
        for y in range(H - 1):
            for x in range(W):
                add("inner_h", H, W, base, (y, x), sx(["inner_border", H, W, base, "h", y, x]))
        for y in range(H):
            for x in range(W - 1):
                add("inner_v", H, W, base, (y, x), sx(["inner_border", H, W, base, "v", y, x]))
        for Y in _axis(2 * (H - 1)):
            for X in _axis(2 * (W - 1)):
                add("inner_get", H, W, base, (Y, X), sx(["inner_dual_get", H, W, base, Y, X]))
        for y in _axis(H - 1):
            for x in _axis(W - 1):
                add("inner_cell", H, W, base, (y, x), sx(["inner_dual_cell", H, W, base, y, x]))
                add("inner_vertex", H, W, base, (y, x), sx(["inner_dual_vertex", H, W, base, y, x]))
    outs = [core.parse_sx(o) for o in drv.run(lines)]

    real_frames = {}
    real_inner = {}
    for (tag, H, W, base, args, k) in plan:
        if tag.startswith("inner"):
            if (H, W) not in real_inner:
                real_inner[(H, W)] = _inner(H, W, base, inners[(H, W)][1])[1]
            gi = real_inner[(H, W)]
        else:
            if (H, W) not in real_frames:
                real_frames[(H, W)] = _frame(H, W, base, frames[(H, W)][1])[1]
            f = real_frames[(H, W)]
        if tag == "get":
            Y, X = args
            r = _one(lambda: f[Y, X])
            ctx.count("getitem:" + ("var" if not isinstance(r, list) else r[1]))
            ctx.case({"frame": [H, W], "base": base, "getitem": [Y, X], "real": sx(r)}, (H, W, "get", Y, X))
            _expect(ctx, "model-vs-code:getitem", H, W, base, ["getitem", Y, X], r, outs[k], "model")
            _expect(ctx, "spec-vs-code:getitem", H, W, base, ["getitem", Y, X], r, outs[k + 1], "spec")
        elif tag in ("cell", "vertex"):
            y, x = args
            fn = f.cell_neighbors if tag == "cell" else f.vertex_neighbors
            r = _many(lambda: fn(y, x))
            r2 = _many(lambda: fn((y, x)))
            ctx.count(tag + ":" + (str(len(r)) + "-edges" if r[:1] != ["err"] else r[1]))
            ctx.case({"frame": [H, W], "base": base, tag: [y, x], "real": sx(r)},
                     (H, W, tag, y, x) if (r[:1] == ["err"] or r) else None)
            if r != r2:
                ctx.disagree("call-forms-differ:" + tag, H=H, W=W, base=base, args=[y, x], two_ints=sx(r), pair=sx(r2))
            if r[:1] != ["err"] and not isinstance(fn(y, x), BoolArray1D):
                ctx.disagree("return-type:" + tag, H=H, W=W, got=type(fn(y, x)).__name__)
            _expect(ctx, "model-vs-code:" + tag, H, W, base, [tag, y, x], r, outs[k], "model")
            rs = r if r[:1] == ["err"] else sorted(r, key=lambda v: (isinstance(v, str), v))
            _expect(ctx, "spec-vs-code:" + tag, H, W, base, [tag, y, x], rs, outs[k + 1], "spec")
        elif tag == "whole":
            ae = _many(lambda: f.all_edges())
            it = _many(lambda: list(iter(f)))
            ctx.case({"frame": [H, W], "base": base, "all_edges": sx(ae)}, (H, W, "all"))
            ctx.count("whole-frame")
            _expect(ctx, "model-vs-code:all_edges", H, W, base, "all_edges", [_frame_repr(f), ae], outs[k], "model")
            if it != ae or not isinstance(f.all_edges(), BoolArray1D):
                ctx.disagree("iter-vs-all_edges", H=H, W=W, base=base, iter=sx(it), all_edges=sx(ae))
            # dual
            try:
                d = f.dual()
                dd = d.dual()
                rd = [_frame_repr(d), _frame_repr(dd), [_ident(e) for e in d]]
                if not (isinstance(d, BoolInnerGridFrame) and isinstance(dd, BoolGridFrame)):
                    ctx.disagree("dual-kind", H=H, W=W, got=[type(d).__name__, type(dd).__name__])
                if not (d.horizontal is f.vertical and d.vertical is f.horizontal and d.solver is f.solver):
                    ctx.disagree("dual-shares-arrays", H=H, W=W)
            except Exception as e:  # noqa: BLE001
                rd = ["err", core.err_name(e)]
            ctx.case({"frame": [H, W], "base": base, "dual": sx(rd)}, (H, W, "dual"))
            _expect(ctx, "model-vs-code:dual", H, W, base, "dual", rd, outs[k + 1], "model")
            # graph
            try:
                edges, gr = G._from_grid_frame(f)
                rg = [[_ident(e) for e in edges], gr.num_vertices, [list(ab) for ab in gr.edges]]
            except Exception as e:  # noqa: BLE001
                rg = ["err", core.err_name(e)]
            ctx.case({"frame": [H, W], "base": base, "graph": sx(rg)[:200]}, (H, W, "graph"))
            _expect(ctx, "model-vs-code:_from_grid_frame", H, W, base, "_from_grid_frame", rg, outs[k + 2], "model")
            # executable spec: the two enumerations and the (variable, point, point) incidence set
            spec = outs[k + 3]
            _expect(ctx, "spec-vs-code:horizontal", H, W, base, "horizontal", [_ident(e) for e in f.horizontal.data], spec[0], "spec")
            _expect(ctx, "spec-vs-code:vertical", H, W, base, "vertical", [_ident(e) for e in f.vertical.data], spec[1], "spec")
            if rg[:1] != ["err"]:
                real_inc = sorted((str(i), str(min(ab)), str(max(ab))) for i, ab in zip(rg[0], rg[2]))
                spec_inc = sorted((t[0], str(min(int(t[1]), int(t[2]))), str(max(int(t[1]), int(t[2])))) for t in spec[2])
                if real_inc != spec_inc:
                    ctx.disagree("spec-vs-code:graph-incidence", H=H, W=W, base=base, real=sx(real_inc)[:300], spec=sx(spec_inc)[:300])
        elif tag == "inner":
            try:
                d = gi.dual()
                dd = d.dual()
                ri = [_frame_repr(gi), _frame_repr(d), _frame_repr(dd), [_ident(e) for e in gi]]
                if not (isinstance(d, BoolGridFrame) and isinstance(dd, BoolInnerGridFrame)):
                    ctx.disagree("inner-dual-kind", H=H, W=W, got=[type(d).__name__, type(dd).__name__])
            except Exception as e:  # noqa: BLE001
                ri = ["err", core.err_name(e)]
            ctx.count("inner-frame")
            ctx.case({"inner": [H, W], "base": base, "real": sx(ri)[:200]}, ("inner", H, W))
            _expect(ctx, "model-vs-code:inner", H, W, base, "inner", ri, outs[k], "model")
        elif tag in ("inner_h", "inner_v"):
            y, x = args
            r = _one(lambda: (gi.horizontal if tag == "inner_h" else gi.vertical)[y, x])
            ctx.count("inner-border")
            ctx.case({"inner": [H, W], tag: [y, x], "real": sx(r)}, ("inner", H, W, tag, y, x))
            _expect(ctx, "model-vs-code:" + tag, H, W, base, [tag, y, x], r, outs[k], "model")
        elif tag == "inner_get":
            Y, X = args
            r = _one(lambda: gi.dual()[Y, X])
            ctx.count("inner-dual-getitem:" + ("var" if not isinstance(r, list) else r[1]))
            ctx.case({"inner": [H, W], "dual_getitem": [Y, X], "real": sx(r)}, ("inner", H, W, "get", Y, X))
            _expect(ctx, "model-vs-code:inner-dual-getitem", H, W, base, ["inner_dual_get", Y, X], r, outs[k], "model")
        elif tag in ("inner_cell", "inner_vertex"):
            # cell_neighbors / vertex_neighbors of the frame that dual() of an inner frame returns
            y, x = args
            d = gi.dual()
            fn = d.cell_neighbors if tag == "inner_cell" else d.vertex_neighbors
            r = _many(lambda: fn(y, x))
            r2 = _many(lambda: fn((y, x)))
            ctx.count("inner-dual-" + tag[6:] + ":" + (str(len(r)) + "-edges" if r[:1] != ["err"] else r[1]))
            ctx.case({"inner": [H, W], "dual_" + tag[6:]: [y, x], "real": sx(r)},
                     ("inner", H, W, tag, y, x) if (r[:1] == ["err"] or r) else None)
            if r != r2:
                ctx.disagree("call-forms-differ:" + tag, H=H, W=W, base=base, args=[y, x], two_ints=sx(r), pair=sx(r2))
            _expect(ctx, "model-vs-code:inner-dual-" + tag[6:], H, W, base, [tag, y, x], r, outs[k], "model")

    # ill-typed calls (outside the model, which takes two integers): the accessor must refuse them, never answer
    s, f = _frame(2, 2, 0)
    malformed = [
        ("cell_neighbors(0)", lambda: f.cell_neighbors(0), {"TypeError"}),
        ("cell_neighbors((0,1),1)", lambda: f.cell_neighbors((0, 1), 1), {"TypeError"}),
        ("vertex_neighbors(0)", lambda: f.vertex_neighbors(0), {"TypeError"}),
        ("vertex_neighbors((0,1),1)", lambda: f.vertex_neighbors((0, 1), 1), {"TypeError"}),
        ("frame[1]", lambda: f[1], {"TypeError"}),
        ("frame[1,2,3]", lambda: f[1, 2, 3], {"ValueError", "TypeError", "IndexError"}),
        ("frame['a','b']", lambda: f["a", "b"], {"TypeError"}),
        ("frame[None,1]", lambda: f[None, 1], {"TypeError"}),
    ]
    for name, fn, allowed in malformed:
        try:
            fn()
            r = "returned"
        except Exception as e:  # noqa: BLE001
            r = core.err_name(e)
        ctx.count("malformed:" + r)
        ctx.case({"malformed": name, "real": r}, ("malformed", name))
        if r not in allowed:
            ctx.disagree("malformed-call-accepted", call=name, got=r, allowed=sorted(allowed))
