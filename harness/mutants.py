"""Mutation campaign (self-assessment of the checks, not part of any registered command).

usage:  /venv/bin/python -m harness.mutants run <plan> [--workers 4] [--per-file N] [--seed S] [--out results.jsonl]
        /venv/bin/python -m harness.mutants report results.jsonl

For every sampled syntactic mutant of an anchored source file of /repo (comparison flips, +-1 on small constants, + <-> -,
and <-> or, dropped `not`/`~`, height <-> width, deleted `ensure` statements, negated `if` conditions, swapped arguments):
  1. the mutant is written into the worker's own scratch copy of /repo (never into /repo),
  2. the repository's test suite is run there; a mutant the tests already kill is discarded,
  3. the quick checks of the properties anchored in that file are run from the worker's own copy of /verif with
     CSPUZ_REPO=<scratch copy>, and the outcome (exit code, VIOLATION lines) is recorded.
A mutant on which every relevant check exits 0 is a SURVIVOR: either it is equivalent / changes only unspecified behaviour,
or it is a gap in the checks.  Survivors are triaged by hand (see DESIGN.md 12.7).

Scratch directories live under /tmp/mut and are removed at the end of `run`.
"""
import ast
import copy
import json
import os
import random
import shutil
import subprocess
import sys
import time
from concurrent.futures import ThreadPoolExecutor

VERIF = os.path.dirname(os.path.dirname(os.path.abspath(__file__)))
REPO = "/repo"
PY = "/venv/bin/python"

# file -> (properties whose quick check is run, functions to restrict to or None)
PLANS = {
    "graph": [("cspuz/graph.py", ["C04", "C05", "C06", "C07", "C08", "C09", "C10", "C20"], None)],
    "array": [("cspuz/array.py", ["C12", "C13"], None)],
    "frame": [("cspuz/grid_frame.py", ["C14", "C06", "C10"], None)],
    "serializer": [("cspuz/problem_serializer.py", ["C15", "C16", "C17"], None)],
    "expr": [("cspuz/expr.py", ["C01", "C12"], None), ("cspuz/constraints.py", ["C01", "C12"], None)],
    "solver": [("cspuz/solver.py", ["C01", "C02", "C20", "C03"], None), ("cspuz/backend/z3.py", ["C01"], None)],
    "sugar": [("cspuz/backend/sugar_like.py", ["C03"], None), ("cspuz/backend/backend.py", ["C03", "C01"], None),
              ("cspuz/backend/_subproc.py", ["C03"], None)],
    "config": [("cspuz/configuration.py", ["C20"], None)],
    "generator": [("cspuz/generator/segmentation.py", ["C18"], None), ("cspuz/generator/core.py", ["C19"], None),
                  ("cspuz/generator/builder.py", ["C19"], None), ("cspuz/generator/deterministic_random.py", ["C19"], None)],
    "codecs": [("cspuz/puzzle/yajilin.py", ["C16", "C17", "C11"], ["serialize", "deserialize", "YajilinClue"]),
               ("cspuz/puzzle/compass.py", ["C16"], ["to_puzz_link_url", "parse_puzz_link_url"]),
               ("cspuz/puzzle/util.py", ["C16"], None)],
}
PUZZLES = ["akari", "aquarium", "building", "castle_wall", "compass", "creek", "doppelblock", "fillomino", "firefly", "fivecells",
           "geradeweg", "gokigen", "heyawake", "lits", "magnets", "masyu", "nanro", "norinori", "nurikabe", "nurimaze", "nurimisaki",
           "putteria", "shakashaka", "simpleloop", "slalom", "slitherlink", "star_battle", "sudoku", "view", "yajilin", "yinyang"]
PLANS["puzzles"] = [("cspuz/puzzle/%s.py" % p, ["C11"], ["solve_" + p]) for p in PUZZLES]

CMP = {ast.Lt: ast.LtE, ast.LtE: ast.Lt, ast.Gt: ast.GtE, ast.GtE: ast.Gt, ast.Eq: ast.NotEq, ast.NotEq: ast.Eq,
       ast.In: ast.NotIn, ast.NotIn: ast.In, ast.Is: ast.IsNot, ast.IsNot: ast.Is}
SWAPNAMES = {"height": "width", "width": "height"}


class Site:
    def __init__(self, kind, lineno, desc, apply):
        self.kind, self.lineno, self.desc, self.apply = kind, lineno, desc, apply


def _in_scope(stack, only):
    if only is None:
        return True
    return any(any(name.startswith(o) or o in name for o in only) for name in stack)


def sites(tree, only=None):
    """Enumerate mutation sites: each is a closure that mutates a deep copy of the tree in place (addressed by a path)."""
    out = []
    _parent_of = {}
    for parent in ast.walk(tree):
        for child in ast.iter_child_nodes(parent):
            _parent_of[id(child)] = parent

    def visit(node, path, stack):
        if isinstance(node, (ast.FunctionDef, ast.ClassDef)):
            stack = stack + [node.name]
        ok = _in_scope(stack, only)
        ln = getattr(node, "lineno", 0)
        if ok:
            if isinstance(node, ast.Compare):
                for i, op in enumerate(node.ops):
                    if type(op) in CMP:
                        out.append(Site("cmp", ln, "%s -> %s" % (type(op).__name__, CMP[type(op)].__name__),
                                        (lambda n, i=i: n.ops.__setitem__(i, CMP[type(n.ops[i])]()), path)))
            if isinstance(node, ast.Constant) and type(node.value) is int and -1 <= node.value <= 5:
                for d in (1, -1):
                    out.append(Site("const", ln, "%d -> %d" % (node.value, node.value + d),
                                    (lambda n, d=d: setattr(n, "value", n.value + d), path)))
            if isinstance(node, ast.Constant) and type(node.value) is str and 1 <= len(node.value) <= 12 and not isinstance(
                    _parent_of.get(id(node)), ast.Expr):
                out.append(Site("str", ln, "%r -> %r" % (node.value, node.value + "x"),
                                (lambda n: setattr(n, "value", n.value + "x"), path)))
            if isinstance(node, ast.Constant) and type(node.value) is bool:
                out.append(Site("boolconst", ln, "%r flipped" % node.value, (lambda n: setattr(n, "value", not n.value), path)))
            if isinstance(node, (ast.List, ast.Tuple)) and isinstance(node.ctx, ast.Load) and 2 <= len(node.elts) <= 8:
                out.append(Site("eltdrop", ln, "last element of a %d-element display dropped" % len(node.elts),
                                (lambda n: n.elts.pop(), path)))
                out.append(Site("eltswap", ln, "first two elements of a display swapped",
                                (lambda n: n.elts.__setitem__(slice(0, 2), [n.elts[1], n.elts[0]]), path)))
            if isinstance(node, ast.Return) and node.value is not None and not (isinstance(node.value, ast.Constant) and node.value.value is None):
                out.append(Site("retnone", ln, "return value replaced by None", (lambda n: setattr(n, "value", ast.Constant(value=None)), path)))
            if isinstance(node, ast.BinOp) and isinstance(node.op, (ast.Add, ast.Sub)):
                out.append(Site("arith", ln, "%s flipped" % type(node.op).__name__,
                                (lambda n: setattr(n, "op", ast.Sub() if isinstance(n.op, ast.Add) else ast.Add()), path)))
            if isinstance(node, ast.BinOp) and isinstance(node.op, (ast.BitAnd, ast.BitOr)):
                out.append(Site("bitbool", ln, "%s flipped" % type(node.op).__name__,
                                (lambda n: setattr(n, "op", ast.BitOr() if isinstance(n.op, ast.BitAnd) else ast.BitAnd()), path)))
            if isinstance(node, ast.BoolOp):
                out.append(Site("bool", ln, "%s flipped" % type(node.op).__name__,
                                (lambda n: setattr(n, "op", ast.Or() if isinstance(n.op, ast.And) else ast.And()), path)))
            if isinstance(node, ast.UnaryOp) and isinstance(node.op, (ast.Not, ast.Invert)):
                out.append(Site("unot", ln, "dropped %s" % type(node.op).__name__, ("REPLACE_WITH_OPERAND", path)))
            if isinstance(node, ast.Name) and node.id in SWAPNAMES and isinstance(node.ctx, ast.Load):
                out.append(Site("hw", ln, "%s -> %s" % (node.id, SWAPNAMES[node.id]),
                                (lambda n: setattr(n, "id", SWAPNAMES[n.id]), path)))
            if isinstance(node, ast.Attribute) and node.attr in SWAPNAMES and isinstance(node.ctx, ast.Load):
                out.append(Site("hw", ln, ".%s -> .%s" % (node.attr, SWAPNAMES[node.attr]),
                                (lambda n: setattr(n, "attr", SWAPNAMES[n.attr]), path)))
            if isinstance(node, ast.If):
                out.append(Site("ifneg", ln, "if condition negated",
                                (lambda n: setattr(n, "test", ast.UnaryOp(op=ast.Not(), operand=n.test)), path)))
            if isinstance(node, ast.Expr) and isinstance(node.value, ast.Call):
                f = node.value.func
                nm = f.attr if isinstance(f, ast.Attribute) else getattr(f, "id", "")
                if nm in ("ensure", "add_answer_key", "append", "add_edge", "add_constraint", "add_variable"):
                    out.append(Site("del", ln, "statement %s(...) deleted" % nm, ("REPLACE_WITH_PASS", path)))
            if isinstance(node, ast.Call) and len(node.args) >= 2 and all(isinstance(a, (ast.Name, ast.Constant)) for a in node.args[:2]):
                if ast.dump(node.args[0]) != ast.dump(node.args[1]):
                    out.append(Site("argswap", ln, "first two arguments swapped",
                                    (lambda n: n.args.__setitem__(slice(0, 2), [n.args[1], n.args[0]]), path)))
        for field, value in ast.iter_fields(node):
            if isinstance(value, list):
                for i, v in enumerate(value):
                    if isinstance(v, ast.AST):
                        visit(v, path + [(field, i)], stack)
            elif isinstance(value, ast.AST):
                visit(value, path + [(field, None)], stack)

    visit(tree, [], [])
    return out


def _get(tree, path):
    node = tree
    for field, i in path:
        node = getattr(node, field) if i is None else getattr(node, field)[i]
    return node


def _set(tree, path, new):
    parent = _get(tree, path[:-1])
    field, i = path[-1]
    if i is None:
        setattr(parent, field, new)
    else:
        getattr(parent, field)[i] = new


def mutate_source(src, site):
    tree = ast.parse(src)
    fn, path = site.apply
    if fn == "REPLACE_WITH_OPERAND":
        _set(tree, path, _get(tree, path).operand)
    elif fn == "REPLACE_WITH_PASS":
        _set(tree, path, ast.Pass())
    else:
        fn(_get(tree, path))
    ast.fix_missing_locations(tree)
    return ast.unparse(tree) + "\n"


def sh(cmd, cwd=None, env=None, timeout=900):
    e = dict(os.environ)
    if env:
        e.update(env)
    # own process group, killed as a whole on timeout (a mutant may make a check or a test hang)
    import signal
    pr = subprocess.Popen(cmd, shell=True, cwd=cwd, env=e, stdout=subprocess.PIPE, stderr=subprocess.STDOUT, text=True,
                          start_new_session=True)
    try:
        out, _ = pr.communicate(timeout=timeout)
        return pr.returncode, out
    except subprocess.TimeoutExpired:
        try:
            os.killpg(pr.pid, signal.SIGKILL)
        except ProcessLookupError:
            pass
        out, _ = pr.communicate()
        return 124, out or ""


class Worker:
    def __init__(self, k):
        self.dir = "/tmp/mut/%d/w%d" % (os.getpid(), k)
        shutil.rmtree(self.dir, ignore_errors=True)
        os.makedirs(self.dir)
        self.repo = os.path.join(self.dir, "repo")
        self.verif = os.path.join(self.dir, "verif")
        sh("git -C %s archive HEAD | tar -x -C %s" % (REPO, self._mk(self.repo)))
        sh("cp -a %s %s" % (VERIF, self.verif))
        shutil.rmtree(os.path.join(self.verif, "replays"), ignore_errors=True)

    @staticmethod
    def _mk(d):
        os.makedirs(d, exist_ok=True)
        return d

    def run(self, job):
        rel, props, site_desc, mutated, orig = job["file"], job["props"], job["desc"], job["mutated"], job["orig"]
        path = os.path.join(self.repo, rel)
        res = {"file": rel, "line": job["line"], "kind": job["kind"], "desc": site_desc, "checks": {}}
        try:
            open(path, "w").write(mutated)
            env = {"PYTHONPATH": self.repo}
            rc, out = sh("%s -m pytest -q -p no:cacheprovider --timeout=60 -x -q 2>&1 | tail -1" % PY, cwd=self.repo, env=env, timeout=600)
            res["pytest"] = out.strip()[-80:]
            if "558 passed" not in out or "68 failed" not in out:
                # -x stops at the first failure: the always-failing 68 come first in some files, so run fully when unsure
                rc, out = sh("%s -m pytest -q -p no:cacheprovider --timeout=60 2>&1 | tail -1" % PY, cwd=self.repo, env=env, timeout=900)
                res["pytest"] = out.strip()[-80:]
            if "558 passed" not in res["pytest"] or "68 failed" not in res["pytest"]:
                res["verdict"] = "killed-by-tests"
                return res
            detected = False
            for p in props:
                t = time.time()
                extra = {"CSPUZ_REPO": self.repo, "VERIF_SEED": str(job.get("seed", 0))}
                if job.get("only"):
                    extra["C11_ONLY"] = job["only"]
                rc, out = sh("./check %s" % p, cwd=self.verif, env=extra, timeout=1500)
                viol = [l for l in out.split("\n") if l.startswith("VIOLATION")]
                why = [l for l in out.split("\n") if l.startswith("# ")]
                res["checks"][p] = {"rc": rc, "concrete": bool(viol) and not all("no-failing-input-found" in v for v in viol),
                                    "why": (why[0][:300] if why else ""), "secs": round(time.time() - t, 1)}
                if rc == 1 and viol:
                    detected = True
                    break   # one detecting check is enough
                if rc not in (0, 1):
                    res["checks"][p]["tail"] = out[-400:]
            res["verdict"] = "detected" if detected else "SURVIVED"
            return res
        finally:
            open(path, "w").write(orig)


def plan_jobs(plan, per_file, seed):
    rng = random.Random("mut-%s-%d" % (plan, seed))
    jobs = []
    for rel, props, only in PLANS[plan]:
        src = open(os.path.join(REPO, rel)).read()
        tree = ast.parse(src)
        ss = sites(tree, only)
        rng.shuffle(ss)
        seen = set()
        n = 0
        for s in ss:
            if n >= per_file:
                break
            try:
                m = mutate_source(src, s)
                compile(m, rel, "exec")
            except Exception:
                continue
            if m in seen or m == ast.unparse(ast.parse(src)) + "\n":
                continue
            seen.add(m)
            n += 1
            job = {"file": rel, "props": props, "desc": "%s:%d %s (%s)" % (rel, s.lineno, s.desc, s.kind), "line": s.lineno,
                   "kind": s.kind, "mutated": m, "orig": src, "seed": seed}
            if plan == "puzzles":
                job["only"] = os.path.basename(rel)[:-3]
            jobs.append(job)
    return jobs


def run(plan, workers, per_file, seed, out):
    jobs = plan_jobs(plan, per_file, seed)
    print("plan %s: %d mutants" % (plan, len(jobs)), flush=True)
    ws = [Worker(k) for k in range(workers)]
    free = list(ws)
    import threading
    lock = threading.Lock()
    f = open(out, "a")

    def one(job):
        with lock:
            w = free.pop()
        try:
            r = w.run(job)
        except Exception as e:  # noqa
            r = {"file": job["file"], "desc": job["desc"], "verdict": "harness-error", "error": repr(e)}
        finally:
            with lock:
                free.append(w)
        with lock:
            f.write(json.dumps(r) + "\n")
            f.flush()
            print(r.get("verdict"), r.get("desc"), {k: (v["rc"], v["concrete"]) for k, v in r.get("checks", {}).items()}, flush=True)
        return r

    with ThreadPoolExecutor(max_workers=workers) as ex:
        list(ex.map(one, jobs))
    shutil.rmtree("/tmp/mut/%d" % os.getpid(), ignore_errors=True)


def report(path):
    rs = [json.loads(l) for l in open(path)]
    by = {}
    for r in rs:
        by.setdefault(r["verdict"], []).append(r)
    print({k: len(v) for k, v in by.items()})
    det = by.get("detected", [])
    print("detected with a concrete failing input:", sum(1 for r in det if any(c["concrete"] for c in r["checks"].values())), "of", len(det))
    for r in by.get("SURVIVED", []):
        print("SURVIVED", r["desc"])
    for r in by.get("harness-error", []):
        print("ERROR", r["desc"], r.get("error"))


if __name__ == "__main__":
    a = sys.argv[1:]
    if a[0] == "report":
        report(a[1])
    else:
        plan = a[1]
        def opt(name, default):
            return type(default)(a[a.index(name) + 1]) if name in a else default
        run(plan, opt("--workers", 4), opt("--per-file", 30), opt("--seed", 0), opt("--out", "/tmp/scratch/mutants_%s.jsonl" % plan))
