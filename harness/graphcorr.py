"""Program-equality correspondence for the generators of cspuz/graph.py: the real function is called on a real
Solver (no backend involved) and the emitted fragment is compared with the Lean model's program."""
from . import core, exprio, graphs
from .core import sx
from .exprio import pexpr


def _decl_callers(s, rng, nb, ni):
    bs = [s.bool_var() for _ in range(nb)]
    ins = [s.int_var(rng.randint(-1, 0), rng.randint(1, 3)) for _ in range(ni)]
    return bs, ins


def _prim(rng):
    return rng.random() < 0.4


def _set_config(gp, dp):
    from cspuz.configuration import config
    old = (config.use_graph_primitive, config.use_graph_division_primitive)
    config.use_graph_primitive, config.use_graph_division_primitive = gp, dp
    return old


def _prim_call(rng, prim, fn, st=None, division=False, unused=False):
    """The real call `fn(p)` (p = the value passed as `use_graph_primitive`) under a configuration that must not matter.
    Usually p = prim EXPLICITLY while `config.use_graph_primitive` / `config.use_graph_division_primitive` hold RANDOM values for the
    duration of the call (the explicit argument beats the configuration: True and False alike); in a fraction of the cases p = None
    and the flag the function reads (`division`: the division flag, else the general one) is set to `prim`, the other one random
    (None follows the configuration).  `unused`: the route never uses the primitive (acyclic connectivity), so with p = None both flags
    stay random.  The model side only ever sees `prim`.  Configuration restored afterwards, whatever happens."""
    gp, dp = rng.random() < 0.5, rng.random() < 0.5
    p = prim
    if rng.random() < 0.3:
        p = None
        if not unused:
            if division:
                dp = prim
            else:
                gp = prim
    if st is not None:
        st["cfg"] = {"use_graph_primitive_argument": p, "config.use_graph_primitive": gp, "config.use_graph_division_primitive": dp}

    def call():
        old = _set_config(gp, dp)
        try:
            return fn(p)
        finally:
            _set_config(*old)
    return call


def _big(big):
    """(n, edges, grid) of a deterministic medium / large instance: big = ('graph', n, edges) | ('grid', h, w)."""
    if big[0] == "grid":
        return big[1] * big[2], graphs.grid_edges(big[1], big[2]), (big[1], big[2])
    return big[1], [tuple(e) for e in big[2]], None


def case_avc(rng, big=None):
    from cspuz import graph as G
    from cspuz.array import BoolArray1D, BoolArray2D
    if big is not None:
        n, edges, grid = _big(big)
    elif rng.random() < 0.3:   # 2-D array form
        h, w = rng.randint(1, 4), rng.randint(1, 4)
        n, edges = h * w, graphs.grid_edges(h, w)
        grid = (h, w)
    else:
        n, edges = graphs.rand_graph(rng, 6, allow_loops=rng.random() < 0.2)
        grid = None
    acyclic = rng.random() < 0.5
    prim = _prim(rng)
    wronglen = rng.random() < 0.04 and grid is None and big is None
    st = {}

    def build(s):
        bs, ins = _decl_callers(s, rng, max(1, n), 2)
        ia = graphs.bool_forms(rng, s, n, 2, n + (rng.choice([-1, 1]) if wronglen else 0), plain=(grid is not None or big is not None))
        st["ia"] = ia
        if grid:
            arr = BoolArray2D(ia, grid)
            return _prim_call(rng, prim, lambda p: G.active_vertices_connected(s, arr, acyclic=acyclic, use_graph_primitive=p), st,
                              unused=acyclic)
        arg = BoolArray1D(ia) if (rng.random() < 0.5 and all(not isinstance(x, bool) for x in ia)) else ia
        return _prim_call(rng, prim, lambda p: G.active_vertices_connected(s, arg, mk, acyclic=acyclic, use_graph_primitive=p), st,
                          unused=acyclic)
    mk = graphs.mk_graph(n, edges)
    real = graphs.capture(build)
    base = len([v for v in real[3].variables]) if real[0] == "err" else None
    nb = max(1, n) + 2
    line = sx(["avc", n, edges, [pexpr(x) for x in st.get("ia", [])], nb, acyclic, prim])
    desc = {"fn": "active_vertices_connected", "n": n, "edges": edges, "acyclic": acyclic, "prim": prim,
            "grid": grid, "ia": [pexpr(x) for x in st.get("ia", [])], "cfg": st.get("cfg")}
    return real, line, desc


def case_acyclic(rng, big=None):
    from cspuz import graph as G
    n, edges = graphs.rand_graph(rng, 6) if big is None else _big(big)[:2]
    m = len(edges)
    st = {}

    def build(s):
        _decl_callers(s, rng, max(1, m), 2)
        ie = graphs.bool_forms(rng, s, max(1, m), 2, m, plain=big is not None)
        st["ie"] = ie
        from cspuz.array import BoolArray1D
        arg = BoolArray1D(ie) if (ie and all(not isinstance(x, bool) for x in ie) and rng.random() < 0.4) else ie
        return lambda: G.active_edges_acyclic(s, arg, mk)
    mk = graphs.mk_graph(n, edges)
    real = graphs.capture(build)
    line = sx(["acyclic", n, edges, [pexpr(x) for x in st.get("ie", [])], max(1, m) + 2])
    return real, line, {"fn": "active_edges_acyclic", "n": n, "edges": edges, "ie": [pexpr(x) for x in st.get("ie", [])]}


def case_nadj(rng, big=None):
    from cspuz import graph as G
    from cspuz.array import BoolArray2D
    st = {}
    if (rng.random() < 0.5) if big is None else (big[0] == "grid"):
        h, w = (rng.randint(1, 4), rng.randint(1, 4)) if big is None else (big[1], big[2])

        def build(s):
            _decl_callers(s, rng, h * w, 0)
            ia = graphs.bool_forms(rng, s, h * w, 0, h * w, allow_const=False)
            st["ia"] = ia
            arr = BoolArray2D(ia, (h, w))
            return lambda: G.active_vertices_not_adjacent(s, arr)
        real = graphs.capture(build)
        line = sx(["nadj_grid", h, w, [pexpr(x) for x in st.get("ia", [])]])
        return real, line, {"fn": "not_adjacent(grid)", "h": h, "w": w}
    n, edges = graphs.rand_graph(rng, 6) if big is None else _big(big)[:2]

    def build(s):
        _decl_callers(s, rng, n, 0)
        ia = graphs.bool_forms(rng, s, n, 0, n, allow_const=rng.random() < 0.3)
        st["ia"] = ia
        return lambda: G.active_vertices_not_adjacent(s, ia, mk)
    mk = graphs.mk_graph(n, edges)
    real = graphs.capture(build)
    line = sx(["nadj_graph", n, edges, [pexpr(x) for x in st.get("ia", [])]])
    return real, line, {"fn": "not_adjacent(graph)", "n": n, "edges": edges}


def case_nseg(rng, big=None):
    from cspuz import graph as G
    from cspuz.array import BoolArray1D, BoolArray2D
    st = {}
    if (rng.random() < 0.6) if big is None else (big[0] == "grid"):
        h, w = (rng.randint(1, 5), rng.randint(1, 5)) if big is None else (big[1], big[2])

        def build(s):
            _decl_callers(s, rng, h * w, 0)
            ia = graphs.bool_forms(rng, s, h * w, 0, h * w, allow_const=False)
            st["ia"] = ia
            arr = BoolArray2D(ia, (h, w))
            return lambda: G.active_vertices_not_adjacent_and_not_segmenting(s, arr)
        real = graphs.capture(build)
        line = sx(["nseg_grid", h, w, [pexpr(x) for x in st.get("ia", [])], h * w, False])
        return real, line, {"fn": "not_segmenting(grid)", "h": h, "w": w}
    n, edges = graphs.rand_graph(rng, 6) if big is None else _big(big)[:2]

    def build(s):
        _decl_callers(s, rng, n, 0)
        ia = graphs.bool_forms(rng, s, n, 0, n, allow_const=False)
        st["ia"] = ia
        return lambda: G.active_vertices_not_adjacent_and_not_segmenting(s, BoolArray1D(ia), mk)
    mk = graphs.mk_graph(n, edges)
    real = graphs.capture(build)
    line = sx(["nseg_graph", n, edges, [pexpr(x) for x in st.get("ia", [])], n, False])
    return real, line, {"fn": "not_segmenting(graph)", "n": n, "edges": edges}


def _int_forms(rng, s, n, k):
    from cspuz.expr import IntVar
    ins = [v for v in s.variables if isinstance(v, IntVar)]
    out = []
    for i in range(n):
        r = rng.random()
        if r < 0.85:
            out.append(ins[i])
        elif r < 0.93:
            out.append(rng.randint(0, max(0, k - 1)))
        else:
            out.append(ins[i] + 0)
    return out


def _big_roots(rng, n, k):
    """roots for a large instance: vertex ids from the top of the index range (>= 257 when there are that many), with a None hole."""
    roots = [rng.choice([n - 1, n - 2, max(0, n - 1 - rng.randint(0, min(n - 1, 40)))]) for _ in range(k)]
    roots[rng.randrange(k)] = None
    if k >= 2 and all(r is None for r in roots):
        roots[0] = n - 1
    return roots


def case_divconn(rng, big=None):
    from cspuz import graph as G
    from cspuz.array import IntArray1D, IntArray2D
    grid = None
    if big is not None:
        n, edges, grid = _big(big)
    elif rng.random() < 0.3:
        h, w = rng.randint(1, 3), rng.randint(1, 4)
        n, edges = h * w, graphs.grid_edges(h, w)
        grid = (h, w)
    else:
        n, edges = graphs.rand_graph(rng, 6)
    k = rng.randint(1, 4)
    allow_empty = rng.random() < 0.5
    roots = None
    if big is not None:
        k = rng.randint(2, 4)
        roots = _big_roots(rng, n, k)
    elif rng.random() < 0.6:
        roots = [rng.choice([None, rng.randrange(n)]) for _ in range(rng.randint(0, k))]
    st = {}
    # the public wrapper has no `use_graph_primitive` argument: it follows `config.use_graph_primitive` (set for the duration of the
    # call; the division flag, which it must not read, is random)
    cfgprim = rng.random() < 0.3
    cfgdiv = rng.random() < 0.5

    def under_config(fn):
        def call():
            old = _set_config(cfgprim, cfgdiv)
            try:
                return fn()
            finally:
                _set_config(*old)
        return call

    def build(s):
        for _ in range(n):
            s.int_var(0, k - 1)
        dv = _int_forms(rng, s, n, k) if grid is None else [v for v in s.variables]
        st["dv"] = dv
        if grid:
            arr = IntArray2D(dv, grid)
            r2 = None if roots is None else [None if r is None else (r // grid[1], r % grid[1]) for r in roots]
            return under_config(lambda: G.division_connected(s, arr, k, roots=r2, allow_empty_group=allow_empty))
        arg = IntArray1D(dv) if all(not isinstance(x, int) for x in dv) and rng.random() < 0.7 else dv
        st["islist"] = not isinstance(arg, IntArray1D)
        return under_config(lambda: G.division_connected(s, arg, k, mk, roots=roots, allow_empty_group=allow_empty))
    mk = graphs.mk_graph(n, edges)
    real = graphs.capture(build)
    line = sx(["divconn", n, edges, [pexpr(x) for x in st.get("dv", [])], k,
               "N" if roots is None else ["N" if r is None else r for r in roots], allow_empty, cfgprim, n])
    return real, line, {"fn": "division_connected", "n": n, "edges": edges, "k": k, "roots": roots,
                        "allow_empty": allow_empty, "grid": grid, "config.use_graph_primitive": cfgprim,
                        "config.use_graph_division_primitive": cfgdiv}


def case_divconn_prim(rng, big=None):
    """private entry with use_graph_primitive=True (the public wrapper has no such argument; it follows config)."""
    from cspuz import graph as G
    from cspuz.array import IntArray1D
    n, edges = graphs.rand_graph(rng, 5) if big is None else _big(big)[:2]
    k = rng.randint(1, 3)
    allow_empty = rng.random() < 0.5
    roots = None
    if big is not None:
        k = rng.randint(2, 3)
        roots = _big_roots(rng, n, k)
    elif rng.random() < 0.5:
        roots = [rng.choice([None, rng.randrange(n)]) for _ in range(rng.randint(0, k))]
    st = {}

    def build(s):
        for _ in range(n):
            s.int_var(0, k - 1)
        dv = [v for v in s.variables]
        st["dv"] = dv
        arg = IntArray1D(dv) if rng.random() < 0.5 else list(dv)
        return _prim_call(rng, True, lambda p: G._division_connected(s, arg, k, mk, roots=roots, allow_empty_group=allow_empty,
                                                                     use_graph_primitive=p), st)
    mk = graphs.mk_graph(n, edges)
    real = graphs.capture(build)
    line = sx(["divconn", n, edges, [pexpr(x) for x in st.get("dv", [])], k,
               "N" if roots is None else ["N" if r is None else r for r in roots], allow_empty, True, n])
    return real, line, {"fn": "_division_connected(prim)", "n": n, "edges": edges, "k": k, "roots": roots, "cfg": st.get("cfg")}


def _size_vars(rng, s, count, n):
    """`count` IntVars meant as group sizes.  Half of the time all declared 1..n (as the puzzle programs do); otherwise every variable
    gets its own NARROW declared domain (singletons k..k, a..a+1, a..a+2): neighbouring vertices then have size variables whose
    declared domains share no value, exactly one value, or several -- whatever the encoder derives from `lo` / `hi` shows up."""
    n = max(1, n)
    if rng.random() < 0.5:
        return [s.int_var(1, n) for _ in range(count)]
    out = []
    for _ in range(count):
        lo = rng.randint(1, min(n, 6))
        out.append(s.int_var(lo, lo + rng.choice([0, 0, 1, 1, 2])))
    return out


def _gs(rng, s, n, ints, big=False):
    r = rng.random()
    if big:
        r = 0.5 + r / 2
    if r < 0.25:
        return None, "none"
    if r < 0.4:
        v = rng.randint(1, n)
        return v, ["scalar", v]
    if r < 0.5:
        return ints[0], ["scalar", pexpr(ints[0])]
    if r < 0.7 and len(ints) >= n:      # every vertex its own size variable
        l = list(ints[:n])
        return l, ["per"] + [pexpr(x) for x in l]
    l = []
    for i in range(n):
        q = rng.random()
        l.append(None if q < 0.4 else (rng.randint(1, n) if q < 0.8 else ints[i % len(ints)]))
    return l, ["per"] + [pexpr(x) for x in l]


def case_vgroups(rng, big=None):
    from cspuz import graph as G
    grid = None
    if big is not None:
        n, edges, grid = _big(big)
    elif rng.random() < 0.3:
        h, w = rng.randint(1, 3), rng.randint(1, 3)
        n, edges = h * w, graphs.grid_edges(h, w)
        grid = (h, w)
    else:
        n, edges = graphs.rand_graph(rng, 5)
    st = {}

    def build(s):
        ints = _size_vars(rng, s, max(1, n), n)
        gs, desc = _gs(rng, s, n, ints, big is not None)
        st["gs"] = desc
        if grid:
            if isinstance(gs, list):
                gs2 = [gs[y * grid[1]:(y + 1) * grid[1]] for y in range(grid[0])]
            else:
                gs2 = gs
            def call():
                r = G.division_connected_variable_groups(s, shape=grid, group_size=gs2)
                return [pexpr(x) for x in r.data]
            return call

        def call():
            r = G.division_connected_variable_groups(s, graph=mk, group_size=gs)
            return [pexpr(x) for x in r.data]
        return call
    mk = graphs.mk_graph(n, edges)
    real = graphs.capture(build)
    line = sx(["vgroups", n, edges, st.get("gs", "none"), max(1, n)])
    return real, line, {"fn": "division_connected_variable_groups", "n": n, "edges": edges, "gs": st.get("gs"), "grid": grid}


def case_vgborders(rng, big=None):
    from cspuz import graph as G
    n, edges = graphs.rand_graph(rng, 5) if big is None else _big(big)[:2]
    m = len(edges)
    prim = _prim(rng)
    st = {}

    def build(s):
        ints = _size_vars(rng, s, max(1, n), n)
        bs = [s.bool_var() for _ in range(max(1, m))]
        gs, desc = _gs(rng, s, n, ints, big is not None)
        real_gs = gs
        if not isinstance(gs, list):
            # `group_size=None` goes to the real wrapper as None (it must mean "no size anywhere"); a scalar is spread here
            real_gs = None if gs is None else [gs] * n
            gs = [gs] * n if gs is not None else [None] * n
        st["gs"] = [pexpr(x) for x in gs]
        bd = graphs.bool_forms(rng, type("S", (), {"variables": bs})(), max(1, m), 0, m, allow_const=rng.random() < 0.2,
                               plain=big is not None)
        st["bd"] = [pexpr(x) for x in bd]
        return _prim_call(rng, prim, lambda p: G.division_connected_variable_groups_with_borders(
            s, group_size=real_gs, is_border=bd, graph=mk, use_graph_primitive=p), st, division=True)
    mk = graphs.mk_graph(n, edges)
    real = graphs.capture(build)
    line = sx(["vgborders", n, edges, st.get("gs", []), st.get("bd", []), prim, max(1, n) + max(1, m)])
    return real, line, {"fn": "division_connected_variable_groups_with_borders", "n": n, "edges": edges, "prim": prim,
                        "cfg": st.get("cfg")}


def case_cycle(rng, path=False, big=None):
    """big instances: the model's line graph is cubic in the number of edges, so the primitive route (and the path, which has no other
    route) only gets the few-edge large graphs."""
    from cspuz import graph as G
    n, edges = graphs.rand_graph(rng, 6, allow_loops=False) if big is None else _big(big)[:2]
    m = len(edges)
    prim = True if path else _prim(rng)
    if big is not None and not path:
        prim = prim and m <= 50
    st = {}

    def build(s):
        bs = [s.bool_var() for _ in range(max(1, m))]
        ie = graphs.bool_forms(rng, s, max(1, m), 0, m, allow_const=rng.random() < 0.3, plain=big is not None)
        st["ie"] = [pexpr(x) for x in ie]

        def call(p):
            from cspuz.array import BoolArray1D
            f = G.active_edges_single_path if path else G.active_edges_single_cycle
            arg = BoolArray1D(ie) if (ie and all(not isinstance(x, bool) for x in ie) and rng.random() < 0.4) else ie
            r = f(s, arg, mk, use_graph_primitive=p)
            return [pexpr(x) for x in r.data]
        return _prim_call(rng, prim, call, st)
    mk = graphs.mk_graph(n, edges)
    real = graphs.capture(build)
    line = sx(["path" if path else "cycle", n, edges, st.get("ie", []), prim, max(1, m)])
    return real, line, {"fn": "single_path" if path else "single_cycle", "n": n, "edges": edges, "prim": prim, "cfg": st.get("cfg")}


def _canon_linegraph(text):
    """The Python line graph is built from a set: canonicalise the edge order inside a native operator whose
    graph is a line graph is not possible in general, so compare as produced; see compare()."""
    return text


def norm_native_edges(t):
    """Sort the edge pairs inside graph_active_vertices_connected nodes (set iteration order in line_graph)."""
    if isinstance(t, list):
        if t and t[0] == "graph_active_vertices_connected":
            n, m = int(t[1]), int(t[2])
            act = t[3:3 + n]
            es = t[3 + n:]
            pairs = sorted((min(int(es[2 * i]), int(es[2 * i + 1])), max(int(es[2 * i]), int(es[2 * i + 1]))) for i in range(m))
            flat = []
            for a, b in pairs:
                flat += [str(a), str(b)]
            return [t[0], t[1], t[2]] + [norm_native_edges(x) for x in act] + flat
        return [norm_native_edges(x) for x in t]
    return t


ALPHA_MATCHES = [0]


def compare(real, out, with_ids=False, native_sets=False):
    """Returns None if equal, else (real_text, model_text)."""
    d = _compare_exact(real, out, with_ids, native_sets)
    if d is None or real[0] != "ok":
        return d
    # not textually equal: accept a program that differs only by a domain-preserving renaming of its hidden variables
    try:
        m = core.parse_sx(out)
        s = real[3]
        rt = core.parse_sx(real[1])
        mt = m[1] if with_ids else m
        if not (isinstance(mt, list) and mt and mt[0] == "prog"):
            return d
        if native_sets:
            rt, mt = norm_native_edges(rt), norm_native_edges(mt)
        base = len(s.variables) - len(rt[1])
        rids = [str(x) for x in real[2]] if with_ids else None
        mids = m[2] if with_ids else None
        if exprio.alpha_canon(rt, base, rids) == exprio.alpha_canon(mt, base, mids):
            ALPHA_MATCHES[0] += 1
            return None
    except Exception:
        pass
    return d


def _compare_exact(real, out, with_ids=False, native_sets=False):
    m = core.parse_sx(out)
    if real[0] == "err":
        r = ["err", real[1]]
        return None if m == r else (sx(r), out)
    rp = core.parse_sx(exprio.canon_prog(real[1]))
    if with_ids:
        if not (isinstance(m, list) and m and m[0] == "res"):
            return (real[1], out)
        mp = core.parse_sx(exprio.canon_prog(sx(m[1])))
        if native_sets:
            rp, mp = norm_native_edges(rp), norm_native_edges(mp)
            rp = core.parse_sx(exprio.canon_prog(sx(rp)))
            mp = core.parse_sx(exprio.canon_prog(sx(mp)))
        if rp != mp or [str(x) for x in real[2]] != m[2]:
            return (sx(["res", rp, real[2]]), sx(["res", mp, m[2]]))
        return None
    if not (isinstance(m, list) and m and m[0] == "prog"):
        return (sx(rp), out)
    mp = core.parse_sx(exprio.canon_prog(out))
    if native_sets:
        rp, mp = norm_native_edges(rp), norm_native_edges(mp)
    return None if rp == mp else (sx(rp), sx(mp))


def graph_bigs(kind="all"):
    return [("graph", n, es) for n, es in graphs.big_graphs(kind)]


def medium_bigs(stars="all"):
    """every n of graphs.MEDIUM_RANGE (see graphs.medium_graphs)"""
    return [("graph", n, es) for n, es in graphs.medium_graphs(stars)]


def medium_grid_bigs():
    return [("grid", h, w) for h, w in graphs.medium_grids()]


def grid_bigs():
    return [("grid", h, w) for h, w in graphs.BIG_GRIDS]


def frame_bigs():
    return [("frame", h, w) for h, w in graphs.BIG_FRAMES]


def run_cases(ctx, casefn, count, label, with_ids=False, native_sets=False, bigs=()):
    """`count` random cases, then one case per entry of `bigs` (deterministic medium / LARGE instances, see graphs.big_graphs: a
    handful per run; what depends on the size of an instance -- vertex ids >= 257, index blocks, rank ranges -- only shows there)."""
    drv = core.Driver()
    cases, states, bigof = [], [], []
    for k in range(count + len(bigs)):
        states.append(ctx.rng.getstate())
        big = bigs[k - count] if k >= count else None
        bigof.append(big)
        cases.append(casefn(ctx.rng) if big is None else casefn(ctx.rng, big=big))
    outs = drv.run([c[1] for c in cases])
    for (real, line, desc), out, st, big in zip(cases, outs, states, bigof):
        if big is not None:
            ctx.count(label + ":big-instance")
            desc = dict(desc)
            for key in ("edges", "ia", "ie"):
                if key in desc and len(desc[key]) > 24:
                    desc[key] = "%s ... (%d items)" % (str(desc[key][:8])[:-1], len(desc[key]))
            if big[0] == "graph":
                desc["instance"] = graphs.instance_name(big[1], big[2])
            else:
                desc["instance"] = list(big)
        ctx.count(label + (":err:" + real[1] if real[0] == "err" else ":ok"))
        d = compare(real, out, with_ids, native_sets)
        if real[0] == "err" and (out.startswith("(prog") or out.startswith("(res")):
            # the real call raises on a call for which the model (whose totality is a theorem) returns a program: that call IS a
            # concrete failing input of the real code, whatever the search finds later
            if not hasattr(ctx, "concrete"):
                ctx.concrete = []
            ctx.concrete.append(core.Finding(
                "raises:%s:%s" % (label, real[1]),
                "%s raises %s; the documented behaviour (model + totality theorem) is to post the constraints" % (desc, real[1]),
                {"kind": "graphcorr", "casefn": casefn.__name__, "rng_state": [st[0], list(st[1]), st[2]], "call": desc,
                 "big": None if big is None else [big[0], big[1], [list(e) for e in big[2]] if big[0] == "graph" else big[2]]}))
        nontriv = real[0] == "ok" and len(real[1]) > 40
        ctx.case({"call": desc, "program": (real[1][:300] if real[0] == "ok" else real[1])}, line if nontriv else None)
        if d is not None:
            ctx.disagree("program:" + label, call=desc, real=d[0][:3000], model=d[1][:3000], line=line[:2000])
    if ALPHA_MATCHES[0]:
        ctx.extra["programs_equal_only_up_to_renaming_of_auxiliary_variables"] = ALPHA_MATCHES[0]


def case_path(rng, big=None):
    return case_cycle(rng, True, big=big)


def case_frame_cycle(rng, big=None):
    from cspuz import graph as G
    from cspuz.grid_frame import BoolGridFrame
    H, W = (rng.randint(0, 3), rng.randint(0, 3)) if big is None else (big[1], big[2])
    prim = _prim(rng)
    path = rng.random() < 0.3
    if path:
        prim = True
    if big is not None:      # (line graph of the model: see case_cycle)
        prim = path = False

    st = {}

    def build(s):
        fr = BoolGridFrame(s, H, W)

        def call(p):
            from cspuz.configuration import config
            f = G.active_edges_single_path if path else G.active_edges_single_cycle
            if not path and prim == bool(config.use_graph_primitive) and rng.random() < 0.4:
                r = fr.single_loop()        # the frame's own convenience method: same constraint, configured encoding
            else:
                r = f(s, fr, use_graph_primitive=p)
            assert r.shape == (H + 1, W + 1), r.shape
            return [pexpr(x) for x in r.data]
        return _prim_call(rng, prim, call, st)
    real = graphs.capture(build)
    line = sx(["cycle_frame", H, W, prim, path])
    return real, line, {"fn": "single_cycle/path(frame)", "H": H, "W": W, "prim": prim, "path": path, "cfg": st.get("cfg")}


def case_crossable(rng, big=None):
    from cspuz import graph as G
    from cspuz.grid_frame import BoolGridFrame
    H, W = (rng.randint(0, 3), rng.randint(0, 3)) if big is None else (big[1], big[2])
    prim = _prim(rng)
    sc = rng.random() < 0.5

    b0, extra, neg = (0, 0, False) if rng.random() < 0.4 else (rng.randint(0, 3), rng.randint(0, 2), rng.random() < 0.4)

    def build(s):
        for _ in range(b0):
            s.bool_var()
        if neg:
            # same variables in the same allocation order, every entry negated (frames of expressions)
            hz = s.bool_array((H + 1, W))
            vt = s.bool_array((H, W + 1))
            fr = BoolGridFrame(s, H, W, horizontal=~hz, vertical=~vt)
        else:
            fr = BoolGridFrame(s, H, W)
        for _ in range(extra):
            s.bool_var()

        def call(up):
            if sc and rng.random() < 0.5:
                p, c = G.active_edges_single_cycle_crossable(s, fr, use_graph_primitive=up)
            else:
                p, c = G.active_edges_connected_crossable(s, fr, single_cycle=sc, use_graph_primitive=up)
            assert p.shape == (H + 1, W + 1) and c.shape == (H + 1, W + 1)
            return [pexpr(x) for x in p.data] + [pexpr(x) for x in c.data]
        return _prim_call(rng, prim, call, st)
    st = {}
    real = graphs.capture(build)
    line = sx(["crossable", H, W, sc, prim]) if (b0, extra, neg) == (0, 0, False) else sx(["crossable2", H, W, sc, prim, b0, extra, neg])
    return real, line, {"fn": "connected_crossable", "H": H, "W": W, "single_cycle": sc, "prim": prim,
                        "frame_offset": b0, "later_vars": extra, "negated_entries": neg, "cfg": st.get("cfg")}


def case_vgborders_frame(rng, big=None):
    """with_borders through the BoolInnerGridFrame / IntArray2D entry (inner frame dualised to the cell graph)."""
    from cspuz import graph as G
    from cspuz.array import IntArray2D
    from cspuz.grid_frame import BoolInnerGridFrame
    H, W = (rng.randint(1, 3), rng.randint(1, 4)) if big is None else (big[1], big[2])
    prim = _prim(rng)
    st = {}

    def build(s):
        gs = IntArray2D(_size_vars(rng, s, H * W, H * W), (H, W))
        st["gs"] = [pexpr(x) for x in gs.data]
        fr = BoolInnerGridFrame(s, H, W)
        return _prim_call(rng, prim, lambda p: G.division_connected_variable_groups_with_borders(
            s, group_size=gs, is_border=fr, use_graph_primitive=p), st, division=True)
    real = graphs.capture(build)
    line = sx(["vgborders_frame", H, W, st.get("gs", []), prim])
    return real, line, {"fn": "with_borders(frame)", "H": H, "W": W, "prim": prim, "cfg": st.get("cfg")}


def case_vgroups_shape(rng, big=None):
    """variable groups with the grid inferred from a 2-D group_size (IntArray2D or list of lists), shape omitted."""
    from cspuz import graph as G
    from cspuz.array import IntArray2D
    H, W = (rng.randint(1, 3), rng.randint(1, 3)) if big is None else (big[1], big[2])
    n = H * W
    st = {}

    def build(s):
        ints = _size_vars(rng, s, n, n)
        kind = rng.random()
        if kind < 0.5:
            gs = IntArray2D(ints, (H, W))
            st["gs"] = ["per"] + [pexpr(x) for x in ints]
        else:
            flat = [rng.choice([None, rng.randint(1, n), ints[i]]) for i in range(n)]
            gs = [flat[y * W:(y + 1) * W] for y in range(H)]
            st["gs"] = ["per"] + [pexpr(x) for x in flat]

        def call():
            r = G.division_connected_variable_groups(s, group_size=gs)
            assert r.shape == (H, W)
            return [pexpr(x) for x in r.data]
        return call
    real = graphs.capture(build)
    line = sx(["vgroups", n, graphs.grid_edges(H, W), st.get("gs", "none"), n])
    return real, line, {"fn": "variable_groups(shape inferred)", "H": H, "W": W}


def replay_case(data):
    """Re-generate a stored correspondence case from the PRNG state it was drawn with and run the real call again."""
    import random
    rng = random.Random()
    st = data["rng_state"]
    rng.setstate((st[0], tuple(st[1]), st[2]))
    fn = globals()[data["casefn"]]
    big = data.get("big")
    real, line, desc = fn(rng) if big is None else fn(rng, big=tuple(big))
    if real[0] == "err":
        return core.Finding("raises:replay", "%s still raises %s" % (desc, real[1]), data)
    return None
