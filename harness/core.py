"""Shared machinery of the /verif checks (runs under /venv/bin/python; cspuz is imported from /repo).

A check for property Cxx is a module harness/cxx.py exposing

    THEOREMS   : list of Lean theorem names (in Cspuz.* namespaces) that make up the proof obligations
    def gen(ctx)            -> None   (optional) regenerate lean/CspuzModel/Gen/*.lean from the live /repo
    def correspond(ctx)     -> None   model-vs-code runs; calls ctx.disagree(...) for every difference
    def search(ctx, why)    -> list[Finding]   bounded search for a concrete failing input on the REAL code
    def replay(ctx, data)   -> Finding | None   re-run one stored failing input

and run_check() below drives: gen -> lake build -> audit -> correspond -> (search) -> evidence.
"""
from __future__ import annotations

import fcntl
import hashlib
import json
import os
import random
import re
import subprocess
import sys
import time
import traceback

VERIF = os.path.dirname(os.path.dirname(os.path.abspath(__file__)))
LEAN = os.path.join(VERIF, "lean")
REPO = os.environ.get("CSPUZ_REPO", "/repo")
DRIVER = os.path.join(LEAN, ".lake", "build", "bin", "cspuzdriver")
ALLOWED_AXIOMS = {"propext", "Classical.choice", "Quot.sound"}
FORBIDDEN = re.compile(
    r"\bsorry\b|\badmit\b|^\s*axiom\s|\bnative_decide\b|\bbv_decide\b|implemented_by|\bunsafe\s|maxHeartbeats\s+0\b"
)

TRUSTED_BASE = [
    "Lean 4.33 kernel; axioms limited to propext, Classical.choice, Quot.sound (audited by #print axioms each run)",
    "Mathlib v4.33 definitions used in Spec/ (SimpleGraph, Reachable, IsAcyclic, List.Nodup, ...)",
    "hand-written Lean model of the anchored Python code (lean/CspuzModel/Model), tied to /repo by the correspondence run and the regenerated Gen/ tables",
    "harness/*.py: extraction by introspection of live /repo modules, input generators, output canonicalisation",
    "CPython, z3py/z3 and the external CSP solvers are modelled, not verified",
]


class Finding:
    """A concrete failing input on the real code (or a broken obligation when `input` is None)."""

    def __init__(self, signature, what, data=None, no_input=False):
        self.signature = signature  # stable id used to match known findings
        self.what = what
        self.data = data or {}
        self.no_input = no_input


class Ctx:
    def __init__(self, prop, tier, seed):
        self.prop = prop
        self.tier = tier
        self.seed = seed
        self.rng = random.Random((hash(prop) & 0xFFFF) * 1000003 + seed) if False else random.Random(f"{prop}-{seed}")
        self.t0 = time.time()
        self.evaluations = 0
        self.nontrivial = set()
        self.samples = []
        self.dist = {}
        self.disagreements = []  # (kind, detail dict)
        self.broken = []  # names of theorems / build steps that no longer check
        self.notes = []
        self.obligations = 0
        self.discharged = 0
        self.extra = {}

    # ---- bookkeeping -------------------------------------------------
    def count(self, key, n=1):
        self.dist[key] = self.dist.get(key, 0) + n

    def case(self, sample, nontrivial_key=None):
        self.evaluations += 1
        if nontrivial_key is not None:
            self.nontrivial.add(nontrivial_key if isinstance(nontrivial_key, (str, int, tuple)) else repr(nontrivial_key))
        if len(self.samples) < 6 and (self.evaluations in (1, 7, 50, 333, 1500, 7000)):
            self.samples.append(sample)

    def disagree(self, kind, **detail):
        self.disagreements.append((kind, detail))

    def quick(self):
        return self.tier == "quick"

    def n(self, quick, thorough):
        return quick if self.tier == "quick" else thorough


# ---------------------------------------------------------------------
# Lean side


def _lock():
    os.makedirs(os.path.join(LEAN, ".lake"), exist_ok=True)
    f = open(os.path.join(LEAN, ".lake", "verif.lock"), "w")
    fcntl.flock(f, fcntl.LOCK_EX)
    return f


def lake_build(targets, timeout=3000):
    """Returns (ok, log). Serialised across concurrent checks by a file lock."""
    lk = _lock()
    try:
        p = subprocess.run(
            ["lake", "build"] + list(targets), cwd=LEAN, stdout=subprocess.PIPE, stderr=subprocess.STDOUT,
            text=True, timeout=timeout,
        )
        return p.returncode == 0, p.stdout
    finally:
        lk.close()


def strip_comments(src):
    # remove /- ... -/ (nested) and -- line comments
    out = []
    depth = 0
    i = 0
    while i < len(src):
        if src.startswith("/-", i):
            depth += 1
            i += 2
        elif depth and src.startswith("-/", i):
            depth -= 1
            i += 2
        elif depth:
            i += 1
        elif src.startswith("--", i):
            j = src.find("\n", i)
            i = len(src) if j < 0 else j
        else:
            out.append(src[i])
            i += 1
    return "".join(out)


def import_closure(target):
    """Files of this project transitively imported by the module `target` (e.g. CspuzModel.Properties.C04)."""
    seen, todo, files = set(), [target], []
    while todo:
        m = todo.pop()
        if m in seen:
            continue
        seen.add(m)
        path = os.path.join(LEAN, *m.split(".")) + ".lean"
        if not os.path.exists(path):
            continue
        files.append(path)
        for line in open(path):
            mm = re.match(r"\s*import\s+((?:CspuzModel|Driver)\.[A-Za-z0-9_.]+)", line)
            if mm:
                todo.append(mm.group(1))
    return files


def forbidden_tokens(target=None):
    """Forbidden tokens (outside comments) in the import closure of `target` (whole library if None)."""
    hits = []
    if target:
        paths = import_closure(target)
    else:
        paths = []
        for root, _, files in os.walk(os.path.join(LEAN, "CspuzModel")):
            paths += [os.path.join(root, fn) for fn in files if fn.endswith(".lean")]
    for path in paths:
        body = strip_comments(open(path).read())
        for ln, line in enumerate(body.split("\n"), 1):
            if FORBIDDEN.search(line):
                hits.append(f"{os.path.relpath(path, LEAN)}:{ln}: {line.strip()[:120]}")
    return hits


def audit(prop, theorems, target=None):
    """#print axioms for each theorem.  Returns (ok_names, bad) where bad maps name -> reason."""
    src = [f"import {target or ('CspuzModel.Properties.' + prop)}"]
    for t in theorems:
        src.append(f"#print axioms {t}")
    path = os.path.join(LEAN, "CspuzModel", "Audit", f"{prop}.lean")
    new = "\n".join(src) + "\n"
    if not os.path.exists(path) or open(path).read() != new:
        with open(path, "w") as f:
            f.write(new)
    p = subprocess.run(["lake", "env", "lean", path], cwd=LEAN, stdout=subprocess.PIPE, stderr=subprocess.STDOUT,
                       text=True, timeout=1800)
    out = p.stdout
    ok, bad = [], {}
    text = re.sub(r"\s+", " ", out)
    for t in theorems:
        m = re.search(r"'" + re.escape(t) + r"' (does not depend on any axioms|depends on axioms: \[([^\]]*)\])", text)
        if not m:
            bad[t] = "no #print axioms output (theorem missing or file failed): " + out[-400:]
            continue
        axs = set()
        if m.group(2):
            axs = {a.strip() for a in m.group(2).split(",") if a.strip()}
        extra = axs - ALLOWED_AXIOMS
        if extra:
            bad[t] = "non-standard axioms: " + ", ".join(sorted(extra))
        else:
            ok.append(t)
    return ok, bad


class Driver:
    """Line protocol to the compiled Lean model."""

    def run(self, lines):
        if not lines:
            return []
        data = "\n".join(lines) + "\n"
        p = subprocess.run([DRIVER], input=data, stdout=subprocess.PIPE, stderr=subprocess.PIPE, text=True,
                           timeout=3000)
        if p.returncode != 0:
            raise RuntimeError("driver failed: " + p.stderr[-2000:])
        out = p.stdout.split("\n")
        if out and out[-1] == "":
            out.pop()
        if len(out) != len(lines):
            raise RuntimeError(f"driver returned {len(out)} lines for {len(lines)} ops")
        return out


# ---------------------------------------------------------------------
# s-expression helpers (Python side)


def sx(x):
    if isinstance(x, (list, tuple)):
        return "(" + " ".join(sx(e) for e in x) + ")"
    if x is True:
        return "T"
    if x is False:
        return "F"
    if x is None:
        return "N"
    return str(x)


def parse_sx(s):
    toks = s.replace("(", " ( ").replace(")", " ) ").split()
    stack = [[]]
    for t in toks:
        if t == "(":
            stack.append([])
        elif t == ")":
            x = stack.pop()
            stack[-1].append(x)
        else:
            stack[-1].append(t)
    return stack[0][0] if stack[0] else None


def err_name(e):
    n = type(e).__name__
    return n


# ---------------------------------------------------------------------
# evidence / findings


def load_known():
    path = os.path.join(VERIF, "known_findings.json")
    if not os.path.exists(path):
        return []
    return json.load(open(path)).get("findings", [])


def write_replay(prop, finding):
    os.makedirs(os.path.join(VERIF, "replays"), exist_ok=True)
    body = {"property": prop, "signature": finding.signature, "what": finding.what,
            "no_failing_input_found": finding.no_input, "data": finding.data}
    h = hashlib.sha1(json.dumps(body, sort_keys=True, default=str).encode()).hexdigest()[:10]
    path = os.path.join("replays", f"{prop}-{h}.json")
    with open(os.path.join(VERIF, path), "w") as f:
        json.dump(body, f, indent=1, default=str)
    return path


def write_evidence(ctx, violations, level_note_extra=None):
    cov = {
        "obligations": max(ctx.obligations, 1),
        "discharged": ctx.discharged,
        "checker_cmd": f"cd lean && lake build CspuzModel.Properties.{ctx.prop} && lake env lean CspuzModel/Audit/{ctx.prop}.lean",
        "trusted_base": TRUSTED_BASE,
        "evaluations": max(ctx.evaluations, 1),
        "distinct_nontrivial": len(ctx.nontrivial),
        "rule": ctx.extra.get("rule", ""),
        "samples": ctx.samples or ["(no correspondence case generated)"],
        "distribution": ctx.dist,
        "broken_obligations": ctx.broken,
        "correspondence_disagreements": len(ctx.disagreements),
        "notes": ctx.notes,
    }
    for k, v in ctx.extra.items():
        if k != "rule":
            cov[k] = v
    if ctx.discharged == 0:
        # nothing was discharged on this run (broken build): do not present proof-level counts
        cov["obligations_total"] = cov.pop("obligations")
        cov.pop("discharged")
    ev = {
        "property_id": ctx.prop,
        "tier": ctx.tier,
        "seed": ctx.seed,
        "level": "proof",
        "coverage": cov,
        "assumptions": ctx.extra.get("assumptions", []) if isinstance(ctx.extra.get("assumptions"), list) else [],
        "wall_s": round(time.time() - ctx.t0, 2),
        "violations": violations,
    }
    # runs against another checkout (CSPUZ_REPO=..., used for mutation tests) must not overwrite the evidence of /repo
    evdir = "evidence" if os.path.realpath(REPO) == "/repo" else os.path.join("replays", "evidence-other-checkout")
    os.makedirs(os.path.join(VERIF, evdir), exist_ok=True)
    with open(os.path.join(VERIF, evdir, f"{ctx.prop}.json"), "w") as f:
        json.dump(ev, f, indent=1, default=str)


def run_check(mod, prop, tier, seed, replay_path=None):
    ctx = Ctx(prop, tier, seed)
    sys.path.insert(0, REPO)
    try:
        if replay_path:
            data = json.load(open(replay_path))
            if data.get("data", {}).get("kind") == "graphcorr":
                from . import graphcorr
                f = graphcorr.replay_case(data["data"])
            else:
                f = mod.replay(ctx, data.get("data", {})) if hasattr(mod, "replay") else None
            if f is None:
                print(f"replay: the stored input no longer fails ({data.get('what')})")
                return 0
            print(f"replay: still fails: {f.what}")
            print(f"VIOLATION property={prop} replay={replay_path}")
            return 1

        # 1. regenerate Gen tables from the live repo
        gen_err = None
        if hasattr(mod, "gen"):
            try:
                mod.gen(ctx)
            except Exception as e:  # extraction itself failed: treat as broken tie, go search
                gen_err = f"extraction failed: {type(e).__name__}: {e}"
                ctx.broken.append(gen_err)
        # 2. build
        target = getattr(mod, "LEAN_TARGET", f"CspuzModel.Properties.{prop}")
        ok, log = lake_build([target, "cspuzdriver"])
        tries = 0
        while not ok and tries < 3 and not re.search(r"error: \S+\.lean:\d+:\d+", log):
            # no source-position error: a tooling hiccup (e.g. a concurrent lake run touching the same outputs) -- retry
            tries += 1
            time.sleep(2 * tries)
            ok, log = lake_build([target, "cspuzdriver"])
        if not ok and not re.search(r"error: \S+\.lean:\d+:\d+", log):
            print("TOOLING-FAILURE lake build: " + log[-800:], file=sys.stderr)
            return 2
        if not ok:
            errs = [l for l in log.split("\n") if "error" in l.lower()][:8]
            ctx.broken.append("lake build CspuzModel.Properties.%s failed: %s" % (prop, " | ".join(errs)[:1500]))
            # fall back: try to at least get the driver for the search
            lake_build(["cspuzdriver"])
        # 3. audit
        theorems = list(getattr(mod, "THEOREMS", []))
        ctx.obligations = len(theorems)
        if ok:
            hits = forbidden_tokens(target)
            if hits:
                ctx.broken.append("forbidden tokens: " + "; ".join(hits[:5]))
            good, bad = audit(prop, theorems, target)
            ctx.discharged = len(good)
            for t, why in bad.items():
                ctx.broken.append(f"theorem {t}: {why}")
            if tier == "thorough":
                # independent re-check of the compiled property module by the toolchain's leanchecker
                p = subprocess.run(["lake", "env", "leanchecker", target], cwd=LEAN, stdout=subprocess.PIPE,
                                   stderr=subprocess.STDOUT, text=True, timeout=3000)
                ctx.extra["leanchecker"] = {"module": target, "exit": p.returncode, "tail": p.stdout[-300:]}
                if p.returncode != 0:
                    ctx.broken.append(f"leanchecker rejected {target}: {p.stdout[-400:]}")
        # 4. correspondence
        if os.path.exists(DRIVER):
            try:
                mod.correspond(ctx)
            except RealTimeout as e:
                ctx.broken.append(f"real code did not return during the correspondence run: {e}")
            except Exception as e:
                tb = traceback.format_exc()
                ctx.broken.append(f"correspondence harness crashed: {type(e).__name__}: {e}")
                ctx.notes.append(tb[-1500:])
        else:
            ctx.broken.append("driver binary missing")
        # 5. search when anything broke
        findings = []
        # the failing-input search (real code vs the plain-Python reading of the property) runs when anything broke and, in the
        # thorough tier, always: a second, model-independent line that also sees what model and code have in common
        if ctx.broken or ctx.disagreements or (tier == "thorough" and hasattr(mod, "search")):
            ctx.extra["oracle_search_ran"] = True
            why = {"broken": ctx.broken, "disagreements": [(k, d) for k, d in ctx.disagreements[:20]]}
            try:
                findings = list(mod.search(ctx, why) or [])
            except RealTimeout as e:
                findings = [Finding("nontermination", f"the real code does not return on an input of the failing-input search: {e}",
                                    {"timeout": str(e), "last_case": ctx.extra.get("last_case")})]
            except Exception as e:
                ctx.notes.append("search crashed: " + traceback.format_exc()[-1500:])
                findings = []
            # failing inputs already established during the correspondence run (a real call that raises where the model and
            # its totality theorem give a value)
            have = {f.signature for f in findings}
            findings = [f for f in getattr(ctx, "concrete", []) if f.signature not in have][:3] + findings
            known0 = load_known()
            unexplained = bool(ctx.broken) or any(not k.startswith("property:") for k, _ in ctx.disagreements)
            fresh = [f for f in findings if f.no_input or not any(
                k.get("property") == prop and k.get("signature") == f.signature for k in known0)]
            # a listed known finding does not explain a broken obligation or a model-vs-code disagreement
            if unexplained and not fresh:
                findings = findings + [Finding(
                    signature="unproved:" + hashlib.sha1(json.dumps(why, sort_keys=True, default=str).encode()).hexdigest()[:8],
                    what="proof obligation or correspondence no longer checks; no failing input found",
                    data=why, no_input=True)]
        # 6. known findings
        known = load_known()
        rc = 0
        nviol = 0
        seen = set()
        for f in findings:
            if f.signature in seen:
                continue
            seen.add(f.signature)
            k = [k for k in known if k.get("property") == prop and k.get("signature") == f.signature]
            if k and not f.no_input:
                print(f"KNOWN-FINDING: property={prop} {k[0].get('what', f.what)}")
                continue
            path = write_replay(prop, f)
            nviol += 1
            print(f"# {f.what}")
            print(f"VIOLATION property={prop} replay={path}" + (" no-failing-input-found" if f.no_input else ""))
            rc = 1
        if hasattr(mod, "finish"):
            mod.finish(ctx)
        write_evidence(ctx, nviol)
        if rc == 0:
            print(f"OK property={prop} tier={tier} seed={seed} obligations={ctx.discharged}/{ctx.obligations} "
                  f"evaluations={ctx.evaluations} distinct_nontrivial={len(ctx.nontrivial)} wall={time.time()-ctx.t0:.1f}s")
        return rc
    except subprocess.TimeoutExpired as e:
        print(f"TOOLING-TIMEOUT {e}", file=sys.stderr)
        return 2
    except Exception:
        traceback.print_exc()
        return 2


class RealTimeout(BaseException):
    """The real code did not return within the allotted time (treated as non-termination of the call)."""


def with_timeout(seconds, fn, *a, **kw):
    """Run fn under SIGALRM; raises RealTimeout.  Main thread only."""
    import signal

    def handler(signum, frame):
        raise RealTimeout(f"no result after {seconds}s")
    old = signal.signal(signal.SIGALRM, handler)
    signal.setitimer(signal.ITIMER_REAL, seconds)
    try:
        return fn(*a, **kw)
    finally:
        signal.setitimer(signal.ITIMER_REAL, 0)
        signal.signal(signal.SIGALRM, old)
