"""C10 — crossable loop/path constraint admits exactly single self-crossing trails."""
from . import core, exprio, graphs, graphcorr
from .core import Finding

THEOREMS = ["Cspuz.C10.C10_exact_aux", "Cspuz.C10.C10_exact_prim", "Cspuz.C10.C10_total",
            "Cspuz.C10.C10_general_aux", "Cspuz.C10.C10_general_prim", "Cspuz.C10.C10_general_total",
            "Cspuz.C10.C10_fresh_ok", "Cspuz.C10.C10_general_implies_exact"]


def correspond(ctx):
    ctx.extra["rule"] = ("all frame sizes 0..3 x 0..3, single_cycle on/off, use_graph_primitive on/off, through both public entry points; "
                         "program emitted by the real active_edges_connected_crossable (incl. the 3-nodes-per-point auxiliary graph and the "
                         "two returned arrays) vs the Lean model; + four larger frames (4x5, 3x6, 6x6, 5x4)")
    graphcorr.run_cases(ctx, graphcorr.case_crossable, ctx.n(120, 1500), "crossable", with_ids=True,
                        bigs=[("frame", 4, 5), ("frame", 3, 6), ("frame", 6, 6), ("frame", 5, 4)])
    if not ctx.quick():
        for f in search(ctx, None, frames=((0, 0), (1, 1), (1, 2), (2, 1), (2, 2), (1, 3))):
            ctx.disagree("semantic", what=f.what, data=f.data)


def frame_segments(H, W):
    """Segments in variable order (horizontal (H+1)xW row-major, then vertical Hx(W+1)), as pairs of lattice points."""
    segs = []
    for y in range(H + 1):
        for x in range(W):
            segs.append(((y, x), (y, x + 1)))
    for y in range(H):
        for x in range(W + 1):
            segs.append(((y, x), (y + 1, x)))
    return segs


def spec(H, W, act, single_cycle):
    segs = frame_segments(H, W)
    pts = [(y, x) for y in range(H + 1) for x in range(W + 1)]
    inc = {p: [] for p in pts}
    for k, (a, b) in enumerate(segs):
        if act[k]:
            inc[a].append(k)
            inc[b].append(k)
    for p in pts:
        d = len(inc[p])
        allowed = (0, 2, 4) if single_cycle else (0, 1, 2, 4)
        if d not in allowed:
            return False, None, None
        if d == 4 and (p[0] in (0, H) or p[1] in (0, W)):
            return False, None, None
    # strand graph on active segments
    links = []
    for p in pts:
        ks = inc[p]
        if len(ks) == 2:
            links.append((ks[0], ks[1]))
        elif len(ks) == 4:
            hor = [k for k in ks if segs[k][0][0] == segs[k][1][0]]
            ver = [k for k in ks if segs[k][0][1] == segs[k][1][1]]
            links.append((hor[0], hor[1]))
            links.append((ver[0], ver[1]))
    active = [k for k in range(len(segs)) if act[k]]
    ok = exprio.connected(active, links)
    passed = [len(inc[p]) > 0 for p in pts]
    cross = [len(inc[p]) == 4 for p in pts]
    return ok, passed, cross


def _check(H, W, single_cycle, prim):
    from cspuz import graph as G
    from cspuz.grid_frame import BoolGridFrame
    st = {}

    def builder(s):
        fr = BoolGridFrame(s, H, W)
        st["nf"] = len(s.variables)

        def call():
            p, c = G.active_edges_connected_crossable(s, fr, single_cycle=single_cycle, use_graph_primitive=prim)
            st["ret"] = [exprio.pexpr(x) for x in p.data] + [exprio.pexpr(x) for x in c.data]
        return call
    decls, cs, base, _ = graphs.real_program(builder)
    nf = st["nf"]
    for pat in graphs.all_patterns(nf):
        fixed = {f"b{i}": pat[i] for i in range(nf)}
        want, passed, cross = spec(H, W, pat, single_cycle)
        if prim:
            m = exprio.z3_or_brute(decls, cs, base, fixed)
            sat = m is not None
            forced = None
        else:
            sat, forced = exprio.forced_values(decls, cs, base, fixed, st["ret"])
        if sat != want:
            return list(pat), ("sat", sat), ("expected", want)
        if sat and forced is not None:
            got = [forced[k] for k in st["ret"]]
            if got != passed + cross:
                return list(pat), ("returned arrays", got), ("expected", passed + cross)
    return None


def structured_patterns(rng, H, W, count):
    """Patterns likely to be valid trails: XOR of rectangle boundaries (crossings where rectangles cross), lattice walks,
    each optionally with one flipped segment."""
    segs = frame_segments(H, W)
    index = {s: k for k, s in enumerate(segs)}

    def seg(a, b):
        return index[(a, b)] if (a, b) in index else index[(b, a)]
    out = []
    for _ in range(count):
        act = [False] * len(segs)
        r = rng.random()
        if r < 0.6 and H >= 1 and W >= 1:
            for _ in range(rng.randint(1, 3)):
                y0 = rng.randint(0, H - 1)
                y1 = rng.randint(y0 + 1, H)
                x0 = rng.randint(0, W - 1)
                x1 = rng.randint(x0 + 1, W)
                for x in range(x0, x1):
                    act[seg((y0, x), (y0, x + 1))] ^= True
                    act[seg((y1, x), (y1, x + 1))] ^= True
                for y in range(y0, y1):
                    act[seg((y, x0), (y + 1, x0))] ^= True
                    act[seg((y, x1), (y + 1, x1))] ^= True
        else:
            p = (rng.randint(0, H), rng.randint(0, W))
            for _ in range(rng.randint(1, 2 * (H + W) + 2)):
                nb = [(p[0] + dy, p[1] + dx) for dy, dx in ((0, 1), (1, 0), (0, -1), (-1, 0))
                      if 0 <= p[0] + dy <= H and 0 <= p[1] + dx <= W]
                q = rng.choice(nb)
                act[seg(p, q)] = True
                p = q
        if rng.random() < 0.4 and segs:
            k = rng.randrange(len(segs))
            act[k] = not act[k]
        out.append(tuple(act))
    return out


# ---------------------------------------------------------------- DENSE valid trails
#
# Random subsets, rectangle XORs and random walks never come near the longest trails of a frame (almost every interior point a
# crossing, almost every point visited) -- the inputs on which anything derived from a "largest distance needed" (rank ranges,
# counters) is tight.  Simulated annealing over segment sets, scored by the number of segments minus penalties for what `spec`
# forbids, gets there in a fraction of a second; what it returns is judged by `spec` like every other pattern.


def _trail_score(H, W, segs, act, single_cycle, weave=0):
    """(score, valid).  weave > 0: the objective is tilted towards WOVEN trails: + weave * (4-way points - other visited points)."""
    inc = {}
    for k, (a, b) in enumerate(segs):
        if act[k]:
            inc.setdefault(a, []).append(k)
            inc.setdefault(b, []).append(k)
    bad, links = 0, []
    for p, ks in inc.items():
        d = len(ks)
        if d == 4:
            if p[0] in (0, H) or p[1] in (0, W):
                bad += 1
            hor = [k for k in ks if segs[k][0][0] == segs[k][1][0]]
            ver = [k for k in ks if segs[k][0][1] == segs[k][1][1]]
            links += [(hor[0], hor[1]), (ver[0], ver[1])]
        elif d == 2:
            links.append((ks[0], ks[1]))
        elif d == 3 or (d == 1 and single_cycle):
            bad += 1
    active = [k for k in range(len(segs)) if act[k]]
    idx = {k: i for i, k in enumerate(active)}
    ns = len(set(exprio.components(len(active), [(idx[a], idx[b]) for a, b in links])))
    n4 = sum(1 for ks in inc.values() if len(ks) == 4)
    return sum(act) - 6 * (ns - 1) - 6 * bad + weave * (2 * n4 - len(inc)), ns == 1 and bad == 0


def _anneal(rng, H, W, closed, steps, weave=0):
    """Longest valid trail met on one annealing run: `closed` -> unit-cell XOR moves only (all degrees stay even); otherwise also
    single-segment moves, mostly at the current loose ends."""
    import math
    segs = frame_segments(H, W)
    at = {}
    for k, (a, b) in enumerate(segs):
        at.setdefault(a, []).append(k)
        at.setdefault(b, []).append(k)
    cells = [[k for k, f in enumerate(graphs.rect_pattern(H, W, [(y, x, y + 1, x + 1)])) if f] for y in range(H) for x in range(W)]
    act = graphs.rect_pattern(H, W, [(0, 0, H, W)])
    best = None
    cs, _ = _trail_score(H, W, segs, act, closed, weave)
    bs = None
    T = 2.0 if closed else 2.5
    for _ in range(steps):
        new = list(act)
        if closed or rng.random() < 0.35:
            for k in rng.choice(cells):
                new[k] = not new[k]
        else:
            ends = [p for p, ks in at.items() if sum(1 for k in ks if act[k]) in (1, 3)]
            k = rng.choice(at[rng.choice(ends)]) if (ends and rng.random() < 0.85) else rng.randrange(len(segs))
            new[k] = not new[k]
        if not any(new):
            continue
        ns, nv = _trail_score(H, W, segs, new, closed, weave)
        if ns >= cs or rng.random() < math.exp((ns - cs) / T):
            act, cs = new, ns
            if nv and (best is None or (ns > bs if weave else sum(act) > sum(best))):
                best, bs = list(act), ns
        T = max(0.3 if closed else 0.35, T * (0.999 if closed else 0.9995))
    return best


def dense_patterns(rng, H, W, restarts=3):
    """The longest closed trail and the longest open trails found (H, W >= 2), each also with one segment removed / one unit cell
    XOR-ed (neighbours of a longest trail: mostly invalid, sometimes another long trail)."""
    segs = frame_segments(H, W)
    base = [_anneal(rng, H, W, True, 3000)] + [_anneal(rng, H, W, False, 8000) for _ in range(restarts)]
    base = [b for b in base if b]
    base.sort(key=lambda b: -sum(b))
    base = base[:3]
    # WOVEN trails: the objective tilted towards many 4-way points and few other visited points (from about 5x6 they have more
    # crossings than ordinary points -- what any counting argument relating the two gets wrong)
    if H * W >= 20:
        base += [b for b in (_anneal(rng, H, W, True, 3000, 2), _anneal(rng, H, W, False, 8000, 2), _anneal(rng, H, W, False, 8000, 4)) if b]
    out = []
    for b in base:
        out.append(tuple(b))
        on = [k for k in range(len(segs)) if b[k]]
        for k in (on[0], on[len(on) // 2]):
            v = list(b)
            v[k] = False
            out.append(tuple(v))
        v = list(b)
        for k, f in enumerate(graphs.rect_pattern(H, W, [(H // 2, W // 2, H // 2 + 1, W // 2 + 1)])):
            if f:
                v[k] = not v[k]
        out.append(tuple(v))
    seen, uniq = set(), []
    for pat in out:
        if pat not in seen:
            seen.add(pat)
            uniq.append(pat)
    return uniq


def parse_picture(picture):
    """'+---+' / '|' drawing -> (H, W, segment flags in variable order)."""
    rows = [r for r in picture.split("\n") if r.strip() != ""]
    H = len(rows) // 2
    W = (max(len(r) for r in rows) + 3) // 4 - 1
    rows = [r.ljust(4 * W + 1) for r in rows]
    act = [rows[2 * y][4 * x + 2] == "-" for y in range(H + 1) for x in range(W)]
    act += [rows[2 * y + 1][4 * x] == "|" for y in range(H) for x in range(W + 1)]
    return H, W, tuple(act)


# fixed corpus: longest trails known for the two smallest frames on which "number of segments" exceeds (points + segments) // 2:
# a closed trail through all 30 points of a 4x5 frame (40 segments) and an open trail of 37 segments on a 3x6 frame
CORPUS = [parse_picture(p) for p in ("""
+   +---+
    |   |
+---+---+
|   |
+---+   +
""", """
+   +---+
    |
+---+---+
|   |
+   +---+
""", """
+   +---+   +---+---+
    |   |   |       |
+---+---+---+---+   +
|   |   |   |   |   |
+---+---+---+---+---+
    |   |   |   |
+---+---+---+---+---+
|   |   |   |   |   |
+---+   +---+   +---+
""", """
+   +---+   +---+   +---+
|   |   |   |   |   |   |
+---+---+---+---+---+---+
    |   |   |   |   |
+---+---+---+---+---+---+
|   |   |   |   |   |   |
+---+   +---+   +   +---+
""")]

def _from_rows(hor, ver):
    return len(ver), len(hor[0]), tuple(bool(x) for row in hor for x in row) + tuple(bool(x) for row in ver for x in row)


# woven trails with MORE 4-way points than ordinary visited points: an open one on a 5x6 frame (20 vs 18), a closed one on 6x6
CORPUS += [_from_rows([[0, 0, 0, 1, 0, 0], [0, 1, 1, 1, 1, 0], [1, 1, 1, 1, 1, 1], [1, 1, 1, 1, 1, 0], [0, 1, 1, 1, 0, 0], [0, 0, 1, 0, 0, 0]],
                      [[0, 0, 1, 1, 1, 0, 0], [0, 1, 1, 1, 1, 1, 0], [1, 1, 1, 1, 1, 1, 0], [0, 1, 1, 1, 1, 0, 0], [0, 0, 1, 1, 0, 0, 0]]),
           _from_rows([[0, 0, 0, 1, 0, 0], [0, 0, 1, 1, 1, 0], [0, 1, 1, 1, 1, 1], [1, 1, 1, 1, 1, 1], [1, 1, 1, 1, 1, 1], [0, 1, 0, 1, 1, 1], [0, 0, 0, 0, 1, 0]],
                      [[0, 0, 0, 1, 1, 0, 0], [0, 0, 1, 1, 1, 1, 0], [0, 1, 1, 1, 1, 1, 1], [1, 1, 1, 1, 1, 1, 0], [0, 1, 1, 1, 1, 1, 1], [0, 0, 0, 0, 1, 1, 0]])]

DENSE_FRAMES = ((4, 5), (3, 6), (5, 4), (6, 3), (4, 4), (5, 5), (4, 6), (5, 6), (6, 5), (6, 6))


def _check_patterns(H, W, single_cycle, patterns):
    from cspuz import graph as G
    from cspuz.grid_frame import BoolGridFrame
    st = {}

    def builder(s):
        fr = BoolGridFrame(s, H, W)
        st["nf"] = len(s.variables)
        return lambda: G.active_edges_connected_crossable(s, fr, single_cycle=single_cycle, use_graph_primitive=False)
    decls, cs, base, _ = graphs.real_program(builder)
    for pat in patterns:
        fixed = {f"b{i}": pat[i] for i in range(st["nf"])}
        want, _, _ = spec(H, W, pat, single_cycle)
        sat = exprio.z3_solve(decls, cs, base, fixed) is not None
        if sat != want:
            return list(pat), ("sat", sat), ("expected", want)
    return None


def search(ctx, why, frames=None):
    found = {}
    # fixed corpus first (docstring examples; the longest trails known on 4x5 and 3x6 frames)
    for (H, W, pat) in CORPUS:
        for sc in (False, True):
            key = ("cycle" if sc else "path") + ":corpus"
            if key in found:
                continue
            try:
                bad = _check_patterns(H, W, sc, [pat])
            except Exception as e:
                bad = ("exception", core.err_name(e), str(e)[:300])
            ctx.count("search:crossable-corpus")
            if bad:
                found[key] = Finding("crossable:" + key, f"active_edges_connected_crossable(single_cycle={sc}) on a {H}x{W} frame, "
                                     f"{sum(pat)} active segments (flags in variable order: horizontal rows first) {bad[0]}: {bad[1]} but {bad[2]}",
                                     {"H": H, "W": W, "single_cycle": sc, "pattern": bad[0], "structured": True})
    frames = frames or ((0, 0), (1, 1), (1, 2), (2, 1)) + (((2, 2),) if not ctx.quick() else ())
    for (H, W) in frames:
        for sc in (False, True):
            key = "cycle" if sc else "path"
            if key in found:
                continue
            try:
                bad = _check(H, W, sc, False)
            except Exception as e:
                bad = ("exception", core.err_name(e), str(e)[:300])
            ctx.count("search:crossable")
            if bad:
                found[key] = Finding("crossable:" + key, f"active_edges_connected_crossable(single_cycle={sc}) on a {H}x{W} frame, segments={bad[0]}: {bad[1]} but {bad[2]}",
                                     {"H": H, "W": W, "single_cycle": sc, "pattern": bad[0]})
    # larger frames (incl. wider-than-tall and taller-than-wide): structured patterns instead of all subsets
    for (H, W) in ((2, 2), (2, 3), (3, 2), (3, 3), (2, 4), (4, 2)):
        for sc in (False, True):
            key = "cycle" if sc else "path"
            if key in found:
                continue
            pats = structured_patterns(ctx.rng, H, W, ctx.n(60, 300))
            try:
                bad = _check_patterns(H, W, sc, pats)
            except Exception as e:
                bad = ("exception", core.err_name(e), str(e)[:300])
            ctx.count("search:crossable-structured", len(pats))
            if bad:
                found[key] = Finding("crossable:" + key, f"active_edges_connected_crossable(single_cycle={sc}) on a {H}x{W} frame, segments={bad[0]}: {bad[1]} but {bad[2]}",
                                     {"H": H, "W": W, "single_cycle": sc, "pattern": bad[0], "structured": True})
    # DENSE valid trails (annealing) on frames of 16 to 36 cells; from 20 cells also WOVEN ones (see dense_patterns)
    jobs = []
    for (H, W) in DENSE_FRAMES:
        jobs.append((H, W, dense_patterns(ctx.rng, H, W), "dense"))
    for (H, W, pats, kind) in jobs:
        for sc in (False, True):
            key = "cycle" if sc else "path"
            if key in found:
                continue
            try:
                bad = _check_patterns(H, W, sc, pats)
            except Exception as e:
                bad = ("exception", core.err_name(e), str(e)[:300])
            ctx.count("search:crossable-" + kind, len(pats))
            ctx.extra.setdefault("longest_trails_tried", {})["%dx%d" % (H, W)] = max(sum(p) for p in pats)
            if bad:
                nseg = sum(1 for x in bad[0] if x is True) if isinstance(bad[0], list) else None
                found[key] = Finding("crossable:" + key, f"active_edges_connected_crossable(single_cycle={sc}) on a {H}x{W} frame, "
                                     f"{nseg} active segments (flags in variable order: horizontal rows first) {bad[0]}: {bad[1]} but {bad[2]}",
                                     {"H": H, "W": W, "single_cycle": sc, "pattern": bad[0], "structured": True})
    return list(found.values())


def replay(ctx, data):
    if data.get("structured"):
        bad = _check_patterns(data["H"], data["W"], data["single_cycle"], [tuple(data["pattern"])])
    else:
        bad = _check(data["H"], data["W"], data["single_cycle"], False)
    return Finding("crossable:replay", f"still fails: {bad}", data) if bad else None
