"""C08 — not_adjacent / not_adjacent_and_not_segmenting match their graph definitions."""
from . import core, exprio, graphs, graphcorr
from .core import Finding

THEOREMS = ["Cspuz.C08.C08_not_adjacent_graph", "Cspuz.C08.C08_not_adjacent_grid", "Cspuz.C08.C08_segmenting_graph", "Cspuz.C08.C08_grid_line", "Cspuz.C08.C08_grid_diag_sound", "Cspuz.C08.C08_grid_diag_complete", "Cspuz.C08.C08_planar", "Cspuz.C08.C08_grid"]


def correspond(ctx):
    ctx.extra["rule"] = ("grids up to 5x5 (incl. 1xN, Nx1) and random graphs n<=6; is_active as variables/negations/compound "
                         "expressions; programs emitted by the real active_vertices_not_adjacent and "
                         "active_vertices_not_adjacent_and_not_segmenting vs the Lean model's programs"
                         " + a handful of deterministic medium / LARGE instances per family (graphs.big_graphs: 40, 70 and 258..319 vertices -- vertex ids beyond CPython's small-int cache, more than 32 / 64 vertices --, boards up to 16x17); about half of the Graph objects are observed part-way through construction (accessors read, every graph constraint posted once on a throw-away Solver) before the remaining edges are added"
                         " + a deterministic sweep over EVERY size of a medium range (graphs.medium_graphs / medium_grids: for every n from 30 to 130 a star with a rim edge between its last two leaves and a path or cycle; boards of every height 30..130 with width 1 or 2 and a few transposed) -- block arithmetic in an encoder (sums cut into blocks of 24 / 40 / 50 ... with a leftover) changes branch at sizes nobody knows in advance")
    graphcorr.run_cases(ctx, graphcorr.case_nadj, ctx.n(300, 4000), "nadj", bigs=graphcorr.graph_bigs() + graphcorr.grid_bigs() + graphcorr.medium_bigs() + graphcorr.medium_grid_bigs())
    graphcorr.run_cases(ctx, graphcorr.case_nseg, ctx.n(300, 4000), "nseg", bigs=graphcorr.graph_bigs() + graphcorr.grid_bigs() + graphcorr.medium_bigs() + graphcorr.medium_grid_bigs())
    if not ctx.quick():
        for f in search(ctx, None, maxcells=16):
            ctx.disagree("semantic", what=f.what, data=f.data)
        ctx.extra["semantic_differential"] = ("thorough tier: every activity pattern of every grid with h*w<=16 on the real code "
                                              "(grid encoding) vs the graph definition (BFS) -- a bounded test of the planar lemma, not a proof")


def _defn(n, edges, pat):
    if any(pat[u] and pat[v] for u, v in edges):
        return False
    return graphs.is_connected(n, edges, [not p for p in pat])


def _check_grid(h, w):
    from cspuz import graph as G

    def builder(s):
        arr = s.bool_array((h, w))
        return lambda: G.active_vertices_not_adjacent_and_not_segmenting(s, arr)
    decls, cs, base, _ = graphs.real_program(builder)
    edges = graphs.grid_edges(h, w)
    for pat in graphs.all_patterns(h * w):
        if any(pat[u] and pat[v] for u, v in edges):
            want = False
        else:
            want = graphs.is_connected(h * w, edges, [not p for p in pat])
        fixed = {f"b{i}": pat[i] for i in range(h * w)}
        # cheap pre-filter: adjacency violations are decided by the caller-variable-only constraints
        got = exprio.solve_prog(decls, cs, base, fixed) is not None
        if got != want:
            return list(pat), got, want
    return None


def _check_nadj(n, edges, grid=None):
    from cspuz import graph as G
    from cspuz.array import BoolArray1D
    mk = graphs.mk_graph(n, edges)

    def builder(s):
        if grid:
            arr = s.bool_array(grid)
            return lambda: G.active_vertices_not_adjacent(s, arr)
        vs = [s.bool_var() for _ in range(n)]
        return lambda: G.active_vertices_not_adjacent(s, vs, mk)
    decls, cs, base, _ = graphs.real_program(builder)
    for pat in graphs.all_patterns(n):
        fixed = {f"b{i}": pat[i] for i in range(n)}
        got = exprio.solve_prog(decls, cs, base, fixed) is not None
        want = not any(pat[u] and pat[v] for u, v in edges)
        if got != want:
            return list(pat), got, want
    return None


def _check_nseg_graph(n, edges):
    from cspuz import graph as G
    from cspuz.array import BoolArray1D
    mk = graphs.mk_graph(n, edges)

    def builder(s):
        vs = s.bool_array(n)
        return lambda: G.active_vertices_not_adjacent_and_not_segmenting(s, vs, mk)
    decls, cs, base, _ = graphs.real_program(builder)
    for pat in graphs.all_patterns(n):
        fixed = {f"b{i}": pat[i] for i in range(n)}
        got = exprio.solve_prog(decls, cs, base, fixed) is not None
        want = _defn(n, edges, pat)
        if got != want:
            return list(pat), got, want
    return None


def _check_graph_patterns(n, edges, seg, patterns):
    """Selected activity patterns of a medium / large graph (see graphs.independent_patterns) on the graph forms of
    active_vertices_not_adjacent (seg=False) / ..._and_not_segmenting (seg=True)."""
    from cspuz import graph as G
    mk = graphs.mk_graph(n, edges)

    def builder(s):
        if seg:
            vs = s.bool_array(n)
            return lambda: G.active_vertices_not_adjacent_and_not_segmenting(s, vs, mk)
        vs = [s.bool_var() for _ in range(n)]
        return lambda: G.active_vertices_not_adjacent(s, vs, mk)
    decls, cs, base, _ = graphs.real_program(builder)
    for name, pat in patterns:
        got = exprio.solve_prog(decls, cs, base, {f"b{i}": pat[i] for i in range(n)}) is not None
        want = _defn(n, edges, pat) if seg else not any(pat[u] and pat[v] for u, v in edges)
        if got != want:
            return name, [v for v in range(n) if pat[v]], got, want
    return None


def _check_grid_patterns(h, w, seg, patterns):
    """Selected patterns [(name, set of (y, x))] of an h x w board through the BoolArray2D forms (seg=False: not_adjacent, seg=True:
    ..._and_not_segmenting)."""
    from cspuz import graph as G

    def builder(s):
        arr = s.bool_array((h, w))
        if seg:
            return lambda: G.active_vertices_not_adjacent_and_not_segmenting(s, arr)
        return lambda: G.active_vertices_not_adjacent(s, arr)
    decls, cs, base, _ = graphs.real_program(builder)
    edges = graphs.grid_edges(h, w)
    for name, cells in patterns:
        pat = [(y, x) in cells for y in range(h) for x in range(w)]
        want = _defn(h * w, edges, pat) if seg else not any(pat[u] and pat[v] for u, v in edges)
        got = exprio.solve_prog(decls, cs, base, {f"b{i}": pat[i] for i in range(h * w)}) is not None
        if got != want:
            return name, sorted(cells), got, want
    return None


def thin_board_patterns(h, w):
    """Patterns for a tall thin (or flat wide) board: the only violation a pair of adjacent cells in the LAST two rows / columns, in the
    middle, at the top; single cells; every other cell of the first column (the oracle decides each of them)."""
    out = [("none", set()), ("last cell", {(h - 1, w - 1)}), ("every other cell of column 0", {(y, 0) for y in range(0, h, 2)})]
    if h >= 2:
        out += [("vertical pair in the last two rows, column 0", {(h - 2, 0), (h - 1, 0)}),
                ("vertical pair in the last two rows, last column", {(h - 2, w - 1), (h - 1, w - 1)}),
                ("vertical pair in the middle", {(h // 2 - 1, 0), (h // 2, 0)}), ("vertical pair at the top", {(0, w - 1), (1, w - 1)})]
    if h >= 4:
        out += [("cells two rows apart at the bottom", {(h - 3, 0), (h - 1, 0)})]
    if w >= 2:
        out += [("horizontal pair in the last two columns, last row", {(h - 1, w - 2), (h - 1, w - 1)}),
                ("horizontal pair in the last two columns, row 0", {(0, w - 2), (0, w - 1)}),
                ("horizontal pair in the middle", {(h // 2, w // 2 - 1), (h // 2, w // 2)})]
    return out


def snake(rng, h, w, tries=40):
    """A long diagonal chain of pairwise non-adjacent cells that starts on the border and otherwise stays inside
    (deep rank chains are what a too-small rank range breaks)."""
    best = []
    for _ in range(tries):
        start = rng.choice([(0, x) for x in range(w)] + [(h - 1, x) for x in range(w)] + [(y, 0) for y in range(h)] + [(y, w - 1) for y in range(h)])
        chain = [start]
        used = {start}
        while True:
            y, x = chain[-1]
            opts = []
            for dy, dx in ((-1, -1), (-1, 1), (1, -1), (1, 1)):
                c = (y + dy, x + dx)
                if not (0 < c[0] < h - 1 and 0 < c[1] < w - 1) or c in used:
                    continue
                # not orthogonally adjacent to the chain, and diagonal only to its predecessor
                if any((c[0] + a, c[1] + b) in used for a, b in ((0, 1), (1, 0), (0, -1), (-1, 0))):
                    continue
                if any((c[0] + a, c[1] + b) in used and (c[0] + a, c[1] + b) != (y, x) for a, b in ((-1, -1), (-1, 1), (1, -1), (1, 1))):
                    continue
                opts.append(c)
            if not opts:
                break
            c = rng.choice(opts)
            chain.append(c)
            used.add(c)
        if len(chain) > len(best):
            best = chain
    return best


def _check_big(h, w, patterns):
    from cspuz import graph as G

    def builder(s):
        arr = s.bool_array((h, w))
        return lambda: G.active_vertices_not_adjacent_and_not_segmenting(s, arr)
    decls, cs, base, _ = graphs.real_program(builder)
    edges = graphs.grid_edges(h, w)
    for pat in patterns:
        want = (not any(pat[u] and pat[v] for u, v in edges)) and graphs.is_connected(h * w, edges, [not p for p in pat])
        got = exprio.z3_solve(decls, cs, base, {f"b{i}": pat[i] for i in range(h * w)}) is not None
        if got != want:
            return list(pat), got, want
    return None


def search(ctx, why, maxcells=None):
    found = {}
    maxcells = maxcells or ctx.n(9, 12)
    shapes = [(h, w) for h in range(1, 7) for w in range(1, 7) if h * w <= maxcells]
    shapes.sort(key=lambda s: (s[0] * s[1], s))
    for h, w in shapes:
        kind = "line" if (h == 1 or w == 1) else "2d"
        try:
            bad = _check_grid(h, w)
        except Exception as e:
            bad = ("exception", core.err_name(e), str(e)[:200])
        ctx.count("search:nseg-grid")
        if bad and ("nseg-grid:" + kind) not in found:
            found["nseg-grid:" + kind] = Finding(
                "nseg-grid:" + kind,
                f"active_vertices_not_adjacent_and_not_segmenting on a {h}x{w} BoolArray2D, pattern {bad[0]}: satisfiable={bad[1]} "
                f"but the graph definition (no adjacent actives, inactive cells connected) gives {bad[2]}",
                {"h": h, "w": w, "pattern": bad[0], "got": bad[1], "want": bad[2], "kind": "nseg-grid"})
        if h * w <= 9:
            bad = _check_nadj(h * w, graphs.grid_edges(h, w), (h, w))
            if bad and "nadj-grid" not in found:
                found["nadj-grid"] = Finding("nadj-grid", f"active_vertices_not_adjacent on {h}x{w}, pattern {bad[0]}: sat={bad[1]} expected {bad[2]}",
                                             {"h": h, "w": w, "pattern": bad[0], "kind": "nadj-grid"})
    # EVERY height of the medium range on tall thin boards (and a few flat wide ones): encoders that walk the rows in bands change
    # branch at heights nobody knows in advance.  not_adjacent on all of them; the (costlier) not_segmenting form on every third.
    for idx, (h, w) in enumerate(graphs.medium_grids()):
        for seg in (False, True):
            key = "medium-board:" + ("nseg" if seg else "nadj")
            if key in found or (seg and idx % 3 != 2):
                continue
            pats = thin_board_patterns(h, w)
            if seg:
                pats = [p for p in pats if "last" in p[0] or p[0] == "none"]
            try:
                bad = _check_grid_patterns(h, w, seg, pats)
            except Exception as e:
                bad = ("exception", None, core.err_name(e), str(e)[:200])
            ctx.count("search:" + key)
            if bad:
                found[key] = Finding(
                    ("nseg" if seg else "nadj") + "-grid:medium-board",
                    f"active_vertices_not_adjacent{'_and_not_segmenting' if seg else ''} on a {h}x{w} BoolArray2D, active cells ({bad[0]}) = "
                    f"{bad[1] if bad[1] is None or len(bad[1]) <= 12 else str(bad[1][:6]) + ' ... ' + str(bad[1][-6:])}: satisfiable={bad[2]} "
                    f"but the definition gives {bad[3]}",
                    {"kind": "grid-patterns", "h": h, "w": w, "seg": seg, "pattern_name": bad[0], "cells": [list(c) for c in bad[1]] if bad[1] else []})
    # larger boards: long diagonal chains (+ one closing / one extra cell), which exercise the rank range
    for (h, w) in ((5, 5), (6, 6), (7, 7), (8, 8), (5, 8), (8, 5)):
        if "nseg-grid:2d" in found:
            break
        pats = []
        for _ in range(ctx.n(4, 12)):
            ch = snake(ctx.rng, h, w)
            for cut in {len(ch), max(1, len(ch) - 1), max(1, len(ch) // 2)}:
                cells = set(ch[:cut])
                pats.append(tuple((y, x) in cells for y in range(h) for x in range(w)))
            # a variant touching the border a second time (must be rejected)
            extra = set(ch) | {(h - 1, w - 1)}
            pats.append(tuple((y, x) in extra for y in range(h) for x in range(w)))
        try:
            bad = _check_big(h, w, pats)
        except Exception as e:
            bad = ("exception", core.err_name(e), str(e)[:200])
        ctx.count("search:nseg-grid-snakes", len(pats))
        if bad:
            found["nseg-grid:2d"] = Finding(
                "nseg-grid:2d",
                f"active_vertices_not_adjacent_and_not_segmenting on a {h}x{w} BoolArray2D, pattern {bad[0]}: satisfiable={bad[1]} "
                f"but the graph definition gives {bad[2]}", {"h": h, "w": w, "pattern": bad[0], "kind": "nseg-big"})
    for (n, edges) in graphs.small_graphs(ctx.rng, ctx.n(20, 40), 5):
        if any(a == b for a, b in edges):
            continue
        bad = _check_nadj(n, edges)
        if bad and "nadj-graph" not in found:
            found["nadj-graph"] = Finding("nadj-graph", f"active_vertices_not_adjacent on n={n} edges={edges}, pattern {bad[0]}: sat={bad[1]} expected {bad[2]}" + graphs.history_note(n, edges),
                                          {"n": n, "edges": edges, "pattern": bad[0], "kind": "nadj-graph"})
        try:
            bad = _check_nseg_graph(n, edges)
        except Exception as e:
            bad = ("exception", core.err_name(e), str(e)[:200])
        if bad and "nseg-graph" not in found:
            found["nseg-graph"] = Finding("nseg-graph", f"not_adjacent_and_not_segmenting (graph form) on n={n} edges={edges}, pattern {bad[0]}: sat={bad[1]} expected {bad[2]}" + graphs.history_note(n, edges),
                                          {"n": n, "edges": edges, "pattern": bad[0], "kind": "nseg-graph"})
    # medium / LARGE graphs (vertex ids >= 257): single vertices, cut vertices, adjacent pairs at both ends of the index range
    for (n, edges) in graphs.big_graphs():
        for seg in (False, True):
            key = "big:" + ("nseg" if seg else "nadj")
            if key in found:
                continue
            try:
                bad = _check_graph_patterns(n, edges, seg, graphs.independent_patterns(n, edges))
            except Exception as e:
                bad = ("exception", None, core.err_name(e), str(e)[:200])
            ctx.count("search:" + key)
            if bad:
                found[key] = Finding(
                    ("nseg" if seg else "nadj") + "-graph:large",
                    f"active_vertices_not_adjacent{'_and_not_segmenting' if seg else ''} (graph form) on a graph with {n} vertices and {len(edges)} "
                    f"edges (edges {edges[:4]} ... {edges[-6:]}), active vertices ({bad[0]}) = "
                    f"{bad[1] if bad[1] is None or len(bad[1]) <= 16 else str(bad[1][:8]) + ' ... ' + str(bad[1][-8:])}: satisfiable={bad[2]} expected {bad[3]}" + graphs.history_note(n, edges),
                    {"kind": "big-graph", "n": n, "edges": edges, "seg": seg, "pattern_name": bad[0], "active": bad[1]})
    return list(found.values())


def replay(ctx, data):
    k = data.get("kind")
    if k == "nseg-big":
        bad = _check_big(data["h"], data["w"], [tuple(data["pattern"])])
    elif k == "grid-patterns":
        bad = _check_grid_patterns(data["h"], data["w"], data["seg"], [(data.get("pattern_name"), {tuple(c) for c in data["cells"]})])
    elif k == "nseg-grid":
        bad = _check_grid(data["h"], data["w"])
    elif k == "nadj-grid":
        bad = _check_nadj(data["h"] * data["w"], graphs.grid_edges(data["h"], data["w"]), (data["h"], data["w"]))
    elif k == "nadj-graph":
        bad = _check_nadj(data["n"], [tuple(e) for e in data["edges"]])
    elif k == "big-graph":
        act = set(data["active"] or [])
        bad = _check_graph_patterns(data["n"], [tuple(e) for e in data["edges"]], data["seg"],
                                    [(data.get("pattern_name"), [v in act for v in range(data["n"])])])
    elif k == "nseg-graph":
        bad = _check_nseg_graph(data["n"], [tuple(e) for e in data["edges"]])
    else:
        return None
    return Finding("c08:replay", f"still fails: {bad}", data) if bad else None
