"""Independent printer / evaluator for cspuz expression trees and captured programs."""
import itertools


def pexpr(e):
    from cspuz.expr import BoolVar, IntVar, Expr
    if e is None:
        return "N"
    if e is True:
        return "T"
    if e is False:
        return "F"
    if isinstance(e, int):
        return str(e)
    if isinstance(e, BoolVar):
        return f"b{e.id}"
    if isinstance(e, IntVar):
        return f"i{e.id}"
    if isinstance(e, Expr):
        name = e.op.name.lower()
        if name == "if":
            name = "if"
        return "(" + " ".join([name] + [pexpr(x) for x in e.operands]) + ")"
    return f"<?{type(e).__name__}>"


def pdecl(v):
    from cspuz.expr import BoolVar
    if isinstance(v, BoolVar):
        return "b"
    return f"(i {v.lo} {v.hi})"


def pprog(solver, base=0, cbase=0):
    """The fragment emitted after the first `base` variables / `cbase` constraints."""
    return "(prog (" + " ".join(pdecl(v) for v in solver.variables[base:]) + ")" + "".join(
        " " + pexpr(c) for c in solver.constraints[cbase:]) + ")"


_COMMUTATIVE = {"add", "eq", "ne", "and", "or", "iff", "xor", "alldiff"}
_MIRROR = {"gt": "lt", "ge": "le"}


def norm_expr(t, sort_operands=True):
    """Semantics-preserving normal form used when comparing programs: `a > b` is written `b < a`, and the operands of
    commutative / symmetric operators are sorted (so a rewrite that merely swaps such operands does not count as a difference)."""
    from .core import sx
    if not isinstance(t, list) or not t:
        return t
    op = t[0]
    args = [norm_expr(x, sort_operands) for x in t[1:]]
    if op in _MIRROR and len(args) == 2:
        op, args = _MIRROR[op], [args[1], args[0]]
    if sort_operands and op in _COMMUTATIVE:
        args = sorted(args, key=sx)
    return [op] + args


def canon_prog(text):
    """Sort the constraint multiset (declarations keep their order); constraints in the normal form of norm_expr."""
    from .core import parse_sx, sx
    t = parse_sx(text)
    if not isinstance(t, list) or not t or t[0] != "prog":
        return text
    return sx(["prog", t[1]] + sorted((sx(norm_expr(c)) for c in t[2:])))


# ---------------------------------------------------------------- evaluation of parsed s-expr trees


class IllTyped(Exception):
    pass


def ev(t, asg):
    """Evaluate a parsed s-expression tree under asg: dict name -> bool/int."""
    if isinstance(t, str):
        if t == "T":
            return True
        if t == "F":
            return False
        if t == "N":
            return None
        if t[0] in "bi" and t[1:].isdigit():
            return asg[t]
        return int(t)
    op = t[0]
    a = [ev(x, asg) for x in t[1:]]

    def ints(n=None):
        if any(isinstance(x, bool) or not isinstance(x, int) for x in a) or (n is not None and len(a) != n):
            raise IllTyped(op)
        return a

    def bools(n=None):
        if any(not isinstance(x, bool) for x in a) or (n is not None and len(a) != n):
            raise IllTyped(op)
        return a
    if op == "bool_constant":
        return bools(1)[0]
    if op == "int_constant":
        return ints(1)[0]
    if op == "neg":
        return -ints(1)[0]
    if op == "add":
        if not a:
            raise IllTyped(op)
        return sum(ints())
    if op == "sub":
        if not a:
            raise IllTyped(op)
        r = ints()[0]
        for x in a[1:]:
            r -= x
        return r
    if op == "eq":
        x, y = ints(2)
        return x == y
    if op == "ne":
        x, y = ints(2)
        return x != y
    if op == "le":
        x, y = ints(2)
        return x <= y
    if op == "lt":
        x, y = ints(2)
        return x < y
    if op == "ge":
        x, y = ints(2)
        return x >= y
    if op == "gt":
        x, y = ints(2)
        return x > y
    if op == "not":
        return not bools(1)[0]
    if op == "and":
        return all(bools())
    if op == "or":
        return any(bools())
    if op == "iff":
        x, y = bools(2)
        return x == y
    if op == "xor":
        x, y = bools(2)
        return x != y
    if op == "imp":
        x, y = bools(2)
        return (not x) or y
    if op == "if":
        if len(a) != 3 or not isinstance(a[0], bool):
            raise IllTyped(op)
        c, x, y = a
        if isinstance(x, bool) or isinstance(y, bool) or not isinstance(x, int) or not isinstance(y, int):
            raise IllTyped(op)
        return x if c else y
    if op == "alldiff":
        xs = ints()
        return len(set(xs)) == len(xs)
    if op == "graph_active_vertices_connected":
        n, m = a[0], a[1]
        act = a[2:2 + n]
        es = a[2 + n:]
        edges = [(es[2 * i], es[2 * i + 1]) for i in range(m)]
        return connected([v for v in range(n) if act[v]], [(u, v) for u, v in edges if act[u] and act[v]])
    if op == "graph_division":
        n, m = a[0], a[1]
        sizes = a[2:2 + n]
        es = a[2 + n:2 + n + 2 * m]
        bd = a[2 + n + 2 * m:]
        edges = [(es[2 * i], es[2 * i + 1]) for i in range(m)]
        comp = components(n, [e for i, e in enumerate(edges) if not bd[i]])
        for i, (u, v) in enumerate(edges):
            if bd[i] and comp[u] == comp[v]:
                return False
        for v in range(n):
            if sizes[v] is not None and sum(1 for u in range(n) if comp[u] == comp[v]) != sizes[v]:
                return False
        return True
    raise IllTyped("unknown op " + op)


def components(n, edges):
    p = list(range(n))

    def f(x):
        while p[x] != x:
            p[x] = p[p[x]]
            x = p[x]
        return x
    for u, v in edges:
        p[f(u)] = f(v)
    return [f(v) for v in range(n)]


def connected(verts, edges):
    if not verts:
        return True
    vs = sorted(set(verts))
    idx = {v: i for i, v in enumerate(vs)}
    comp = components(len(vs), [(idx[u], idx[v]) for u, v in edges if u in idx and v in idx])
    return len(set(comp)) == 1


def parse_prog(text):
    from .core import parse_sx
    t = parse_sx(text)
    assert t[0] == "prog"
    return t[1], t[2:]


def brute_sat(decls, cs, base, fixed, limit=3_000_000):
    """Is there an assignment of the aux variables (ids base, base+1, ... with the given decls) that makes every
    constraint true, given the caller's variables `fixed` (dict name->value)?  Pure enumeration with early pruning by
    constraint order; returns (bool, witness or None)."""
    names = []
    doms = []
    for k, d in enumerate(decls):
        if d == "b":
            names.append(f"b{base + k}")
            doms.append([False, True])
        else:
            names.append(f"i{base + k}")
            doms.append(list(range(int(d[1]), int(d[2]) + 1)))
    total = 1
    for d in doms:
        total *= len(d)
        if total > limit:
            raise OverflowError("search space too large for brute force")
    for combo in itertools.product(*doms):
        asg = dict(fixed)
        asg.update(zip(names, combo))
        ok = True
        for c in cs:
            if ev(c, asg) is not True:
                ok = False
                break
        if ok:
            return True, asg
    return False, None


# ---------------------------------------------------------------- own z3 translation (independent of cspuz.backend.z3)


class Unknown(Exception):
    """z3 gave up within the time limit asked for (neither a model nor a refutation)."""


def z3_solve(decls, cs, base, fixed, want_all=False, extra=None, timeout_ms=None):
    """Satisfiability of the program over aux vars by z3 with the harness's own translation.
    Returns model dict or None.  With `timeout_ms` (used for LARGE instances only) an undecided query raises Unknown."""
    import z3
    var = {}
    s = z3.Solver()
    if timeout_ms:
        s.set("timeout", int(timeout_ms))
    for k, d in enumerate(decls):
        if d == "b":
            var[f"b{base + k}"] = z3.Bool(f"b{base + k}")
        else:
            x = z3.Int(f"i{base + k}")
            var[f"i{base + k}"] = x
            s.add(x >= int(d[1]), x <= int(d[2]))
    for k, v in fixed.items():
        var[k] = z3.BoolVal(v) if isinstance(v, bool) else z3.IntVal(v)

    def tr(t):
        if isinstance(t, str):
            if t == "T":
                return z3.BoolVal(True)
            if t == "F":
                return z3.BoolVal(False)
            if t[0] in "bi" and t[1:].isdigit():
                return var[t]
            return z3.IntVal(int(t))
        op = t[0]
        a = [tr(x) for x in t[1:]]
        if op in ("bool_constant", "int_constant"):
            return a[0]
        if op == "neg":
            return -a[0]
        if op == "add":
            r = a[0]
            for x in a[1:]:
                r = r + x
            return r
        if op == "sub":
            r = a[0]
            for x in a[1:]:
                r = r - x
            return r
        if op == "eq":
            return a[0] == a[1]
        if op == "ne":
            return a[0] != a[1]
        if op == "le":
            return a[0] <= a[1]
        if op == "lt":
            return a[0] < a[1]
        if op == "ge":
            return a[0] >= a[1]
        if op == "gt":
            return a[0] > a[1]
        if op == "not":
            return z3.Not(a[0])
        if op == "and":
            return z3.And(a) if a else z3.BoolVal(True)
        if op == "or":
            return z3.Or(a) if a else z3.BoolVal(False)
        if op == "iff":
            return a[0] == a[1]
        if op == "xor":
            return z3.Xor(a[0], a[1])
        if op == "imp":
            return z3.Implies(a[0], a[1])
        if op == "if":
            return z3.If(a[0], a[1], a[2])
        if op == "alldiff":
            return z3.Distinct(a) if len(a) > 1 else z3.BoolVal(True)
        raise NotImplementedError(op)
    for c in cs:
        s.add(tr(c))
    if extra is not None:
        s.add(extra(var))
    res = s.check()
    if res == z3.unknown and timeout_ms:
        raise Unknown("z3: %s" % s.reason_unknown())
    if res != z3.sat:
        return None
    m = s.model()
    out = dict(fixed)
    for k, v in var.items():
        if k in fixed:
            continue
        val = m.eval(v, model_completion=True)
        out[k] = z3.is_true(val) if k[0] == "b" else val.as_long()
    return out


def has_native(cs):
    def walk(t):
        if isinstance(t, list):
            if t and t[0] in ("graph_active_vertices_connected", "graph_division"):
                return True
            return any(walk(x) for x in t[1:])
        return False
    return any(walk(c) for c in cs)


def solve_prog(decls, cs, base, fixed, timeout_ms=None):
    """Model of the aux variables or None.  Programs with native graph operators go through brute force
    (their semantics is implemented by `ev`), the others through z3 (`timeout_ms`: see z3_solve)."""
    if has_native(cs):
        # performance: a native operator all of whose arguments are decided by `fixed` (the usual case: its arguments are the caller's
        # variables) is evaluated directly by `ev`; what is left has no native operator and goes to z3.  Otherwise brute force.
        nat = [c for c in cs if has_native([c])]
        if all(_closed(c, fixed) for c in nat):
            if any(ev(c, fixed) is not True for c in nat):
                return None
            return z3_solve(decls, [c for c in cs if not has_native([c])], base, fixed, timeout_ms=timeout_ms)
        ok, w = brute_sat(decls, cs, base, fixed)
        return w if ok else None
    return z3_solve(decls, cs, base, fixed, timeout_ms=timeout_ms)


def _closed(t, fixed):
    """every variable of the tree has a value in `fixed`"""
    if isinstance(t, str):
        return not (t[0] in "bi" and t[1:].isdigit()) or t in fixed
    return all(_closed(x, fixed) for x in t[1:])


def brute_models(decls, cs, base, fixed, limit=2_000_000):
    """All models of the aux variables (generator)."""
    names, doms = [], []
    for k, d in enumerate(decls):
        if d == "b":
            names.append(f"b{base + k}")
            doms.append([False, True])
        else:
            names.append(f"i{base + k}")
            doms.append(list(range(int(d[1]), int(d[2]) + 1)))
    total = 1
    for d in doms:
        total *= len(d)
        if total > limit:
            raise OverflowError("search space too large for brute force")
    for combo in itertools.product(*doms):
        asg = dict(fixed)
        asg.update(zip(names, combo))
        if all(ev(c, asg) is True for c in cs):
            yield asg


def forced_values(decls, cs, base, fixed, names):
    """(satisfiable, {name: value or None if not forced}) for the listed aux variable names."""
    if has_native(cs):
        vals = None
        for m in brute_models(decls, cs, base, fixed):
            if vals is None:
                vals = {k: m[k] for k in names}
            else:
                for k in names:
                    if vals[k] is not None and vals[k] != m[k]:
                        vals[k] = None
        return (vals is not None), (vals or {})
    m = z3_solve(decls, cs, base, fixed)
    if m is None:
        return False, {}
    import z3
    vals = {}
    for k in names:
        v = m[k]

        def differs(var, k=k, v=v):
            return var[k] != (z3.BoolVal(v) if isinstance(v, bool) else z3.IntVal(v))
        m2 = z3_solve(decls, cs, base, fixed, extra=differs)
        vals[k] = v if m2 is None else None
    return True, vals


def build_session(decls, constraints, keys=None, posts=None):
    """Rebuild a real Solver from printed declarations / constraints (used by replays).  With `posts` (a list of
    [ensure form, [printed items]] as recorded by dslgen.post) the constraints are posted through the real `ensure` in the
    recorded argument form instead of being appended directly."""
    from cspuz import Solver
    from cspuz.expr import BoolExpr, IntExpr, Op
    from .core import parse_sx
    s = Solver()
    vs = []
    for d in decls:
        t = parse_sx(d) if isinstance(d, str) else d
        if t == "b":
            vs.append(s.bool_var())
        else:
            vs.append(s.int_var(int(t[1]), int(t[2])))
    names = {o.name.lower(): o for o in Op}
    int_ops = {"int_constant", "neg", "add", "sub", "if"}

    def mk(t):
        if isinstance(t, str):
            if t == "T":
                return True
            if t == "F":
                return False
            if t == "N":
                return None
            if t[0] in "bi" and t[1:].isdigit():
                return vs[int(t[1:])]
            return int(t)
        ops = [mk(x) for x in t[1:]]
        op = names[t[0]]
        return (IntExpr if t[0] in int_ops else BoolExpr)(op, ops)
    if posts is not None:
        for form, texts in posts:
            items = [mk(parse_sx(t)) for t in texts]
            if form == -1:
                s.ensure(items[0])
            elif form == 0:
                s.ensure([items[0], items[1:]])
            elif form == 1:
                s.ensure((items[0], tuple(items[1:])))
            elif form == 2:
                s.ensure(*items)
            elif form == 3:
                s.ensure(x for x in items)
            elif form == 4:
                s.ensure(iter(items))
            elif form == 5:
                s.ensure(map(lambda x: x, items))
            else:
                s.ensure([items[0], (x for x in items[1:])])
    else:
        for c in constraints:
            s.constraints.append(mk(parse_sx(c)))
    if keys:
        for i, k in enumerate(keys):
            if k:
                s.add_answer_key(vs[i])
    return s


def alpha_canon(prog_tree, base, extra=None):
    """Canonical form of a program fragment UP TO A RENAMING OF ITS AUXILIARY VARIABLES (ids >= base): auxiliaries are renamed in
    order of first occurrence while walking the constraints in emission order (then unused ones in declaration order), each new
    name carrying its declaration; constraints are then sorted.  Two fragments with equal alpha-canonical forms are the same program
    up to a bijective renaming of hidden variables that preserves domains -- which changes nothing for realizability.
    `extra` (e.g. the list of returned variables) is renamed alongside."""
    from .core import sx
    decls, cs = prog_tree[1], prog_tree[2:]
    ren = {}

    def is_aux(a):
        return isinstance(a, str) and len(a) > 1 and a[0] in "bi" and a[1:].isdigit() and int(a[1:]) >= base

    def name(a):
        if a not in ren:
            k = int(a[1:]) - base
            d = decls[k] if 0 <= k < len(decls) else "?"
            ren[a] = "%s%d:%s" % (a[0].upper(), len(ren), sx(d))
        return ren[a]

    def walk(t):
        if isinstance(t, list):
            return [walk(x) for x in t]
        return name(t) if is_aux(t) else t
    cs2 = [norm_expr(walk(norm_expr(c, sort_operands=False))) for c in cs]
    ex2 = walk(extra) if extra is not None else None
    unused = []
    for k, d in enumerate(decls):
        for pre in ("b", "i"):
            a = "%s%d" % (pre, base + k)
            if ((d == "b") == (pre == "b")) and a not in ren:
                unused.append(sx(d))
    return sx(["prog-alpha", sorted(sx(c) for c in cs2), sorted(unused), ex2])
