"""C15 — Serializer combinators round-trip every value they accept."""
import itertools

from . import core, sergen
from . import sercommon as sc
from .core import Finding

THEOREMS = [
    "Cspuz.C15.C15_leaves_local",
    "Cspuz.C15.C15_composition",
    "Cspuz.C15.C15_roundtrip",
    "Cspuz.C15.C15_seq_terminates",
    "Cspuz.C15.C15_borders_roundtrip",
    "Cspuz.C15.C15_rooms",
    "Cspuz.C15.C15_valued_rooms",
    "Cspuz.C15.C15_puzzles_wf",
    "Cspuz.C15.C15_wf_ctorOk",
]


def gen(ctx):
    sergen.gen_all()


# ---------------------------------------------------------------------------------------------- correspondence

def _env(h, w):
    from cspuz.problem_serializer import CombinatorEnv
    return CombinatorEnv(height=h, width=w)


def _dims(rng):
    r = rng.random()
    if r < 0.25:
        return (1, rng.randint(1, 5)) if rng.random() < 0.5 else (rng.randint(1, 5), 1)
    if r < 0.32:
        return (1, 1)
    if r < 0.36:
        return rng.choice([(0, 0), (0, 2), (2, 0)])
    return (rng.randint(1, 4), rng.randint(1, 4))


def _leaf_sweeps():
    """(ast, data) pairs covering every leaf systematically."""
    out = []
    out.append((("hexint",), list(range(-2, 20)) + [254, 255, 256, 257, 4094, 4095, 4096, 4097]))
    out.append((("decint",), [0, 1, 9, 10, 11, 99, 100, 4095, 10 ** 20, -1, 10 ** 4299, 10 ** 4300 - 1, 10 ** 4300]))
    for sm in "0123456789abcdefghijklmnopqrstuvwxyz":
        maxc = 35 - (int(sm, 36) - 1)
        out.append((("spaces", 0, sm), [0] * (maxc + 2) + [1] + [0] * 2))
    for mi in range(0, 9):
        for ms in range(0, 36 // (mi + 1)):
            if (mi + 1) * (ms + 1) <= 36:
                out.append((("intspaces", -1, mi, ms), [mi] + [-1] * (ms + 1) + [0, -1, mi + 1, -1, -1]))
    for b in range(1, 7):
        for d in range(0, 7):
            if b ** d <= 36:
                out.append((("multidigit", b, d), [(i * 7 + 3) % max(b, 1) for i in range(2 * d + 1)] + [b]))
    out.append((("dict", [1, 2, "x", None, True], ["x", "y", "xy", "", "q"]), [1, 2, 3, "x", None, True, False, 1]))
    out.append((("fixstr", "foo"), [1, 2]))
    out.append((("yajilin",), ["..", "??", "^0", "v9", "<10", ">15", "^16", "v255", "<256", "x3", "^", 7]))
    return out


# Alternatives of different VALUE KINDS with pairwise different leading characters where possible (ast, kind).
MIXED_LIB = [
    (("dict", [None], ["."]), "scalar"),
    (("dict", [-1, "wall"], ["_", "A"]), "scalar"),
    (("spaces", 0, "g"), "scalar"),
    (("hexint",), "scalar"),
    (("dict", [((0,), (1,)), ((1,), (0,))], ["X", "Y"]), "tuple-table"),
    (("dict", [[0, 0], [0, 1]], ["P", "Q"]), "list-table"),
    (("tupl", [("hexint",), ("hexint",)]), "tupl"),
    (("tupl", [("fixstr", "/"), ("hexint",), ("seq", ("hexint",), 1)]), "tupl"),
    (("tupl", [("dict", ["a"], ["T"]), ("seq", ("hexint",), 2)]), "tupl"),
    (("seq", ("hexint",), 2), "seq"),
    (("seq", ("dict", [1, 2], ["K", "L"]), 2), "seq"),
    (("seq", ("tupl", [("fixstr", ":"), ("hexint",)]), 2), "seq"),
    (("grid", ("hexint",), (1, 2)), "grid"),
    (("grid", ("dict", [7, 8], ["W", "V"]), (2, 1)), "grid"),
]

# (term, h, w, value, expected): the smallest inputs of earlier findings, run first
CORPUS = [
    (("seq", ("oneof", [("dict", [None], ["."]), ("tupl", [("hexint",), ("hexint",)])]), 4), 1, 1,
     [([1], [2]), None, None, ([30], [300])], [([1], [2]), None, None, ([30], [300])]),
    (("oneof", [("dict", [-1], ["x"]), ("seq", ("hexint",), 2)]), 1, 1, [1, 2], [1, 2]),
    (("oneof", [("dict", [-1], ["x"]), ("seq", ("hexint",), 2)]), 1, 1, -1, -1),
    (("seq", ("dict", [[0, 0], [0, 1]], ["a", "b"]), 3), 1, 1, [[0, 1], [0, 0], [0, 1]], [[0, 1], [0, 0], [0, 1]]),
    (("grid", ("oneof", [("dict", [0], ["."]), ("grid", ("hexint",), (1, 2))]), None), 2, 1, [[0], [[[5, 255]]]], [[0], [[[5, 255]]]]),
]


def _empty_family():
    """Deterministic (ast, h, w, value): Seq / Grid (and Tupl / ValuedRooms around them) over ELEMENTS WHOSE ENCODING IS THE
    EMPTY STRING - a zero-length Seq, a Grid with a zero dimension, Rooms on the 1x1 board, the empty Tupl, a Tupl of those -
    one and two levels deep.  Each value is built next to its term from what the combinators are documented to take (Seq: a
    list of n items; Grid: rows; Tupl: one run of items per element; Rooms: canonical rooms), so it is also the expected
    result of the round trip."""
    room = [[(0, 0)]]
    E = [
        (("seq", ("hexint",), 0), lambda: []),
        (("grid", ("hexint",), (2, 0)), lambda: [[], []]),
        (("grid", ("hexint",), (0, 3)), lambda: []),
        (("grid", ("decint",), (0, 0)), lambda: []),
        (("rooms", False, False), lambda: [list(r) for r in room]),
        (("rooms", True, False), lambda: [list(r) for r in room]),
        (("tupl", []), lambda: ()),
        (("tupl", [("seq", ("hexint",), 0), ("grid", ("hexint",), (2, 0))]), lambda: ([[]], [[[], []]])),
        (("tupl", [("rooms", False, False), ("fixstr", ""), ("seq", ("decint",), 0)]), lambda: ([[list(r) for r in room]], [], [[]])),
        (("vrooms", ("seq", ("hexint",), 0), False, False), lambda: ([list(r) for r in room], [[]])),
    ]

    def over(elem, outer):
        """(ast, value) of the outer shapes over one (ast, make-value) element"""
        e, mk = elem
        out = []
        for n in (1, 2, 3):
            out.append((("seq", e, n), (lambda n=n: [mk() for _ in range(n)])))
        for (gh, gw) in ((1, 1), (1, 2), (2, 1), (2, 2)):
            out.append((("grid", e, (gh, gw)), (lambda gh=gh, gw=gw: [[mk() for _ in range(gw)] for _ in range(gh)])))
        if outer:
            out.append((("grid", e, None), (lambda: [[mk()]])))                       # board dimensions: 1 x 1
            out.append((("tupl", [("hexint",), ("seq", e, 2), ("hexint",)]), (lambda: ([5], [[mk(), mk()]], [200]))))
            out.append((("tupl", [("seq", e, 1), ("fixstr", "/"), ("grid", e, (1, 2))]), (lambda: ([[mk()]], [], [[[mk(), mk()]]]))))
            out.append((("vrooms", ("seq", e, 2), False, False), (lambda: ([list(r) for r in room], [[mk(), mk()]]))))
        return out

    fam = []
    for elem in E:
        for one in over(elem, True):
            fam.append((one[0], 1, 1, one[1]()))
            if one[0][0] in ("seq", "grid") and one[0][2] in (2, (1, 2), (2, 1)):
                for two in over(one, False):
                    fam.append((two[0], 1, 1, two[1]()))
    return fam


def _dedupe(vs):
    out = []
    for v in vs:
        if not any(_canon_typed(v) == _canon_typed(u) for u in out):
            out.append(v)
    return out


def _pool(ast, h, w):
    """A few single items (values) the term accepts, by construction from what each combinator is documented to take."""
    k = ast[0]
    if k == "dict":
        return list(ast[1])
    if k == "spaces":
        return [ast[1]]
    if k == "hexint":
        return [1, 16, 300]
    if k == "decint":
        return [7, 12345]
    if k == "oneof":
        return _dedupe([v for a in ast[1] for v in _pool(a, h, w)])
    if k == "tupl":
        runs = [[[]] if e[0] == "fixstr" else [[x] for x in _pool(e, h, w)] for e in ast[1]]
        return _dedupe([tuple(r[0] for r in runs), tuple(r[-1] for r in runs), tuple(r[len(r) // 2] for r in runs)])
    if k in ("seq", "grid"):
        items = _pool(ast[1], h, w)
        gh, gw = (1, ast[2]) if k == "seq" else (ast[2] if ast[2] is not None else (h, w))
        flats = _dedupe([[items[(i + s) % len(items)] for i in range(gh * gw)] for s in range(min(3, len(items)))])
        if k == "seq":
            return flats
        return [[f[y * gw:(y + 1) * gw] for y in range(gh)] for f in flats]
    raise ValueError(ast)


def _mutable_leaf(ast):
    """does a table of the term itself (Dict `before`, the Spaces value) hold a mutable value?"""
    def mutable(v):
        return isinstance(v, (list, dict, set)) or (isinstance(v, tuple) and any(mutable(x) for x in v))
    k = ast[0]
    if k == "dict":
        return any(mutable(v) for v in ast[1])
    if k in ("spaces", "intspaces"):
        return mutable(ast[1])
    if k in ("oneof", "tupl"):
        return any(_mutable_leaf(a) for a in ast[1])
    if k in ("seq", "grid", "vrooms"):
        return _mutable_leaf(ast[1])
    return False


def _ser_case(obj, env, data, idx, secs):
    return sc.run_guarded(lambda: obj.serialize(env, data, idx), secs)


def _de_case(obj, env, text, idx, secs):
    return sc.run_guarded(lambda: obj.deserialize(env, text, idx), secs)


def correspond(ctx):
    ctx.extra["rule"] = (
        "random combinator TERMS (depth<=3 over FixStr, Dict, Spaces, DecInt, HexInt, IntSpaces, MultiDigit, OneOf, Tupl, Seq, "
        "Grid with/without explicit dims, Rooms, ValuedRooms, YajilinClue) with data lists built from runs each "
        "alternative can consume (run lengths around the 1-character limit, 15/16/255/256/4095/4096, partial digit groups, "
        "1xN / Nx1 / 1x1 / zero boards, permuted rooms and cells; ~15% deliberately malformed) -> serialize at every idx and "
        "serialize_problem on the real classes vs the Lean model; every produced text is then decoded in a context "
        "pre+text+rest at every start index, real vs model, outcome kinds (value / None / exception class / non-termination) "
        "included; plus systematic sweeps of every leaf; plus OneOf terms over alternatives of DIFFERENT VALUE KINDS (scalar tables, "
        "tables of tuples / of lists, Spaces, HexInt next to Tupl / Seq / Grid alternatives with different leading characters; every "
        "ordered pair of a fixed library, and random ones bare or under Seq / Grid / Tupl / ValuedRooms) with values of every "
        "alternative; Dict constructors with tuple- and list-valued tables; after every successful decode at index 0 the result "
        "is edited in place and the same text decoded again (separate calls, separate results). non-trivial+distinct = (term, data, idx) with a produced text, or "
        "(term, text, idx) with decoded items")
    ctx.extra["assumptions"] = [sc.PATCH_NOTES]
    rng = ctx.rng
    drv = core.Driver()
    cases = []   # (ast, obj, sx, h, w, data)
    for ast, data in _leaf_sweeps():
        obj = sc.build(ast)
        cases.append((ast, obj, sc.comb_sx(obj), 1, 1, data))
    def built(ast):
        """the live object, or None (a constructor that raises anything but its documented ValueError is a difference from the
        model, whose constructors are total on these terms)"""
        o = sc.run_guarded(lambda: sc.build(ast), 5)
        if o[0] == "ret":
            return o[1]
        if o != ("err", "ValueError"):
            ctx.disagree("constructor-model-vs-code", term=sc.term_py(ast), real=str(o), model="constructs")
        ctx.count("constructor-rejected")
        return None

    for ast, h, w, v, _exp in CORPUS:
        obj = built(ast)
        if obj is not None:
            cases.append((ast, obj, sc.comb_sx(obj), h, w, [v]))
    # deterministic: Seq / Grid over elements whose encoding is the empty string (one and two levels)
    for ast, h, w, v in _empty_family():
        obj = built(ast)
        if obj is not None:
            ctx.count("empty-encoding-element-term")
            cases.append((ast, obj, sc.comb_sx(obj), h, w, [v]))
    # deterministic: every ordered pair of alternatives of different value kinds, every value of both handed to the pair
    for a, ka in MIXED_LIB:
        for b, kb in MIXED_LIB:
            if a is not b and not (ka == "scalar" and kb == "scalar"):
                ast = ("oneof", [a, b])
                obj = built(ast)
                if obj is not None:
                    cases.append((ast, obj, sc.comb_sx(obj), 2, 2, _pool(a, 2, 2)[:2] + _pool(b, 2, 2)[:2]))
    n_random = ctx.n(10000, 80000)
    n_mixed = ctx.n(1500, 12000)
    for i in range(n_random + n_mixed):
        if i < n_random:
            ast = sc.gen_any_term(rng, rng.choice([1, 2, 2, 3]), mixed="any")
        else:
            # OneOf over alternatives of different value kinds (scalar / tuple / list / rows), values from every alternative
            ast = sc.gen_mixed_term(rng, rng.choice([0, 1, 1, 2]))
            ctx.count("mixed-kind-oneof-term")
        obj = built(ast)
        if obj is None:
            continue
        h, w = _dims(rng)
        data = []
        for _ in range(rng.choice([1, 1, 2, 3])):
            data += sc.sample_run(rng, ast, h, w, bad=rng.choice([0.0, 0.0, 0.15, 0.4] if i < n_random else [0.0, 0.0, 0.0, 0.15]))
        cases.append((ast, obj, sc.comb_sx(obj), h, w, data))
    # --- serialize
    ops, lines = [], []
    for ci, (ast, obj, sx, h, w, data) in enumerate(cases):
        try:
            dsx = sc.vals_sx(data)
        except TypeError:
            continue
        for idx in range(len(data) + 1):
            ops.append(("ser", ci, idx))
            lines.append("(ser %s %s %d %d %d)" % (sx, dsx, idx, h, w))
        if data:
            ops.append(("serp", ci, 0))
            lines.append("(serp %s %s %d %d)" % (sx, sc.val_sx(data[0]), h, w))
    outs = drv.run(lines)
    texts = []
    for (kind, ci, idx), mo in zip(ops, outs):
        ast, obj, sx, h, w, data = cases[ci]
        dsx = sc.vals_sx(data)
        secs = 0.25 if mo == "diverge" else 20
        if kind == "ser":
            ro = sc.ser_outcome(_ser_case(obj, _env(h, w), data, idx, secs))
        else:
            from cspuz.problem_serializer import serialize_problem
            ro = sc.str_outcome(sc.run_guarded(lambda: serialize_problem(obj, data[0], height=h, width=w), secs))
        ctx.count(kind + ":" + (ro.split()[0].strip("()") if not ro.startswith("(err") else ro.strip("()").replace(" ", ":")))
        ctx.count("term:" + ast[0])
        nt = ro.startswith("(ok")
        ctx.case({"op": kind, "term": sx, "data": dsx[:300], "idx": idx, "h": h, "w": w, "real": ro[:300]},
                 (kind, sx, dsx, idx, h, w) if nt else None)
        if ro != mo:
            ctx.disagree("serialize-model-vs-code", op=kind, term=sx, data=dsx[:3000], idx=idx, h=h, w=w, real=ro[:3000], model=mo[:3000])
        if kind == "ser" and nt:
            r = _ser_case(obj, _env(h, w), data, idx, 20)[1]
            texts.append((ci, r[1]))
    # --- deserialize what was produced, in context
    ops, lines = [], []
    seen = set()
    for ci, t in texts:
        ast, obj, sx, h, w, data = cases[ci]
        key = (sx, t, h, w)
        if key in seen:
            continue
        seen.add(key)
        ctxs = [("", "")]
        if rng.random() < 0.5:
            ctxs.append((rng.choice(["", "x", "9-", "A"]), rng.choice(["", "0", "z", "-", "7+", ".", "٣", "/", "A", "Fg", "_"])))
        for pre, rest in ctxs:
            s = pre + t + rest
            starts = {len(pre)} | ({rng.randint(0, len(s))} if rng.random() < 0.3 else set())
            if len(s) <= 6:
                starts |= set(range(len(s) + 1))
            for idx in sorted(starts):
                ops.append((ci, s, idx))
                lines.append("(de %s %s %d %d %d)" % (sx, sc.cps(s), idx, h, w))
    outs = drv.run(lines)
    for (ci, s, idx), mo in zip(ops, outs):
        ast, obj, sx, h, w, data = cases[ci]
        ro = sc.de_outcome(_de_case(obj, _env(h, w), s, idx, 0.25 if mo == "diverge" else 20))
        ctx.count("de:" + (ro.split()[0].strip("()") if not ro.startswith("(err") else ro.strip("()").replace(" ", ":")))
        ctx.case({"op": "de", "term": sx, "text": s, "idx": idx, "h": h, "w": w, "real": ro[:300]},
                 ("de", sx, s, idx, h, w) if ro.startswith("(ok") else None)
        if ro != mo:
            ctx.disagree("deserialize-model-vs-code", term=sx, text=s, idx=idx, h=h, w=w, real=ro, model=mo)
        if ro.startswith("(ok") and idx == 0 and not _mutable_leaf(ast):
            # separate calls, separate results: the caller edits what the first decode returned, the second decode of the
            # same text is unaffected (terms whose own tables hold mutable values hand those out by design: not probed)
            ctx.count("alias-probe")
            bad = sc.alias_probe(lambda: obj.deserialize(_env(h, w), s, 0), 20)
            if bad:
                sig = "deserialize:result-shared-between-calls"
                what = "%s.deserialize(env(%d,%d), %r, 0): %s" % (sc.term_py(ast), h, w, s, bad[:900])
                ctx.disagree("property:" + sig, what=what)
                if not hasattr(ctx, "concrete"):
                    ctx.concrete = []
                if not ctx.concrete:
                    ctx.concrete.append(Finding(sig, what, {"kind": "alias", "term": sc.term_py(ast), "text": s, "h": h, "w": w, "sig": sig}))
    # --- the constructors' own parameter checks, at and beyond their limits (a constructor that accepts more builds
    # combinators that cannot round-trip; one that accepts less rejects codecs the theorems cover)
    import cspuz.problem_serializer as ps
    ctor_cases = []
    for mi in range(0, 37):
        for ms in (0, 1, 2, 3, 5, 8, 11, 17, 35, 36):
            ctor_cases.append(("(intspaces (i -1) %d %d)" % (mi, ms), lambda mi=mi, ms=ms: ps.IntSpaces(-1, mi, ms)))
    for b in range(0, 38):
        for d in range(0, 7):
            ctor_cases.append(("(multidigit %d %d)" % (b, d), lambda b=b, d=d: ps.MultiDigit(b, d)))
    for nb in range(0, 4):
        for na in range(0, 4):
            ctor_cases.append(("(dict (%s) (%s))" % (" ".join("(i %d)" % i for i in range(nb)), " ".join("(%d)" % (97 + i) for i in range(na))),
                               lambda nb=nb, na=na: ps.Dict(list(range(nb)), [chr(97 + i) for i in range(na)])))
    for before in ([[0, 0], [0, 1]], [(0, 0), (0, 1)], [[], ()], [([1], [2]), None], [[[1]], [[1]]], [None, [None]]):
        ctor_cases.append(("(dict %s ((97) (98)))" % sc.vals_sx(before), lambda before=before: ps.Dict([x for x in before], ["a", "b"])))
    outs = drv.run(["(ctor %s)" % t for t, _ in ctor_cases])
    for (t, mk), mo in zip(ctor_cases, outs):
        o = sc.run_guarded(mk, 5)
        real = "(ok T)" if o[0] == "ret" else ("(ok F)" if o == ("err", "ValueError") else "(err %s)" % (o[1] if o[0] == "err" else "diverge"))
        ctx.count("ctor:" + real)
        ctx.case({"op": "constructor", "term": t, "real": real}, ("ctor", t) if real == "(ok T)" else None)
        if real != mo:
            ctx.disagree("constructor-model-vs-code", term=t, real=real, model=mo)
    # --- regenerated puzzle table agrees with the live objects (tie of Gen/PuzzleCombinators.lean)
    sc.check_puzzle_table(ctx, drv, sc.puzzle_objects())


# ---------------------------------------------------------------------------------------------- search (real code only)

def _roundtrip(obj, v, h, w):
    """Independent oracle from the property text.  Returns None if fine, else (kind, detail)."""
    from cspuz.problem_serializer import serialize_problem
    o = sc.run_guarded(lambda: serialize_problem(obj, v, height=h, width=w), 10)
    if o[0] != "ret":
        return ("not-serialized", "serialize_problem: " + (o[1] if o[0] == "err" else "does not terminate"))
    t = o[1]
    o = sc.run_guarded(lambda: obj.deserialize(_env(h, w), t, 0), 10)
    if o[0] != "ret":
        return ("not-decoded", "text %r: deserialize: %s" % (t, o[1] if o[0] == "err" else "does not terminate"))
    r = o[1]
    if r is None:
        return ("not-decoded", "text %r: deserialize returned None" % (t,))
    if r[0] != len(t):
        return ("consumed", "text %r: consumed %d of %d characters" % (t, r[0], len(t)))
    return (r[1], t)


def _canon_typed(v):
    """tuples and lists stay distinct; bool vs int distinct"""
    if isinstance(v, (list, tuple)):
        return (type(v).__name__, tuple(_canon_typed(x) for x in v))
    return (type(v).__name__, v)


def _check_value(found, sig, obj, term, v, expect, h, w, mutable_tables=False):
    if sig in found:
        return
    r = _roundtrip(obj, v, h, w)
    if isinstance(r[0], str):
        found[sig] = Finding(sig, "%s on a %dx%d board: value %r: %s" % (term, h, w, v, r[1]),
                             {"kind": "roundtrip", "term": term, "value": repr(v), "expect": repr(expect), "h": h, "w": w, "sig": sig})
        return
    got = r[0]
    if _canon_typed(got) != _canon_typed([expect]):
        found[sig] = Finding(sig, "%s on a %dx%d board: value %r encodes to %r which decodes to %r (expected %r)"
                             % (term, h, w, v, r[1], got[0] if len(got) == 1 else got, expect),
                             {"kind": "roundtrip", "term": term, "value": repr(v), "expect": repr(expect), "h": h, "w": w, "sig": sig})
        return
    # ... on every decode: the caller edits what the first decode returned, the second decode of the same text is unaffected
    asig = "deserialize:result-shared-between-calls"
    if asig not in found and not mutable_tables:
        text = r[1]
        bad = sc.alias_probe(lambda: obj.deserialize(_env(h, w), text, 0), 10)
        if bad:
            found[asig] = Finding(asig, "%s.deserialize(env(%d,%d), %r, 0): %s" % (term, h, w, text, bad[:900]),
                                  {"kind": "alias", "term": term, "text": text, "h": h, "w": w, "sig": asig})


def _terms():
    import cspuz.problem_serializer as ps
    return {
        "Rooms()": lambda: ps.Rooms(),
        "ValuedRooms(HexInt())": lambda: ps.ValuedRooms(ps.HexInt()),
        "Seq(OneOf(Spaces(0,'g'),HexInt()),n)": lambda n: ps.Seq(ps.OneOf(ps.Spaces(0, "g"), ps.HexInt()), n),
    }


def _rooms_sig(h, w):
    if h == 1 and w == 1:
        return "rooms:1x1-board"
    if h == 1 or w == 1:
        return "rooms:single-row-or-column-board"
    return "rooms:roundtrip"


def _built(found, ast):
    """the live object of a term every constructor argument of which is valid; a constructor that raises is a finding"""
    o = sc.run_guarded(lambda: sc.build(ast), 5)
    if o[0] == "ret":
        return o[1]
    sig = "constructor:raises-on-valid-arguments"
    if sig not in found:
        found[sig] = Finding(sig, "%s cannot be constructed: %s" % (sc.term_py(ast), o[1] if o[0] == "err" else "does not return"),
                             {"kind": "ctor", "term": sc.term_py(ast), "sig": sig})
    return None


def _check_term(found, sig, ast, v, expect, h, w):
    obj = _built(found, ast)
    if obj is not None:
        _check_value(found, sig, obj, sc.term_py(ast), v, expect, h, w, _mutable_leaf(ast))


def _mixed_ok(alts):
    """alternatives (ast, kind) in this order form a OneOf inside the property: leading characters pairwise different, and no
    alternative is handed a foreign value its documented argument types exclude (Grid indexes rows: nothing list-valued after
    a Grid, one Grid at most; a table of tuples in front of the Tupl alternatives)"""
    used = set()
    for i, (a, k) in enumerate(alts):
        l = sc.lead_chars(a)
        if l is None or (l & used):
            return False
        used |= l
        later = [k2 for _, k2 in alts[i + 1:]]
        if k == "grid" and any(k2 in ("grid", "seq", "list-table") for k2 in later):
            return False
        if k == "tupl" and "tuple-table" in later:
            return False
    return True


def _mixed_values(alts, n, rng=None, limit=None):
    """lists of n items drawn from the pools of ALL alternatives (every combination, or `limit` random ones)"""
    pool = _dedupe([v for a, _ in alts for v in _pool(a, 2, 2)[:2]])
    if rng is None:
        return [list(t) for t in itertools.product(pool, repeat=n)]
    return [[rng.choice(pool) for _ in range(n)] for _ in range(limit)]


def _search_mixed(found, rng):
    import cspuz.problem_serializer as ps
    sig = "oneof:mixed-value-kinds"
    combos = [list(c) for c in itertools.permutations(MIXED_LIB, 2)]
    triples = [list(c) for c in itertools.permutations(MIXED_LIB, 3)]
    rng.shuffle(triples)
    combos += triples[:400]
    quads = [rng.sample(MIXED_LIB, 4) for _ in range(300)]
    combos += quads
    for alts in combos:
        if sig in found:
            return
        if all(k == "scalar" for _, k in alts) or not _mixed_ok(alts):
            continue
        one = ("oneof", [a for a, _ in alts])
        small = len(alts) == 2
        # the bare OneOf, one value of each alternative
        for v in _mixed_values(alts, 1):
            _check_term(found, sig, one, v[0], v[0], 2, 2)
        # as the base of Seq: every sequence of values of all alternatives (pairs), random ones (larger OneOfs)
        for n in (1, 2, 3) if small else (2, 4):
            ast = ("seq", one, n)
            for v in (_mixed_values(alts, n) if small and n <= 2 else _mixed_values(alts, n, rng, 12)):
                _check_term(found, sig, ast, v, v, 2, 2)
        # as the base of Grid (board dimensions), as Tupl elements, as the values of ValuedRooms
        for (h, w) in ((1, 2), (2, 2)) if small else ((2, 1),):
            ast = ("grid", one, None)
            for v in _mixed_values(alts, h * w, rng, 6):
                rows = [v[y * w:(y + 1) * w] for y in range(h)]
                _check_term(found, sig, ast, rows, rows, h, w)
        ast = ("tupl", [one, ("fixstr", "/"), ("seq", one, 2)])
        for v in _mixed_values(alts, 3, rng, 6):
            val = ([v[0]], [], [[v[1], v[2]]])
            _check_term(found, sig, ast, val, val, 2, 2)
        ast = ("vrooms", one, False, False)
        canon = [[(0, 0), (1, 0)], [(0, 1)], [(1, 1)]]
        for v in _mixed_values(alts, 3, rng, 4):
            _check_term(found, sig, ast, (canon, v), (canon, v), 2, 2)


def search(ctx, why):
    import cspuz.problem_serializer as ps
    rng = ctx.rng
    found = {}
    # 0. the smallest inputs of earlier findings
    for ast, h, w, v, exp in CORPUS:
        _check_term(found, "oneof:mixed-value-kinds", ast, v, exp, h, w)
    # 0b. Seq / Grid over elements whose encoding is the empty string
    for ast, h, w, v in _empty_family():
        _check_term(found, "seq:element-with-empty-encoding", ast, v, v, h, w)
    # 0a. OneOf over alternatives of DIFFERENT VALUE KINDS (scalar / tuple / list / rows) that start with different characters
    _search_mixed(found, rng)
    # 1. Rooms on every board up to 3x3: every partition into connected rooms, canonical and permuted orders
    for h in range(1, 4):
        for w in range(1, 4):
            parts = sc.all_partitions(h, w)
            for P in parts:
                canon = [[tuple(c) for c in r] for r in sc.canon_rooms(P)]
                variants = [canon, [list(reversed(r)) for r in reversed(canon)], sc.shuffled_rooms(rng, canon)]
                for v in variants:
                    _check_value(found, _rooms_sig(h, w), ps.Rooms(), "Rooms()", v, canon, h, w)
                    vals = list(range(1, len(v) + 1))
                    by_room = {tuple(sorted(r)): x for r, x in zip(v, vals)}
                    exp = (canon, [by_room[tuple(sorted(r))] for r in canon])
                    sig = _rooms_sig(h, w) if (h == 1 or w == 1) else "valuedrooms:values-attached-to-wrong-rooms"
                    _check_value(found, sig, ps.ValuedRooms(ps.HexInt()), "ValuedRooms(HexInt())", (v, vals), exp, h, w)
    # 2. a cell outside the board must not be accepted
    for (h, w, rooms) in [(2, 2, [[(0, 0), (0, -1)], [(1, 0), (1, 1)]]), (2, 3, [[(0, 0), (0, 1), (0, -1)], [(1, 0), (1, 1), (1, -1)]])]:
        sig = "rooms:out-of-board-cell-accepted"
        if sig in found:
            continue
        o = sc.run_guarded(lambda: ps.serialize_problem(ps.Rooms(), rooms, height=h, width=w), 10)
        if o[0] == "ret":
            found[sig] = Finding(sig, "Rooms() on a %dx%d board accepts %r (x = -1 is outside the board) and encodes it as %r"
                                 % (h, w, rooms, o[1]), {"kind": "oob", "rooms": repr(rooms), "h": h, "w": w, "sig": sig})
    # 3. leaves and flat compositions, exhaustively over a small alphabet
    alpha = [0, 1, 15, 16, 255, 256, 4095]
    base = lambda: ps.OneOf(ps.Spaces(0, "g"), ps.HexInt())
    for n in range(0, 4):
        for v in itertools.product(alpha, repeat=n):
            _check_value(found, "seq:roundtrip", ps.Seq(base(), n), "Seq(OneOf(Spaces(0,'g'),HexInt()),%d)" % n, list(v), list(v), 1, 1)
    up = lambda: ps.OneOf(ps.Spaces(-1, "g"), ps.HexInt(), ps.Dict(["wall", "star"], ["A", "B"]))
    for n in range(0, 4):
        for v in itertools.product([-1, 11, "wall", "star", 4095], repeat=n):
            _check_value(found, "oneof:tokens-outside-0-9a-z", ps.Seq(up(), n),
                         "Seq(OneOf(Spaces(-1,'g'),HexInt(),Dict(['wall','star'],['A','B'])),%d)" % n, list(v), list(v), 1, 1)
    for n in (20, 21, 22, 41, 42, 43):
        _check_value(found, "spaces:run-limit", ps.Seq(base(), n), "Seq(OneOf(Spaces(0,'g'),HexInt()),%d)" % n, [0] * n, [0] * n, 1, 1)
    for b, d in ((2, 5), (3, 3), (6, 2)):
        for n in range(0, 2 * d + 2):
            v = [(i * 5 + 1) % b for i in range(n)]
            _check_value(found, "multidigit:roundtrip", ps.Seq(ps.MultiDigit(b, d), n), "Seq(MultiDigit(%d,%d),%d)" % (b, d, n), v, v, 1, 1)
    for mi, ms in ((4, 2), (1, 3), (2, 4)):
        c = lambda n: ps.Seq(ps.OneOf(ps.Spaces(-1, "g"), ps.IntSpaces(-1, mi, ms)), n)
        for v in itertools.product([-1, 0, mi], repeat=4):
            _check_value(found, "intspaces:roundtrip", c(4), "Seq(OneOf(Spaces(-1,'g'),IntSpaces(-1,%d,%d)),4)" % (mi, ms), list(v), list(v), 1, 1)
    for gh in range(0, 3):
        for gw in range(0, 3):
            v = [[(y * gw + x) % 3 * 16 for x in range(gw)] for y in range(gh)]
            _check_value(found, "grid:explicit-dimensions", ps.Grid(ps.HexInt(), height=gh, width=gw),
                         "Grid(HexInt(),height=%d,width=%d)" % (gh, gw), v, v, 2, 2)
            _check_value(found, "grid:roundtrip", ps.Grid(ps.HexInt()), "Grid(HexInt())", v, v, gh, gw)
    t = ps.Tupl(ps.HexInt(), ps.FixStr("/"), ps.Seq(ps.DecInt(), 1))
    for a in alpha:
        _check_value(found, "tupl:roundtrip", t, "Tupl(HexInt(),FixStr('/'),Seq(DecInt(),1))", ([a], [], [[a]]), ([a], [], [[a]]), 1, 1)
    # 3a. combinators whose parameters are beyond what the text format can carry: if the constructor builds them,
    # the largest value they accept must still round-trip
    for mi in range(0, 37):
        for ms in (0, 1, 2, 3, 5, 8, 11, 17, 35):
            if (mi + 1) * (ms + 1) > 36:
                o = sc.run_guarded(lambda: ps.IntSpaces(-1, mi, ms), 5)
                if o[0] == "ret":
                    v = [mi] + [-1] * ms
                    _check_value(found, "intspaces:constructor-accepts-parameters-beyond-base36", ps.Seq(o[1], ms + 1),
                                 "Seq(IntSpaces(-1,%d,%d),%d)" % (mi, ms, ms + 1), v, v, 1, 1)
    for b in range(1, 38):
        for d in range(1, 7):
            if b ** d > 36:
                o = sc.run_guarded(lambda: ps.MultiDigit(b, d), 5)
                if o[0] == "ret":
                    v = [b - 1] * d
                    _check_value(found, "multidigit:constructor-accepts-parameters-beyond-base36", ps.Seq(o[1], d),
                                 "Seq(MultiDigit(%d,%d),%d)" % (b, d, d), v, v, 1, 1)
    # 3b. the custom yajilin clue combinator (every clue kind its decoder can produce, numbers across 15/16)
    from cspuz.puzzle.yajilin import YajilinClue
    for clue in ("^0", "v9", "<15", ">16", "^17", "v255", "??"):
        _check_value(found, "yajilin:clue-roundtrip", ps.Seq(ps.OneOf(YajilinClue(), ps.Spaces("..", "a")), 2),
                     "Seq(OneOf(YajilinClue(),Spaces('..','a')),2)", [clue, ".."], [clue, ".."], 1, 1)
    # 4. a few random larger boards
    for _ in range(300):
        h, w = rng.randint(1, 6), rng.randint(1, 6)
        canon = sc.random_partition(rng, h, w)
        v = sc.shuffled_rooms(rng, canon)
        _check_value(found, _rooms_sig(h, w), ps.Rooms(), "Rooms()", v, canon, h, w)
    return list(found.values())


def replay(ctx, data):
    import ast as pyast
    import cspuz.problem_serializer as ps
    ns = {k: getattr(ps, k) for k in ("FixStr", "Dict", "Spaces", "DecInt", "HexInt", "IntSpaces", "MultiDigit", "OneOf",
                                      "Tupl", "Seq", "Grid", "Rooms", "ValuedRooms")}
    from cspuz.puzzle.yajilin import YajilinClue
    ns["YajilinClue"] = YajilinClue
    if data.get("kind") == "oob":
        rooms = pyast.literal_eval(data["rooms"])
        o = sc.run_guarded(lambda: ps.serialize_problem(ps.Rooms(), rooms, height=data["h"], width=data["w"]), 10)
        if o[0] == "ret":
            return Finding(data["sig"], "still accepted, encoded as %r" % (o[1],), data)
        return None
    if data.get("kind") == "ctor":
        o = sc.run_guarded(lambda: eval(data["term"], ns), 5)
        return None if o[0] == "ret" else Finding(data["sig"], "%s cannot be constructed: %s" % (data["term"], o[1] if o[0] == "err" else "does not return"), data)
    if data.get("kind") == "alias":
        obj = eval(data["term"], ns)  # the term text was produced by this module
        bad = sc.alias_probe(lambda: obj.deserialize(_env(data["h"], data["w"]), data["text"], 0), 10)
        return Finding(data["sig"], "%s.deserialize(env(%d,%d), %r, 0): %s" % (data["term"], data["h"], data["w"], data["text"], bad[:900]), data) if bad else None
    if data.get("kind") == "roundtrip":
        obj = eval(data["term"], ns)  # the term text was produced by this module
        v = pyast.literal_eval(data["value"])
        exp = pyast.literal_eval(data["expect"])
        found = {}
        _check_value(found, data["sig"], obj, data["term"], v, exp, data["h"], data["w"])
        return found.get(data["sig"])
    return None
