"""C15 — Serializer combinators round-trip every value they accept."""
import itertools

from . import core, sergen
from . import sercommon as sc
from .core import Finding

THEOREMS = [
    "Cspuz.C15.C15_leaves_local",
    "Cspuz.C15.C15_composition",
    "Cspuz.C15.C15_roundtrip",
    "Cspuz.C15.C15_seq_terminates",
    "Cspuz.C15.C15_borders_roundtrip",
    "Cspuz.C15.C15_rooms",
    "Cspuz.C15.C15_valued_rooms",
    "Cspuz.C15.C15_puzzles_wf",
    "Cspuz.C15.C15_wf_ctorOk",
]


def gen(ctx):
    sergen.gen_all()


# ---------------------------------------------------------------------------------------------- correspondence

def _env(h, w):
    from cspuz.problem_serializer import CombinatorEnv
    return CombinatorEnv(height=h, width=w)


def _dims(rng):
    r = rng.random()
    if r < 0.25:
        return (1, rng.randint(1, 5)) if rng.random() < 0.5 else (rng.randint(1, 5), 1)
    if r < 0.32:
        return (1, 1)
    if r < 0.36:
        return rng.choice([(0, 0), (0, 2), (2, 0)])
    return (rng.randint(1, 4), rng.randint(1, 4))


def _leaf_sweeps():
    """(ast, data) pairs covering every leaf systematically."""
    out = []
    out.append((("hexint",), list(range(-2, 20)) + [254, 255, 256, 257, 4094, 4095, 4096, 4097]))
    out.append((("decint",), [0, 1, 9, 10, 11, 99, 100, 4095, 10 ** 20, -1, 10 ** 4299, 10 ** 4300 - 1, 10 ** 4300]))
    for sm in "0123456789abcdefghijklmnopqrstuvwxyz":
        maxc = 35 - (int(sm, 36) - 1)
        out.append((("spaces", 0, sm), [0] * (maxc + 2) + [1] + [0] * 2))
    for mi in range(0, 9):
        for ms in range(0, 36 // (mi + 1)):
            if (mi + 1) * (ms + 1) <= 36:
                out.append((("intspaces", -1, mi, ms), [mi] + [-1] * (ms + 1) + [0, -1, mi + 1, -1, -1]))
    for b in range(1, 7):
        for d in range(0, 7):
            if b ** d <= 36:
                out.append((("multidigit", b, d), [(i * 7 + 3) % max(b, 1) for i in range(2 * d + 1)] + [b]))
    out.append((("dict", [1, 2, "x", None, True], ["x", "y", "xy", "", "q"]), [1, 2, 3, "x", None, True, False, 1]))
    out.append((("fixstr", "foo"), [1, 2]))
    out.append((("yajilin",), ["..", "??", "^0", "v9", "<10", ">15", "^16", "v255", "<256", "x3", "^", 7]))
    return out


def _ser_case(obj, env, data, idx, secs):
    return sc.run_guarded(lambda: obj.serialize(env, data, idx), secs)


def _de_case(obj, env, text, idx, secs):
    return sc.run_guarded(lambda: obj.deserialize(env, text, idx), secs)


def correspond(ctx):
    ctx.extra["rule"] = (
        "random combinator TERMS (depth<=3 over FixStr, Dict, Spaces, DecInt, HexInt, IntSpaces, MultiDigit, OneOf, Tupl, Seq, "
        "Grid with/without explicit dims, Rooms, ValuedRooms, YajilinClue) with data lists built from runs each "
        "alternative can consume (run lengths around the 1-character limit, 15/16/255/256/4095/4096, partial digit groups, "
        "1xN / Nx1 / 1x1 / zero boards, permuted rooms and cells; ~15% deliberately malformed) -> serialize at every idx and "
        "serialize_problem on the real classes vs the Lean model; every produced text is then decoded in a context "
        "pre+text+rest at every start index, real vs model, outcome kinds (value / None / exception class / non-termination) "
        "included; plus systematic sweeps of every leaf. non-trivial+distinct = (term, data, idx) with a produced text, or "
        "(term, text, idx) with decoded items")
    ctx.extra["assumptions"] = [sc.PATCH_NOTES]
    rng = ctx.rng
    drv = core.Driver()
    cases = []   # (ast, obj, sx, h, w, data)
    for ast, data in _leaf_sweeps():
        obj = sc.build(ast)
        cases.append((ast, obj, sc.comb_sx(obj), 1, 1, data))
    for _ in range(ctx.n(10000, 80000)):
        ast = sc.gen_any_term(rng, rng.choice([1, 2, 2, 3]))
        try:
            obj = sc.build(ast)
        except ValueError:
            ctx.count("constructor-rejected")
            continue
        h, w = _dims(rng)
        data = []
        for _ in range(rng.choice([1, 1, 2, 3])):
            data += sc.sample_run(rng, ast, h, w, bad=rng.choice([0.0, 0.0, 0.15, 0.4]))
        cases.append((ast, obj, sc.comb_sx(obj), h, w, data))
    # --- serialize
    ops, lines = [], []
    for ci, (ast, obj, sx, h, w, data) in enumerate(cases):
        try:
            dsx = sc.vals_sx(data)
        except TypeError:
            continue
        for idx in range(len(data) + 1):
            ops.append(("ser", ci, idx))
            lines.append("(ser %s %s %d %d %d)" % (sx, dsx, idx, h, w))
        if data:
            ops.append(("serp", ci, 0))
            lines.append("(serp %s %s %d %d)" % (sx, sc.val_sx(data[0]), h, w))
    outs = drv.run(lines)
    texts = []
    for (kind, ci, idx), mo in zip(ops, outs):
        ast, obj, sx, h, w, data = cases[ci]
        dsx = sc.vals_sx(data)
        secs = 0.25 if mo == "diverge" else 20
        if kind == "ser":
            ro = sc.ser_outcome(_ser_case(obj, _env(h, w), data, idx, secs))
        else:
            from cspuz.problem_serializer import serialize_problem
            ro = sc.str_outcome(sc.run_guarded(lambda: serialize_problem(obj, data[0], height=h, width=w), secs))
        ctx.count(kind + ":" + (ro.split()[0].strip("()") if not ro.startswith("(err") else ro.strip("()").replace(" ", ":")))
        ctx.count("term:" + ast[0])
        nt = ro.startswith("(ok")
        ctx.case({"op": kind, "term": sx, "data": dsx[:300], "idx": idx, "h": h, "w": w, "real": ro[:300]},
                 (kind, sx, dsx, idx, h, w) if nt else None)
        if ro != mo:
            ctx.disagree("serialize-model-vs-code", op=kind, term=sx, data=dsx[:3000], idx=idx, h=h, w=w, real=ro[:3000], model=mo[:3000])
        if kind == "ser" and nt:
            r = _ser_case(obj, _env(h, w), data, idx, 20)[1]
            texts.append((ci, r[1]))
    # --- deserialize what was produced, in context
    ops, lines = [], []
    seen = set()
    for ci, t in texts:
        ast, obj, sx, h, w, data = cases[ci]
        key = (sx, t, h, w)
        if key in seen:
            continue
        seen.add(key)
        ctxs = [("", "")]
        if rng.random() < 0.5:
            ctxs.append((rng.choice(["", "x", "9-", "A"]), rng.choice(["", "0", "z", "-", "7+", ".", "٣", "/", "A", "Fg", "_"])))
        for pre, rest in ctxs:
            s = pre + t + rest
            starts = {len(pre)} | ({rng.randint(0, len(s))} if rng.random() < 0.3 else set())
            if len(s) <= 6:
                starts |= set(range(len(s) + 1))
            for idx in sorted(starts):
                ops.append((ci, s, idx))
                lines.append("(de %s %s %d %d %d)" % (sx, sc.cps(s), idx, h, w))
    outs = drv.run(lines)
    for (ci, s, idx), mo in zip(ops, outs):
        ast, obj, sx, h, w, data = cases[ci]
        ro = sc.de_outcome(_de_case(obj, _env(h, w), s, idx, 0.25 if mo == "diverge" else 20))
        ctx.count("de:" + (ro.split()[0].strip("()") if not ro.startswith("(err") else ro.strip("()").replace(" ", ":")))
        ctx.case({"op": "de", "term": sx, "text": s, "idx": idx, "h": h, "w": w, "real": ro[:300]},
                 ("de", sx, s, idx, h, w) if ro.startswith("(ok") else None)
        if ro != mo:
            ctx.disagree("deserialize-model-vs-code", term=sx, text=s, idx=idx, h=h, w=w, real=ro, model=mo)
    # --- the constructors' own parameter checks, at and beyond their limits (a constructor that accepts more builds
    # combinators that cannot round-trip; one that accepts less rejects codecs the theorems cover)
    import cspuz.problem_serializer as ps
    ctor_cases = []
    for mi in range(0, 37):
        for ms in (0, 1, 2, 3, 5, 8, 11, 17, 35, 36):
            ctor_cases.append(("(intspaces (i -1) %d %d)" % (mi, ms), lambda mi=mi, ms=ms: ps.IntSpaces(-1, mi, ms)))
    for b in range(0, 38):
        for d in range(0, 7):
            ctor_cases.append(("(multidigit %d %d)" % (b, d), lambda b=b, d=d: ps.MultiDigit(b, d)))
    for nb in range(0, 4):
        for na in range(0, 4):
            ctor_cases.append(("(dict (%s) (%s))" % (" ".join("(i %d)" % i for i in range(nb)), " ".join("(%d)" % (97 + i) for i in range(na))),
                               lambda nb=nb, na=na: ps.Dict(list(range(nb)), [chr(97 + i) for i in range(na)])))
    outs = drv.run(["(ctor %s)" % t for t, _ in ctor_cases])
    for (t, mk), mo in zip(ctor_cases, outs):
        o = sc.run_guarded(mk, 5)
        real = "(ok T)" if o[0] == "ret" else ("(ok F)" if o == ("err", "ValueError") else "(err %s)" % (o[1] if o[0] == "err" else "diverge"))
        ctx.count("ctor:" + real)
        ctx.case({"op": "constructor", "term": t, "real": real}, ("ctor", t) if real == "(ok T)" else None)
        if real != mo:
            ctx.disagree("constructor-model-vs-code", term=t, real=real, model=mo)
    # --- regenerated puzzle table agrees with the live objects (tie of Gen/PuzzleCombinators.lean)
    sc.check_puzzle_table(ctx, drv, sc.puzzle_objects())


# ---------------------------------------------------------------------------------------------- search (real code only)

def _roundtrip(obj, v, h, w):
    """Independent oracle from the property text.  Returns None if fine, else (kind, detail)."""
    from cspuz.problem_serializer import serialize_problem
    o = sc.run_guarded(lambda: serialize_problem(obj, v, height=h, width=w), 10)
    if o[0] != "ret":
        return ("not-serialized", "serialize_problem: " + (o[1] if o[0] == "err" else "does not terminate"))
    t = o[1]
    o = sc.run_guarded(lambda: obj.deserialize(_env(h, w), t, 0), 10)
    if o[0] != "ret":
        return ("not-decoded", "text %r: deserialize: %s" % (t, o[1] if o[0] == "err" else "does not terminate"))
    r = o[1]
    if r is None:
        return ("not-decoded", "text %r: deserialize returned None" % (t,))
    if r[0] != len(t):
        return ("consumed", "text %r: consumed %d of %d characters" % (t, r[0], len(t)))
    return (r[1], t)


def _canon_typed(v):
    """tuples and lists stay distinct; bool vs int distinct"""
    if isinstance(v, (list, tuple)):
        return (type(v).__name__, tuple(_canon_typed(x) for x in v))
    return (type(v).__name__, v)


def _check_value(found, sig, obj, term, v, expect, h, w):
    if sig in found:
        return
    r = _roundtrip(obj, v, h, w)
    if isinstance(r[0], str):
        found[sig] = Finding(sig, "%s on a %dx%d board: value %r: %s" % (term, h, w, v, r[1]),
                             {"kind": "roundtrip", "term": term, "value": repr(v), "expect": repr(expect), "h": h, "w": w, "sig": sig})
        return
    got = r[0]
    if _canon_typed(got) != _canon_typed([expect]):
        found[sig] = Finding(sig, "%s on a %dx%d board: value %r encodes to %r which decodes to %r (expected %r)"
                             % (term, h, w, v, r[1], got[0] if len(got) == 1 else got, expect),
                             {"kind": "roundtrip", "term": term, "value": repr(v), "expect": repr(expect), "h": h, "w": w, "sig": sig})


def _terms():
    import cspuz.problem_serializer as ps
    return {
        "Rooms()": lambda: ps.Rooms(),
        "ValuedRooms(HexInt())": lambda: ps.ValuedRooms(ps.HexInt()),
        "Seq(OneOf(Spaces(0,'g'),HexInt()),n)": lambda n: ps.Seq(ps.OneOf(ps.Spaces(0, "g"), ps.HexInt()), n),
    }


def _rooms_sig(h, w):
    if h == 1 and w == 1:
        return "rooms:1x1-board"
    if h == 1 or w == 1:
        return "rooms:single-row-or-column-board"
    return "rooms:roundtrip"


def search(ctx, why):
    import cspuz.problem_serializer as ps
    rng = ctx.rng
    found = {}
    # 1. Rooms on every board up to 3x3: every partition into connected rooms, canonical and permuted orders
    for h in range(1, 4):
        for w in range(1, 4):
            parts = sc.all_partitions(h, w)
            for P in parts:
                canon = [[tuple(c) for c in r] for r in sc.canon_rooms(P)]
                variants = [canon, [list(reversed(r)) for r in reversed(canon)], sc.shuffled_rooms(rng, canon)]
                for v in variants:
                    _check_value(found, _rooms_sig(h, w), ps.Rooms(), "Rooms()", v, canon, h, w)
                    vals = list(range(1, len(v) + 1))
                    by_room = {tuple(sorted(r)): x for r, x in zip(v, vals)}
                    exp = (canon, [by_room[tuple(sorted(r))] for r in canon])
                    sig = _rooms_sig(h, w) if (h == 1 or w == 1) else "valuedrooms:values-attached-to-wrong-rooms"
                    _check_value(found, sig, ps.ValuedRooms(ps.HexInt()), "ValuedRooms(HexInt())", (v, vals), exp, h, w)
    # 2. a cell outside the board must not be accepted
    for (h, w, rooms) in [(2, 2, [[(0, 0), (0, -1)], [(1, 0), (1, 1)]]), (2, 3, [[(0, 0), (0, 1), (0, -1)], [(1, 0), (1, 1), (1, -1)]])]:
        sig = "rooms:out-of-board-cell-accepted"
        if sig in found:
            continue
        o = sc.run_guarded(lambda: ps.serialize_problem(ps.Rooms(), rooms, height=h, width=w), 10)
        if o[0] == "ret":
            found[sig] = Finding(sig, "Rooms() on a %dx%d board accepts %r (x = -1 is outside the board) and encodes it as %r"
                                 % (h, w, rooms, o[1]), {"kind": "oob", "rooms": repr(rooms), "h": h, "w": w, "sig": sig})
    # 3. leaves and flat compositions, exhaustively over a small alphabet
    alpha = [0, 1, 15, 16, 255, 256, 4095]
    base = lambda: ps.OneOf(ps.Spaces(0, "g"), ps.HexInt())
    for n in range(0, 4):
        for v in itertools.product(alpha, repeat=n):
            _check_value(found, "seq:roundtrip", ps.Seq(base(), n), "Seq(OneOf(Spaces(0,'g'),HexInt()),%d)" % n, list(v), list(v), 1, 1)
    up = lambda: ps.OneOf(ps.Spaces(-1, "g"), ps.HexInt(), ps.Dict(["wall", "star"], ["A", "B"]))
    for n in range(0, 4):
        for v in itertools.product([-1, 11, "wall", "star", 4095], repeat=n):
            _check_value(found, "oneof:tokens-outside-0-9a-z", ps.Seq(up(), n),
                         "Seq(OneOf(Spaces(-1,'g'),HexInt(),Dict(['wall','star'],['A','B'])),%d)" % n, list(v), list(v), 1, 1)
    for n in (20, 21, 22, 41, 42, 43):
        _check_value(found, "spaces:run-limit", ps.Seq(base(), n), "Seq(OneOf(Spaces(0,'g'),HexInt()),%d)" % n, [0] * n, [0] * n, 1, 1)
    for b, d in ((2, 5), (3, 3), (6, 2)):
        for n in range(0, 2 * d + 2):
            v = [(i * 5 + 1) % b for i in range(n)]
            _check_value(found, "multidigit:roundtrip", ps.Seq(ps.MultiDigit(b, d), n), "Seq(MultiDigit(%d,%d),%d)" % (b, d, n), v, v, 1, 1)
    for mi, ms in ((4, 2), (1, 3), (2, 4)):
        c = lambda n: ps.Seq(ps.OneOf(ps.Spaces(-1, "g"), ps.IntSpaces(-1, mi, ms)), n)
        for v in itertools.product([-1, 0, mi], repeat=4):
            _check_value(found, "intspaces:roundtrip", c(4), "Seq(OneOf(Spaces(-1,'g'),IntSpaces(-1,%d,%d)),4)" % (mi, ms), list(v), list(v), 1, 1)
    for gh in range(0, 3):
        for gw in range(0, 3):
            v = [[(y * gw + x) % 3 * 16 for x in range(gw)] for y in range(gh)]
            _check_value(found, "grid:explicit-dimensions", ps.Grid(ps.HexInt(), height=gh, width=gw),
                         "Grid(HexInt(),height=%d,width=%d)" % (gh, gw), v, v, 2, 2)
            _check_value(found, "grid:roundtrip", ps.Grid(ps.HexInt()), "Grid(HexInt())", v, v, gh, gw)
    t = ps.Tupl(ps.HexInt(), ps.FixStr("/"), ps.Seq(ps.DecInt(), 1))
    for a in alpha:
        _check_value(found, "tupl:roundtrip", t, "Tupl(HexInt(),FixStr('/'),Seq(DecInt(),1))", ([a], [], [[a]]), ([a], [], [[a]]), 1, 1)
    # 3a. combinators whose parameters are beyond what the text format can carry: if the constructor builds them,
    # the largest value they accept must still round-trip
    for mi in range(0, 37):
        for ms in (0, 1, 2, 3, 5, 8, 11, 17, 35):
            if (mi + 1) * (ms + 1) > 36:
                o = sc.run_guarded(lambda: ps.IntSpaces(-1, mi, ms), 5)
                if o[0] == "ret":
                    v = [mi] + [-1] * ms
                    _check_value(found, "intspaces:constructor-accepts-parameters-beyond-base36", ps.Seq(o[1], ms + 1),
                                 "Seq(IntSpaces(-1,%d,%d),%d)" % (mi, ms, ms + 1), v, v, 1, 1)
    for b in range(1, 38):
        for d in range(1, 7):
            if b ** d > 36:
                o = sc.run_guarded(lambda: ps.MultiDigit(b, d), 5)
                if o[0] == "ret":
                    v = [b - 1] * d
                    _check_value(found, "multidigit:constructor-accepts-parameters-beyond-base36", ps.Seq(o[1], d),
                                 "Seq(MultiDigit(%d,%d),%d)" % (b, d, d), v, v, 1, 1)
    # 3b. the custom yajilin clue combinator (every clue kind its decoder can produce, numbers across 15/16)
    from cspuz.puzzle.yajilin import YajilinClue
    for clue in ("^0", "v9", "<15", ">16", "^17", "v255", "??"):
        _check_value(found, "yajilin:clue-roundtrip", ps.Seq(ps.OneOf(YajilinClue(), ps.Spaces("..", "a")), 2),
                     "Seq(OneOf(YajilinClue(),Spaces('..','a')),2)", [clue, ".."], [clue, ".."], 1, 1)
    # 4. a few random larger boards
    for _ in range(300):
        h, w = rng.randint(1, 6), rng.randint(1, 6)
        canon = sc.random_partition(rng, h, w)
        v = sc.shuffled_rooms(rng, canon)
        _check_value(found, _rooms_sig(h, w), ps.Rooms(), "Rooms()", v, canon, h, w)
    return list(found.values())


def replay(ctx, data):
    import ast as pyast
    import cspuz.problem_serializer as ps
    ns = {k: getattr(ps, k) for k in ("FixStr", "Dict", "Spaces", "DecInt", "HexInt", "IntSpaces", "MultiDigit", "OneOf",
                                      "Tupl", "Seq", "Grid", "Rooms", "ValuedRooms")}
    from cspuz.puzzle.yajilin import YajilinClue
    ns["YajilinClue"] = YajilinClue
    if data.get("kind") == "oob":
        rooms = pyast.literal_eval(data["rooms"])
        o = sc.run_guarded(lambda: ps.serialize_problem(ps.Rooms(), rooms, height=data["h"], width=data["w"]), 10)
        if o[0] == "ret":
            return Finding(data["sig"], "still accepted, encoded as %r" % (o[1],), data)
        return None
    if data.get("kind") == "roundtrip":
        obj = eval(data["term"], ns)  # the term text was produced by this module
        v = pyast.literal_eval(data["value"])
        exp = pyast.literal_eval(data["expect"])
        found = {}
        _check_value(found, data["sig"], obj, data["term"], v, exp, data["h"], data["w"])
        return found.get(data["sig"])
    return None
