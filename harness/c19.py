"""C19 — problem generation is sound and reproducible under the deterministic PRNG.

Correspondence (real cspuz.generator.* vs the Lean model Model/Generator.lean through the driver):
 (a) XorShift streams: 10^4 raw outputs per seed; random call sequences of randint/choice/shuffle/random
     (random() compared as the exact integer numerator r * 2**32);
 (b) Choice.candidates / ArrayBuilder2D.candidates / copy_with_update / build_neighbor_generator outputs
     under srandom.use_deterministic_prng(True, seed) vs the model fed the same seed (and the same number
     of draws consumed: one extra next() is compared after every call);
 (c) whole generate_problem runs with hash-based mock solver / uniqueness / score / pretest / clue_penalty:
     the sequence of problems handed to the solver and the returned problem vs the model's run from the same
     seed, the real run repeated under different `random.seed` states (reproducibility) and every earlier
     problem snapshotted (purity);
 (d) a SegmentationBuilder2D pattern run twice with the same deterministic seed but different global
     `random.seed` (no model: reproducibility only).
Search: independent plain-Python oracles written from the property text.
"""
import os
import sys
import copy
import math
import random as pyrandom
from fractions import Fraction

from . import core
from .core import Finding, sx

THEOREMS = [
    "Cspuz.C19.C19_xorshift_range",
    "Cspuz.C19.C19_randint_range",
    "Cspuz.C19.C19_randint_uniform",
    "Cspuz.C19.C19_choice",
    "Cspuz.C19.C19_shuffle_perm",
    "Cspuz.C19.C19_shuffle_bijective",
    "Cspuz.C19.C19_random_range",
    "Cspuz.C19.C19_sound",
    "Cspuz.C19.C19_neighbours",
    "Cspuz.C19.C19_array",
    "Cspuz.C19.C19_array_initial",
]

FUEL = 200
D32 = 1 << 32


def _mods():
    import cspuz.generator.deterministic_random as dr
    import cspuz.generator.srandom as sr
    import cspuz.generator.builder as bd
    import cspuz.generator.core as gc
    return dr, sr, bd, gc


def _err(e):
    return "(err %s)" % core.err_name(e)


class RealCodeHang(Exception):
    """The real code did not return within the time limit (e.g. a rejection loop that never accepts)."""


class RealCodeSkipped(Exception):
    """Not run: the real code hung several times before (circuit breaker).  Never a finding."""


def _run(fn, *a, **kw):
    """Run one oracle check; returns its verdict string or None (None also when skipped)."""
    try:
        return fn(*a, **kw)
    except RealCodeSkipped:
        return None
    except RealCodeHang as e:
        return "the call did not return (%s)" % e
    except Exception as e:
        return "raised %s: %s" % (core.err_name(e), str(e)[:200])


class _guard:
    """Bound the time one call into the real code may take (SIGALRM; main thread only)."""

    def __init__(self, seconds=20.0):
        self.seconds = seconds

    hangs = 0

    def __enter__(self):
        import signal
        if _guard.hangs >= 4:  # circuit breaker: the real code keeps hanging; fail fast from now on
            raise RealCodeSkipped("skipped after %d earlier hangs" % _guard.hangs)

        def on_alarm(signum, frame):
            _guard.hangs += 1
            raise RealCodeHang("no result within %gs" % self.seconds)
        self.old = signal.signal(signal.SIGALRM, on_alarm)
        signal.setitimer(signal.ITIMER_REAL, self.seconds)
        return self

    def __exit__(self, *a):
        import signal
        signal.setitimer(signal.ITIMER_REAL, 0)
        signal.signal(signal.SIGALRM, self.old)
        return False


def guarded(seconds):
    def deco(f):
        def g(*a, **kw):
            with _guard(seconds):
                return f(*a, **kw)
        g.__name__ = f.__name__
        return g
    return deco



# ---------------------------------------------------------------------------------------------
# pattern specs  <->  live Python patterns  <->  s-expressions

def gen_array_spec(rng, small=False):
    h = rng.choice([0, 1, 1, 2, 2, 3, 3, 4] if not small else [1, 2, 2, 3])
    w = rng.choice([0, 1, 2, 2, 3, 3, 4, 5] if not small else [1, 2, 3])
    default = rng.choice([0, 0, -1, -2, 5])
    vals = sorted(set(rng.sample(range(-3, 7), rng.randint(0, 4))))
    if rng.random() < 0.7 and default not in vals:
        vals = [default] + vals
    if rng.random() < 0.15:
        vals = vals + vals[:1]  # duplicate entry
    dis = rng.choice([False, False, True, True, "custom"])
    if dis == "custom":
        pool = [(-1, -1), (1, 1), (-1, 1), (1, -1), (0, 2), (0, -2), (2, 0), (-2, 0), (-1, 0), (1, 0), (0, 1), (0, -1), (0, 0), (1, 2)]
        dis = rng.sample(pool, rng.randint(0, 4))
    sym = rng.random() < 0.5
    move = rng.random() < 0.45
    initial = None
    if rng.random() < 0.2:
        cells = sorted(set(vals + [default]))
        initial = [[rng.choice(cells) for _ in range(w)] for _ in range(h)]
    return ("array", h, w, vals, default, dis, sym, move, initial)


def gen_choice_spec(rng):
    vals = rng.sample(range(-4, 8), rng.randint(0, 5))
    if rng.random() < 0.2 and vals:
        vals = vals + [vals[0]]
    default = rng.choice(vals) if vals and rng.random() < 0.7 else rng.randint(-4, 8)
    return ("choice", vals, default)


def gen_pattern_spec(rng, depth=0, small=False):
    r = rng.random()
    if depth >= 2 or r < 0.35:
        k = rng.random()
        if k < 0.45:
            return gen_choice_spec(rng)
        if k < 0.9:
            return gen_array_spec(rng, small=True if depth else small)
        return ("C", rng.randint(-5, 5))
    kind = "L" if r < 0.7 else "T"
    n = rng.randint(0, 3)
    return (kind, [gen_pattern_spec(rng, depth + 1, small) for _ in range(n)])


CTOR_MISMATCH = []


def build_py(spec):
    _, _, bd, _ = _mods()
    k = spec[0]
    if k == "choice":
        return bd.Choice(list(spec[1]), spec[2])
    if k == "array":
        _, h, w, vals, d, dis, sym, move, initial = spec
        if isinstance(dis, list):
            dis = [tuple(p) for p in dis]
        # options that have their documented default value are OMITTED from the call, so the defaults themselves are under test
        kw = {}
        if dis is not False:
            kw["disallow_adjacent"] = dis
        if sym is not False:
            kw["symmetry"] = sym
        if initial is not None:
            kw["initial"] = copy.deepcopy(initial)
        if move is not False:
            kw["use_move"] = move
        b = bd.ArrayBuilder2D(h, w, list(vals), d, **kw)
        want_dis = [(-1, 0), (1, 0), (0, -1), (0, 1)] if dis is True else ([] if dis is False else list(dis))
        got = (list(b.disallow_adjacent), b.symmetry, b.use_move, b.initial_problem is None)
        if got != (want_dis, sym, move, initial is None):
            CTOR_MISMATCH.append("ArrayBuilder2D(%d, %d, %r, %r%s) has (disallow_adjacent, symmetry, use_move, no initial) = %r, the "
                                 "call means %r" % (h, w, list(vals), d, "".join(", %s=%r" % kv for kv in kw.items() if kv[0] != "initial"),
                                                   got, (want_dis, sym, move, initial is None)))
        return b
    if k == "C":
        return spec[1]
    items = [build_py(s) for s in spec[1]]
    return items if k == "L" else tuple(items)


def array_cfg_sx(b):
    """The model's ArrayCfg read off the LIVE builder object (constructor normalisation included)."""
    ini = "N" if b.initial_problem is None else [list(r) for r in b.initial_problem]
    return [b.height, b.width, list(b.choice), b.default, [list(p) for p in b.disallow_adjacent],
            bool(b.symmetry), bool(b.use_move), ini]


def pat_sx(pat):
    _, _, bd, _ = _mods()
    if isinstance(pat, bd.Choice):
        return ["B", "choice", list(pat.choice), pat.default]
    if isinstance(pat, bd.ArrayBuilder2D):
        return ["B", "array"] + array_cfg_sx(pat)
    if isinstance(pat, list):
        return ["L"] + [pat_sx(p) for p in pat]
    if isinstance(pat, tuple):
        return ["T"] + [pat_sx(p) for p in pat]
    return ["C", pat]


def prob_sx(pat, prob):
    """Tagged form of a problem, walking the pattern alongside."""
    _, _, bd, _ = _mods()
    if isinstance(pat, bd.Choice):
        return ["v", prob]
    if isinstance(pat, bd.ArrayBuilder2D):
        return ["g", [list(r) for r in prob]]
    if isinstance(pat, (list, tuple)):
        tag = "L" if isinstance(prob, list) else "T" if isinstance(prob, tuple) else "?"
        return [tag] + [prob_sx(p, q) for p, q in zip(pat, prob)] + (["len-mismatch"] if len(pat) != len(prob) else [])
    return ["v", prob]


def prob_code(t):
    """Integer code of a tagged problem (mirrors Driver/C19.lean probCode)."""
    k = t[0]
    if k == "v":
        return [1, t[1]]
    if k == "g":
        out = [2, len(t[1])]
        for r in t[1]:
            out += [3, len(r)] + list(r)
        return out
    out = [4 if k == "L" else 5, len(t) - 1]
    for c in t[1:]:
        out += prob_code(c)
    return out


def mock_hash(codes, salt):
    h = salt
    for v in codes:
        h = (h * 1000003 + max(v + 1000, 0)) % 2147483647
    return h


# ---------------------------------------------------------------------------------------------
# (a) PRNG streams

def _seeds(rng, n):
    fixed = [0, 1, 2, -1, -2, 88675123, D32 - 1, D32, D32 + 5, -D32, 2 ** 64 + 3, -(2 ** 70) + 11, 0xFFFFFFFF, 0x80000000]
    out = fixed[: max(4, min(len(fixed), n))]
    while len(out) < n:
        out.append(rng.choice([rng.randint(0, 1000), rng.randint(-10 ** 6, 10 ** 6), rng.getrandbits(32), rng.getrandbits(80) - (1 << 79)]))
    return out


def gen_ops(rng, n, malformed):
    ops = []
    for _ in range(n):
        r = rng.random()
        if r < 0.1:
            ops.append(["next"])
        elif r < 0.25:
            ops.append(["random"])
        elif r < 0.6:
            k = rng.random()
            if k < 0.5:
                a = rng.randint(-6, 6)
                b = a + rng.randint(0, 9)
            elif k < 0.7:
                a = rng.randint(-10 ** 6, 10 ** 6)
                b = a + rng.choice([0, 1, 2, 6, 100, 2 ** 31, 2 ** 32 - 2, 2 ** 32 - 1, 3 * 2 ** 30, 2 ** 31 + 1])
            elif k < 0.8:
                a = 0
                b = rng.choice([0, 1, 2, 3, 6, 9, 255, 2 ** 32 - 1])
            else:
                a = rng.randint(-5, 5)
                b = a + rng.randint(0, 40)
            if malformed and rng.random() < 0.25:
                if rng.random() < 0.5:
                    b = a - rng.randint(1, 4)
                else:
                    b = a + 2 ** 32 + rng.randint(0, 3)
            ops.append(["randint", a, b])
        elif r < 0.8:
            m = rng.randint(0 if malformed else 1, 7)
            ops.append(["choice", [rng.randint(-9, 9) for _ in range(m)]])
        else:
            m = rng.randint(0, 8)
            ops.append(["shuffle", list(range(m)) if rng.random() < 0.7 else [rng.randint(0, 3) for _ in range(m)]])
    return ops


def _do_op(mod, dr, op):
    if op[0] == "next":
        return str(dr._rng.next())
    if op[0] == "random":
        r = mod.random()
        n = int(r * D32)
        # exactness of the float: n / 2**32 must reproduce r
        return str(n) if (n / D32 == r and 0 <= n < D32) else "inexact:%r" % r
    if op[0] == "randint":
        return str(mod.randint(op[1], op[2]))
    if op[0] == "choice":
        return str(mod.choice(list(op[1])))
    l = list(op[1])
    mod.shuffle(l)
    return sx(l)


def real_ops(seed, ops, via_srandom):
    dr, sr, _, _ = _mods()
    if via_srandom:
        if seed == 0:
            sr.use_deterministic_prng(True)          # the documented default: an omitted seed means seed 0
        else:
            sr.use_deterministic_prng(True, seed)
        if sr.is_use_deterministic_prng() is not True:
            return ["(err SwitchNotOn)"] * len(ops)
        mod = sr
    else:
        dr.seed(seed)
        mod = dr
    out = []
    try:
        for op in ops:
            try:
                with _guard(3.0):
                    out.append(_do_op(mod, dr, op))
            except (RealCodeHang, RealCodeSkipped) as e:
                out.append(_err(e))
                break
            except Exception as e:
                out.append(_err(e))
    finally:
        sr.use_deterministic_prng(False)
    return out


class _StubRng:
    """stands in for the module-level XorShift object: hands out the prepared raw outputs, then zeros"""
    def __init__(self, raws):
        self.raws = list(raws)
        self.used = 0

    def next(self):
        self.used += 1
        return self.raws.pop(0) if self.raws else 0


def randint_boundary_failures(limit_widths=None):
    """`randint(a, b)` at the rejection boundary, for EVERY width up to 1300 and the widths where 2^32 or 2^32 +- 1 factor:
    the raw outputs just below / at / above `limit = 2^32 - 2^32 % w` and the last output are fed in through a stub generator;
    the documented behaviour is rejection sampling (accept x < limit, return a + x % w).  Returns a list of descriptions."""
    dr, sr, _, _ = _mods()
    D = D32
    widths = list(range(1, 1301)) + [2 ** k + d for k in (11, 12, 16, 20, 24, 31, 32) for d in (-1, 0, 1)] + [
        65537, 6700417, 641 * 3, 641 * 65537, 4294967295 // 3, 4294967295 // 5, 4294967295 // 17, 4294967295 // 257, D - 1, D]
    widths = sorted({w for w in widths if 1 <= w <= D})
    if limit_widths:
        widths = widths[:limit_widths]
    bad = []
    old = dr._rng
    try:
        for w in widths:
            limit = D - D % w
            probes = sorted({x for x in (limit - 1, limit, limit + 1, limit + w - 2, D - 1, D - 2, w - 1, w) if 0 <= x < D})
            for a in (0, -7):
                for x in probes:
                    tail = [5 % w + 3 * w if 3 * w + 5 % w < limit else 0]
                    stub = _StubRng([x] + tail)
                    dr._rng = stub
                    try:
                        with _guard(3.0):
                            got = dr.randint(a, a + w - 1)
                    except Exception as e:
                        got = _err(e)
                    seq = [x] + tail + [0, 0]
                    k = next(i for i, y in enumerate(seq) if y < limit)
                    want = a + seq[k] % w
                    if got != want or stub.used != k + 1:
                        bad.append("randint(%d, %d) [width %d] with raw outputs %s: returned %s after %d draws, rejection sampling "
                                   "(accept x < %d) returns %d after %d" % (a, a + w - 1, w, [x] + tail, got, stub.used, limit, want, k + 1))
                        break
                if bad and bad[-1].startswith("randint(%d, %d)" % (a, a + w - 1)):
                    break
            if len(bad) >= 3:
                break
    finally:
        dr._rng = old
    return bad


def corr_prng(ctx, drv):
    dr, sr, _, _ = _mods()
    rng = ctx.rng
    for what in randint_boundary_failures():
        ctx.disagree("randint-boundary", what=what)
        if not hasattr(ctx, "concrete"):
            ctx.concrete = []
        ctx.concrete.append(Finding("randint:rejection-boundary", what, {"kind": "randint-boundary"}))
    ctx.count("prng:boundary-widths", 1)
    seeds = _seeds(rng, ctx.n(30, 120))
    nout = 10000
    lines = [sx(["c19_next", s, nout]) for s in seeds]
    outs = drv.run(lines)
    for s, out in zip(seeds, outs):
        g = dr.XorShift(s)
        real = [g.next() for _ in range(nout)]
        model = [int(x) for x in core.parse_sx(out)]
        ctx.count("prng:stream")
        ctx.case({"seed": s, "first": [_short(x) for x in real[:3]]}, ("stream", s & 0xFFFFFFFF))
        if real != model:
            i = next(i for i in range(nout) if real[i] != model[i])
            ctx.disagree("xorshift-stream", seed=s, index=i, real=_short(real[i]), model=model[i])
        if not all(0 <= x < D32 for x in real):
            ctx.disagree("xorshift-range", seed=s, value=_short(max(real)))
    ncase = ctx.n(1500, 12000)
    cases = []
    for i in range(ncase):
        seed = rng.choice(seeds) if rng.random() < 0.3 else rng.randint(-10 ** 9, 10 ** 9)
        malformed = rng.random() < 0.3
        ops = gen_ops(rng, rng.randint(1, 25), malformed)
        cases.append((seed, ops, malformed, rng.random() < 0.5))
    outs = drv.run([sx(["c19_ops", seed, FUEL, ops]) for seed, ops, _, _ in cases])
    hangs = 0
    for (seed, ops, malformed, via), out in zip(cases, outs):
        if hangs >= 3:
            break
        real = real_ops(seed, ops, via)
        if real and real[-1] in ("(err RealCodeHang)", "(err RealCodeSkipped)"):
            hangs += 1
        model = core.parse_sx(out)
        model = [sx(m) if isinstance(m, list) else m for m in model] if isinstance(model, list) else model
        ctx.count("prng:ops" + (":malformed" if malformed else ""))
        ctx.case({"seed": seed, "ops": sx(ops)[:200], "real": real[:6]}, ("ops", seed, sx(ops)))
        if real != model:
            k = next((i for i in range(min(len(real), len(model))) if real[i] != model[i]), None) if isinstance(model, list) else None
            op = ops[k] if k is not None else None
            kind = "prng-op:" + (op[0] if op else "?")
            ctx.disagree(kind, seed=seed, op=sx(op) if op else None, index=k,
                         real=real[k] if k is not None else real, model=model[k] if k is not None else out[:200])


# ---------------------------------------------------------------------------------------------
# option combinations of ArrayBuilder2D: custom offset lists x symmetry x use_move x even / odd boards (deterministic)
#
# The boolean forms of disallow_adjacent are what every in-library caller uses; the third form, an explicit offset list,
# reaches code paths (diagonals, long jumps, the "cell next to its own mirror image" test) that the boolean forms never do.
# All families below are closed under negation and never contain (0, 0): for those the property's adjacency clause has one
# reading only (no two non-default cells at a listed offset).

def _closed(offs):
    out = []
    for o in offs:
        for q in (o, (-o[0], -o[1])):
            if q != (0, 0) and q not in out:
                out.append(q)
    return out


def offset_families(h, w):
    orth = [(-1, 0), (1, 0), (0, -1), (0, 1)]
    diag = [(-1, -1), (-1, 1), (1, -1), (1, 1)]
    fams = [
        ("orth4-as-list", orth),
        ("diag4", diag),
        ("king8", [(dy, dx) for dy in (-1, 0, 1) for dx in (-1, 0, 1) if (dy, dx) != (0, 0)]),
        ("knight8", _closed([(1, 2), (2, 1), (1, -2), (2, -1)])),
        ("jump2", _closed([(0, 2), (2, 0)])),
        ("king8+jump2", _closed(orth + diag + [(0, 2), (2, 0), (2, 2), (2, -2)])),
        ("row-only", [(0, 1), (0, -1)]),
        ("col-only", [(1, 0), (-1, 0)]),
        # the displacement between a cell and its own point-mirror image: corner, anti-corner, second cell of the first row,
        # and the cell nearest to the centre (a long jump on most boards)
        ("corner-mirror", _closed([(h - 1, w - 1)])),
        ("anticorner-mirror", _closed([(h - 1, -(w - 1))])),
        ("second-cell-mirror", _closed([(h - 1, w - 3)])),
        ("centre-mirror", _closed([(h - 1 - 2 * ((h - 1) // 2), w - 1 - 2 * ((w - 1) // 2))])),
    ]
    return [(n, o) for n, o in fams if o]


OPTION_BOARDS = [(2, 2), (2, 4), (4, 4), (3, 3), (4, 5), (1, 2), (2, 3), (4, 2), (1, 3), (3, 4)]
OPTION_VALUES = [([0, 1, 2], 0), ([1, 2], -1), ([5, 0, 3], 5), ([7], 0)]


def option_specs(rng=None):
    """[(label, array spec)]: every board x offset family x symmetry x use_move; the choice set and the ORDER of the offset list
    vary with the combination (and with `rng` when given)."""
    out = []
    k = 0
    for (h, w) in OPTION_BOARDS:
        for name, offs in offset_families(h, w):
            for sym in (True, False):
                for move in (False, True):
                    vals, d = OPTION_VALUES[k % len(OPTION_VALUES)]
                    offs2 = list(offs)
                    if rng is not None:
                        rng.shuffle(offs2)
                    elif k % 3 == 1:
                        offs2.reverse()
                    k += 1
                    label = "%dx%d:%s%s%s" % (h, w, name, ":sym" if sym else "", ":move" if move else "")
                    out.append((label, ("array", h, w, list(vals), d, offs2, sym, move, None)))
    return out


def grid_complaint(h, w, allowed, d, D, sym, g, adjacency=True):
    """What is wrong with the grid `g` as a problem of ArrayBuilder2D(h, w, choice, d, D, sym) reached from the all-default grid
    by value-setting updates only (None if nothing): shape, values, point symmetry of the non-default cells, no two non-default
    cells at an offset of D."""
    if not (isinstance(g, list) and len(g) == h and all(isinstance(r, list) and len(r) == w for r in g)):
        return "shape: %r is not a %dx%d grid" % (g, h, w)
    for y in range(h):
        for x in range(w):
            if g[y][x] not in allowed:
                return "values: cell (%d,%d) of %r holds %r, not in choice+default" % (y, x, g, g[y][x])
    if sym:
        for y in range(h):
            for x in range(w):
                if (g[y][x] == d) != (g[h - 1 - y][w - 1 - x] == d):
                    return "symmetry: cell (%d,%d) of %r and its mirror image differ in being a clue" % (y, x, g)
    if adjacency:
        for y in range(h):
            for x in range(w):
                if g[y][x] == d:
                    continue
                for dy, dx in D:
                    y2, x2 = y + dy, x + dx
                    if 0 <= y2 < h and 0 <= x2 < w and g[y2][x2] != d:
                        return "adjacency: non-default cells (%d,%d) and (%d,%d) of %r are at the forbidden offset (%d,%d)" % (
                            y, x, y2, x2, g, dy, dx)
    return None


@guarded(30.0)
def check_generate_options(spec, seed, mode):
    """generate_problem on one ArrayBuilder2D: every problem handed to the solver callback (and the returned one) must have values
    from the choice set, keep the point symmetry and - without use_move, where every update sets values - the adjacency option.
    mode "all-neighbours": the solver rejects everything, so ALL neighbours of the initial problem are handed over;
    mode "anneal": hash-based answers and scores, 40 steps."""
    dr, sr, bd, gc = _mods()
    _, h, w, vals, d, dis, sym, move, initial = spec
    b = build_py(spec)
    D = [tuple(o) for o in b.disallow_adjacent]
    allowed = set(vals) | {d}
    trace = []

    def solver(p):
        trace.append((p, copy.deepcopy(p)))
        if mode == "all-neighbours":
            return (False,)
        hh = mock_hash(prob_code(["g", [list(r) for r in p]]), seed + 11)
        return (hh % 100 < 55, hh)

    sr.use_deterministic_prng(True, seed)
    try:
        res = gc.generate_problem(solver, builder_pattern=b, score=lambda a: (a // 100) % 5, uniqueness=lambda a: a % 97 == 0,
                                  max_steps=1 if mode == "all-neighbours" else 40)
    finally:
        sr.use_deterministic_prng(False)
    for i, (p, snap) in enumerate(trace):
        if p != snap:
            return "problem %d handed to the solver was mutated later" % i
        bad = grid_complaint(h, w, allowed, d, D, sym, snap, adjacency=not move)
        if bad:
            return "problem %d handed to the solver: %s" % (i, bad)
    if res is not None and not any(p is res for p, _ in trace):
        return "the returned problem was never handed to the solver"
    return None


# ---------------------------------------------------------------------------------------------
# (b) builders

def gen_grid_for(rng, spec):
    _, h, w, vals, d, dis, sym, move, initial = spec
    cells = sorted(set(list(vals) + [d]))
    style = rng.random()
    g = [[d for _ in range(w)] for _ in range(h)]
    if style < 0.15:
        return g
    dens = rng.choice([0.15, 0.3, 0.6, 1.0])
    for y in range(h):
        for x in range(w):
            if rng.random() < dens:
                g[y][x] = rng.choice(cells)
    if sym and rng.random() < 0.7:
        for y in range(h):
            for x in range(w):
                y2, x2 = h - 1 - y, w - 1 - x
                if (g[y][x] == d) != (g[y2][x2] == d):
                    g[y2][x2] = g[y][x] if (y2, x2) != (y, x) else g[y][x]
    if rng.random() < 0.08:
        g.append([rng.choice(cells)])  # foreign values / extra row (still indexable)
    return g


@guarded(10.0)
def real_candidates(b, grid, seed):
    dr, sr, _, _ = _mods()
    before = copy.deepcopy(grid)
    sr.use_deterministic_prng(True, seed)
    try:
        try:
            cands = b.candidates(grid)
            nxt = dr._rng.next()
            res = "(ok %s %d)" % (sx([[list(t) for t in u] for u in cands]), nxt)
        except Exception as e:
            cands, res = None, _err(e)
    finally:
        sr.use_deterministic_prng(False)
    return cands, res, grid == before


def corr_builders(ctx, drv):
    dr, sr, bd, _ = _mods()
    rng = ctx.rng
    # Choice
    lines, cs = [], []
    for _ in range(ctx.n(300, 2000)):
        spec = gen_choice_spec(rng)
        b = build_py(spec)
        cur = rng.choice(spec[1]) if spec[1] and rng.random() < 0.7 else rng.randint(-5, 9)
        cs.append((b, cur))
        lines.append(sx(["c19_choice_cands", list(b.choice), cur]))
    for (b, cur), out in zip(cs, drv.run(lines)):
        real = sx(b.candidates(cur))
        ctx.count("choice.candidates")
        ctx.case({"choice": b.choice, "current": cur, "real": real}, ("choice", tuple(b.choice), cur))
        if real != out:
            ctx.disagree("choice-candidates", choice=b.choice, current=cur, real=real, model=out)
        if b.initial() != b.default or b.copy_with_update(cur, 7) != 7:
            ctx.disagree("choice-initial-or-update", choice=b.choice)
    # ArrayBuilder2D.candidates / initial / copy_with_update
    cases, lines = [], []
    for _ in range(ctx.n(3000, 25000)):
        spec = gen_array_spec(rng)
        b = build_py(spec)
        malformed = rng.random() < 0.06
        grid = gen_grid_for(rng, spec)
        if malformed and grid:
            k = rng.random()
            if k < 0.5 and grid[0]:
                grid[rng.randrange(len(grid))].pop()
            else:
                grid.pop()
        seed = rng.randint(0, 10 ** 6)
        cases.append((spec, b, grid, seed, malformed))
        lines.append(sx(["c19_cands", seed, FUEL, array_cfg_sx(b), grid]))
        lines.append(sx(["c19_initial", array_cfg_sx(b)]))
    # the deterministic option combinations (custom offset lists x symmetry x use_move x board parities): the all-default
    # grid and one random (mostly symmetrised) grid each
    for label, spec in option_specs(rng):
        b = build_py(spec)
        for grid in (b.initial(), gen_grid_for(rng, spec)):
            seed = rng.randint(0, 10 ** 6)
            cases.append((spec, b, grid, seed, False))
            lines.append(sx(["c19_cands", seed, FUEL, array_cfg_sx(b), grid]))
            lines.append(sx(["c19_initial", array_cfg_sx(b)]))
        ctx.count("array.options:" + label.split(":")[1])
    outs = drv.run(lines)
    apply_cases, apply_lines = [], []
    for i, (spec, b, grid, seed, malformed) in enumerate(cases):
        out, out_init = outs[2 * i], outs[2 * i + 1]
        try:
            cands, real, pure = real_candidates(b, grid, seed)
        except RealCodeSkipped:
            ctx.count("skipped-after-hangs")
            continue
        except RealCodeHang as e:
            cands, real, pure = None, _err(e), True
        key = "array.candidates:" + ("sym" if b.symmetry else "nosym") + ("+move" if b.use_move else "") + \
              ("+adj" if b.disallow_adjacent else "") + (":malformed" if malformed else "")
        ctx.count(key)
        ctx.case({"cfg": sx(array_cfg_sx(b)), "grid": sx(grid), "seed": seed, "real": real[:300]},
                 ("cands", sx(array_cfg_sx(b)), sx(grid), seed) if cands else None)
        if real != out:
            ctx.disagree("array-candidates", cfg=sx(array_cfg_sx(b)), grid=sx(grid), seed=seed, real=real[:600], model=out[:600])
        if not pure:
            ctx.disagree("candidates-mutated-input", cfg=sx(array_cfg_sx(b)), grid=sx(grid))
        if sx(b.initial()) != out_init:
            ctx.disagree("array-initial", cfg=sx(array_cfg_sx(b)), real=sx(b.initial()), model=out_init)
        if cands:
            for u in rng.sample(cands, min(3, len(cands))):
                apply_cases.append((b, grid, u))
                apply_lines.append(sx(["c19_apply", grid, [list(t) for t in u]]))
    for (b, grid, u), out in zip(apply_cases, drv.run(apply_lines)):
        before = copy.deepcopy(grid)
        try:
            g2 = b.copy_with_update(grid, u)
            real = sx(g2)
            shares = any(r1 is r2 for r1 in g2 for r2 in grid)
        except Exception as e:
            real, shares = _err(e), False
        ctx.count("array.copy_with_update")
        if real != out:
            ctx.disagree("copy-with-update", grid=sx(grid), update=sx([list(t) for t in u]), real=real, model=out)
        if grid != before or shares:
            ctx.disagree("copy-with-update-not-pure", grid=sx(before), update=sx([list(t) for t in u]))
    # build_neighbor_generator
    cases, lines = [], []
    for _ in range(ctx.n(1200, 10000)):
        spec = gen_pattern_spec(rng)
        pat = build_py(spec)
        seed = rng.randint(0, 10 ** 6)
        walk = rng.randint(0, 3)
        cases.append((spec, pat, seed, walk))
    prepared = []
    for spec, pat, seed, walk in cases:
        sr.use_deterministic_prng(True, seed + 17)
        try:
            try:
                with _guard(30.0):
                    initial, gen = bd.build_neighbor_generator(pat)
                    prob = initial
                    for _ in range(walk):  # walk a few steps away from the initial problem
                        nb = list(gen(prob))
                        if not nb:
                            break
                        prob = nb[0]
                prepared.append((spec, pat, seed, initial, gen, prob, None))
            except Exception as e:
                prepared.append((spec, pat, seed, None, None, None, _err(e)))
        finally:
            sr.use_deterministic_prng(False)
    lines = []
    for spec, pat, seed, initial, gen, prob, err in prepared:
        lines.append(sx(["c19_enum", pat_sx(pat)]))
        lines.append(sx(["c19_nbrs", seed, FUEL, pat_sx(pat), prob_sx(pat, prob)]) if err is None else sx(["echo", "skip"]))
    outs = drv.run(lines)
    for i, (spec, pat, seed, initial, gen, prob, err) in enumerate(prepared):
        o_enum, o_nbrs = outs[2 * i], outs[2 * i + 1]
        ctx.count("neighbor_generator" + (":prep-error" if err else ""))
        if err is not None:
            ctx.disagree("build-neighbor-generator-raised", pattern=sx(pat_sx(pat)), real=err)
            continue
        m_init = sx(core.parse_sx(o_enum)[0])
        if sx(prob_sx(pat, initial)) != m_init:
            ctx.disagree("pattern-initial", pattern=sx(pat_sx(pat)), real=sx(prob_sx(pat, initial)), model=m_init)
        snap = copy.deepcopy(prob)
        sr.use_deterministic_prng(True, seed)
        try:
            try:
                nbrs = []
                real = None
                with _guard(30.0):
                    for q in gen(prob):
                        nbrs.append(q)
                    nxt = dr._rng.next()
                real = "(ok %s %d)" % (sx([prob_sx(pat, q) for q in nbrs]), nxt)
            except Exception as e:
                real = _err(e)
        finally:
            sr.use_deterministic_prng(False)
        ctx.case({"pattern": sx(pat_sx(pat))[:300], "seed": seed, "neighbours": len(nbrs)},
                 ("nbrs", sx(pat_sx(pat)), sx(prob_sx(pat, prob)), seed) if nbrs else None)
        if real != o_nbrs:
            ctx.disagree("neighbours", pattern=sx(pat_sx(pat)), problem=sx(prob_sx(pat, prob)), seed=seed,
                         real=real[:600], model=o_nbrs[:600])
        if prob != snap:
            ctx.disagree("generator-mutated-problem", pattern=sx(pat_sx(pat)))


# ---------------------------------------------------------------------------------------------
# (c) generate_problem

def accept_table(init_temp, decay, max_steps, dmax):
    rows = []
    t = init_temp
    for _ in range(max_steps):
        row = []
        for k in range(1, dmax + 1):
            try:
                e = math.exp((-k) / t)
                thr = min(D32, math.ceil(Fraction(e) * D32))
            except (OverflowError, ZeroDivisionError):
                thr = None
            row.append(thr)
        rows.append(row)
        t *= decay
    return rows


class Mock:
    def __init__(self, rng, small=False):
        self.salt = rng.randint(0, 10 ** 6)
        self.iw = rng.choice([0, 0, 1, 7])
        self.sat = rng.choice([100, 90, 60, 30])
        self.uniq = rng.choice([0, 2, 5, 15, 40])
        self.score_range = rng.choice([1, 3, 6])
        self.pre = rng.randint(0, 10 ** 6) if rng.random() < 0.4 else None
        self.pre_pct = rng.choice([50, 80])
        self.pen = rng.randint(0, 10 ** 6) if rng.random() < 0.4 else None
        self.pen_range = rng.choice([1, 2, 4])
        self.init_temp = rng.choice([5.0, 1.0, 0.3, 20.0])
        self.decay = rng.choice([0.995, 0.9, 0.5, 1.0])
        self.max_steps = rng.choice([None, 0, 1, 3, 8, 20, 40]) if not small else rng.choice([3, 8, 20])
        self.solve_initial = rng.random() < 0.4

    def steps(self):
        return 1000 if self.max_steps is None else self.max_steps

    def sx(self):
        tbl = accept_table(self.init_temp, self.decay, self.steps(), self.score_range + self.pen_range)
        return [self.salt, self.iw, self.sat, self.uniq, self.score_range,
                "N" if self.pre is None else self.pre, self.pre_pct,
                "N" if self.pen is None else self.pen, self.pen_range, tbl]


@guarded(30.0)
def real_generate(pat, mock, seed, pyseed):
    """Run the real generate_problem; returns (result, trace sexps, purity flag, soundness flag)."""
    dr, sr, bd, gc = _mods()
    trace = []      # (object, snapshot, tagged, sat, uniq)
    calls = [0]

    def solver(p):
        t = prob_sx(pat, p)
        h = mock_hash(prob_code(t), mock.salt + calls[0] * mock.iw)
        calls[0] += 1
        sat = h % 100 < mock.sat
        trace.append([p, copy.deepcopy(p), t, sat, None])
        return sat, h

    def uniqueness(a):
        u = (a // 100) % 100 < mock.uniq
        trace[-1][4] = u
        return u

    def score(a):
        return (a // 10000) % mock.score_range

    pretested = []

    def pretest(p):
        ok = mock_hash(prob_code(prob_sx(pat, p)), mock.pre) % 100 < mock.pre_pct
        pretested.append((copy.deepcopy(p), ok))
        return ok

    def penalty(p):
        return mock_hash(prob_code(prob_sx(pat, p)), mock.pen) % mock.pen_range

    pyrandom.seed(pyseed)
    sr.use_deterministic_prng(True, seed)
    try:
        try:
            # arguments that have their documented default value are omitted, so the defaults themselves are under test
            kw = {}
            if mock.pen is not None:
                kw["clue_penalty"] = penalty
            if mock.pre is not None:
                kw["pretest"] = pretest
            if mock.init_temp != 5.0:
                kw["initial_temperature"] = mock.init_temp
            if mock.decay != 0.995:
                kw["temperature_decay"] = mock.decay
            if mock.max_steps is not None:
                kw["max_steps"] = mock.max_steps
            if mock.solve_initial:
                kw["solve_initial_problem"] = True
            res = gc.generate_problem(solver, builder_pattern=pat, score=score, uniqueness=uniqueness, **kw)
            nxt = dr._rng.next()
            out = "(ok (%s %s) %d)" % ("N" if res is None else sx(prob_sx(pat, res)), sx([t[2] for t in trace]), nxt)
        except Exception as e:
            res, out = None, _err(e)
    finally:
        sr.use_deterministic_prng(False)
    pure = all(t[0] == t[1] for t in trace)
    sound = True
    if res is not None:
        hit = [t for t in trace if t[0] is res]
        sound = bool(hit) and hit[-1][3] and hit[-1][4] is True and \
            (mock.pre is None or any(p == res and ok for p, ok in pretested))
    return out, pure, sound


def gen_small_pattern(rng, nbr_small):
    if nbr_small:
        return rng.choice([("choice", [0, 1, 2], 0), ("L", [("choice", [1, 2], 1), ("C", 3)]),
                           ("array", 1, 2, [0, 1], 0, False, False, False, None)])
    while True:
        spec = gen_pattern_spec(rng, small=True)
        return spec


def corr_generate(ctx, drv):
    rng = ctx.rng
    cases, lines = [], []
    for i in range(ctx.n(1000, 8000)):
        mock = Mock(rng)
        spec = gen_small_pattern(rng, mock.max_steps is None)
        pat = build_py(spec)
        seed = rng.randint(0, 10 ** 6)
        cases.append((spec, pat, mock, seed))
        lines.append(sx(["c19_gen", seed, FUEL, pat_sx(pat), mock.sx(),
                         "N" if mock.max_steps is None else mock.max_steps, mock.solve_initial]))
    outs = drv.run(lines)
    for (spec, pat, mock, seed), out in zip(cases, outs):
        try:
            r1, pure1, sound1 = real_generate(pat, mock, seed, 12345)
            pat2 = build_py(spec)
            r2, pure2, sound2 = real_generate(pat2, mock, seed, 999)
            # ... and once more with the FIRST pattern object: a builder must not keep anything between runs
            r3, _, _ = real_generate(pat, mock, seed, 7)
        except RealCodeSkipped:
            ctx.count("skipped-after-hangs")
            continue
        except RealCodeHang as e:
            ctx.disagree("generate-hang", pattern=sx(pat_sx(pat)), seed=seed, what=str(e))
            continue
        found = not r1.startswith("(ok (N") and r1.startswith("(ok")
        ctx.count("generate:" + ("found" if found else "error" if r1.startswith("(err") else "none"))
        ctx.case({"pattern": sx(pat_sx(pat))[:200], "seed": seed, "max_steps": mock.max_steps, "real": r1[:200]},
                 ("gen", sx(pat_sx(pat)), seed, mock.salt) if r1.count("(") > 6 else None)
        detail = dict(pattern=sx(pat_sx(pat)), seed=seed, mock=sx(mock.sx()[:9]), max_steps=mock.max_steps,
                      solve_initial=mock.solve_initial, temp=[mock.init_temp, mock.decay])
        if "None" in sx(mock.sx()):
            ctx.disagree("harness-accept-table-overflow", **detail)
        if r1 != out:
            ctx.disagree("generate", real=r1[:500], model=out[:500], **detail)
        if r1 != r2:
            ctx.disagree("generate-not-reproducible", run1=r1[:300], run2=r2[:300], **detail)
        if r1 != r3:
            ctx.disagree("generate-not-reproducible-with-the-same-pattern-object", run1=r1[:300], run3=r3[:300], **detail)
        if not (pure1 and pure2):
            ctx.disagree("generate-mutated-earlier-problem", **detail)
        if not (sound1 and sound2):
            ctx.disagree("generate-unsound", real=r1[:300], **detail)
    # argument checks
    dr, sr, bd, gc = _mods()
    combos = [(a, b, c) for a in (False, True) for b in (False, True) for c in (False, True)]
    outs = drv.run([sx(["c19_args", a, b, c]) for a, b, c in combos])
    for (a, b, c), out in zip(combos, outs):
        try:
            gc.generate_problem(lambda p: (False,), initial_problem=0 if b else None,
                                neighbor_generator=(lambda p: iter(())) if c else None,
                                builder_pattern=bd.Choice([0, 1], 0) if a else None, max_steps=0)
            real = "ok"
        except Exception as e:
            real = _err(e)
        ctx.count("generate:args")
        if real != out:
            ctx.disagree("generate-args", has_pattern=a, has_initial=b, has_generator=c, real=real, model=out)


# ---------------------------------------------------------------------------------------------
# (d) SegmentationBuilder2D reproducibility (no model)

@guarded(30.0)
def segmentation_run(seed, pyseed, h=3, w=3, steps=3, pat=None, **kw):
    dr, sr, bd, gc = _mods()
    from cspuz.generator.segmentation import SegmentationBuilder2D
    pyrandom.seed(pyseed)
    sr.use_deterministic_prng(True, seed)
    try:
        if pat is None:
            pat = SegmentationBuilder2D(h, w, **kw)
        initial, gen = bd.build_neighbor_generator(pat)
        out = [copy.deepcopy(initial)]
        prob = initial
        for _ in range(steps):
            nb = list(gen(prob))
            out.append(copy.deepcopy(nb))
            if not nb:
                break
            prob = nb[0]
        return repr(out)
    finally:
        sr.use_deterministic_prng(False)


def seg_check(seed, kw):
    """None if reproducible, else a short description."""
    a = segmentation_run(seed, 1, **kw)
    b = segmentation_run(seed, 2, **kw)
    c = segmentation_run(seed, 1, **kw)
    if a != b:
        return "same deterministic seed %d, random.seed(1) vs random.seed(2): outputs differ (first run %s… second %s…; identical global seed reproduces: %s)" % (
            seed, a[:80], b[:80], a == c)
    # the same seed and the same pattern must give the same run also when the builder OBJECT is used a second time
    # (and after it has been used with another seed): a builder must not keep anything between runs
    from cspuz.generator.segmentation import SegmentationBuilder2D
    pat = SegmentationBuilder2D(3, 3, **kw)
    r1 = segmentation_run(seed, 1, pat=pat)
    segmentation_run(seed + 1, 1, pat=pat)
    r2 = segmentation_run(seed, 1, pat=pat)
    if r1 != a or r2 != a:
        return ("same deterministic seed %d and the same SegmentationBuilder2D(3, 3, %r) object used again: the run differs from a "
                "fresh builder's (fresh %s… first use %s… third use %s…)" % (seed, kw, a[:80], r1[:80], r2[:80]))
    return None


SEG_CONFIGS = [dict(min_block_size=2), dict(min_num_blocks=2, max_block_size=5), dict(max_block_size=4, min_num_blocks=3)]


def corr_segmentation(ctx):
    for i in range(ctx.n(12, 60)):
        kw = SEG_CONFIGS[i % len(SEG_CONFIGS)]
        seed = ctx.rng.randint(0, 1000)
        ctx.count("segmentation:reproducibility")
        d = _run(seg_check, seed, kw)
        ctx.case({"segmentation": kw, "seed": seed, "reproducible": d is None}, ("seg", seed, repr(kw)))
        if d:
            ctx.disagree("segmentation-global-random", seed=seed, config=kw, what=d)


def correspond(ctx):
    ctx.extra["rule"] = (
        "one PRNG drives everything. (a) 30/120 seeds (0, negative, > 2^32, > 2^64, random) x 10^4 raw outputs; 1500/12000 random call "
        "sequences (1-25 ops of next/random/randint/choice/shuffle; 30% with malformed ops: a > b, width > 2^32, empty choice), through "
        "deterministic_random or srandom. (b) Choice.candidates; ArrayBuilder2D with random h,w in 0..5, choice sets with/without the "
        "default and with duplicates, disallow_adjacent False/True/custom offsets, symmetry, use_move, optional initial grid; grids "
        "random, partly symmetrised, 6% malformed (ragged/short), plus every combination of 10 boards (2x2, 2x4, 4x4, 3x3, 4x5, ...) x 12 "
        "custom offset lists (diagonals, 8-neighbourhood, knight moves, distance-2 jumps, row/column only, the displacement between "
        "a cell and its own mirror image) x symmetry x use_move on the all-default and one random grid; candidates, initial, "
        "copy_with_update, and build_neighbor_generator "
        "on nested list/tuple/constant patterns a few steps away from the initial problem. (c) generate_problem with hash-based mock "
        "callbacks (solver optionally depending on the call index), pretest/clue_penalty on/off, solve_initial_problem, max_steps in "
        "{None,0,1,3,8,20,40}, four temperatures/decays; real run twice under different random.seed. (d) SegmentationBuilder2D twice "
        "under different random.seed. Non-trivial = a case that produced candidates / neighbours / a trace with >= 2 problems; distinct "
        "by full input.")
    ctx.extra["assumptions"] = [
        "scores are integers and callbacks are total functions; the float acceptance test is the abstract parameter `accept` "
        "(the driver uses the table of thresholds ceil(exp(delta/T)*2^32) computed by the harness with Python floats)",
        "model randint returns a + x % w (documented behaviour); the unchanged tree returned x % w (D14)",
        "purity (no mutation of earlier problems) and independence from `random`'s global state are decided by this run, not by a theorem",
    ]
    drv = core.Driver()
    _guard.hangs = 0
    corr_prng(ctx, drv)
    corr_builders(ctx, drv)
    corr_generate(ctx, drv)
    corr_segmentation(ctx)
    for what in sorted(set(CTOR_MISMATCH))[:3]:
        ctx.count("builder-constructor-mismatch")
        ctx.disagree("builder-constructor", what=what)
        if not hasattr(ctx, "concrete"):
            ctx.concrete = []
        ctx.concrete.append(Finding("builder:constructor-defaults", what, {"kind": "ctor", "what": what}))
    del CTOR_MISMATCH[:]
    if not ctx.quick():
        for f in search(ctx, None):
            ctx.disagree("oracle:" + f.signature, what=f.what[:400])
        ctx.extra["semantic_differential"] = (
            "thorough tier: the plain-Python oracles of search() (randint on [-5,5]^2 and wide ranges, choice/shuffle/random "
            "statistics, ArrayBuilder2D option invariants on 1500 random walks, neighbour and whole-run oracles) are run on the "
            "real code as well (a bounded test, not a proof)")


# ---------------------------------------------------------------------------------------------
# search: independent oracles on the real code

def check_xorshift_range(seed, n=3000):
    dr, _, _, _ = _mods()
    g = dr.XorShift(seed)
    for i in range(n):
        x = g.next()
        if not (isinstance(x, int) and 0 <= x < D32):
            return "XorShift(%d).next() call %d returned a value of %d bits, outside [0, 2^32)" % (seed, i, x.bit_length())
    dr.seed(seed)
    for i in range(n):
        r = dr.random()
        if not (0.0 <= r < 1.0):
            return "random() call %d after seed(%d) returned %r, outside [0, 1)" % (i, seed, r)
    return None


def _short(x):
    if isinstance(x, int) and x.bit_length() > 256:
        return "<int of %d bits>" % x.bit_length()
    return x


@guarded(30.0)
def check_randint(a, b, seed, draws=None):
    dr, _, _, _ = _mods()
    dr.seed(seed)
    if a > b:
        try:
            r = dr.randint(a, b)
            return "randint(%d, %d) returned %r instead of raising ValueError" % (a, b, r)
        except ValueError:
            return None
    w = b - a + 1
    n = draws or 60 * w + 40
    seen = set()
    for i in range(n):
        r = dr.randint(a, b)
        if not (a <= r <= b):
            return "randint(%d, %d) returned %d (draw %d after seed(%d)), outside [%d, %d]" % (a, b, r, i, seed, a, b)
        seen.add(r)
    if len(seen) != w:
        return "randint(%d, %d) never returned %s in %d draws" % (a, b, sorted(set(range(a, b + 1)) - seen), n)
    return None


@guarded(15.0)
def check_randint_wide(a, w, seed, draws=400):
    """Wide ranges: every quarter of [a, a + w - 1] must receive its share of the draws."""
    dr, _, _, _ = _mods()
    dr.seed(seed)
    b = a + w - 1
    q = [0, 0, 0, 0]
    for i in range(draws):
        r = dr.randint(a, b)
        if not (a <= r <= b):
            return "randint(%d, %d) returned %d, outside the range" % (a, b, r)
        q[min(3, (r - a) * 4 // w)] += 1
    if min(q) < draws // 8:
        return "randint(%d, %d) is far from uniform: %d draws fell into the four quarters of the range as %r (expected about %d each)" % (
            a, b, draws, q, draws // 4)
    return None


@guarded(30.0)
def check_choice_shuffle_random(seed):
    dr, _, _, _ = _mods()
    dr.seed(seed)
    try:
        dr.choice([])
        return "choice([]) did not raise ValueError"
    except ValueError:
        pass
    cand = [3, 1, 4, 1, 5]
    seen = set()
    for _ in range(400):
        c = dr.choice(cand)
        if c not in cand:
            return "choice returned %r not in %r" % (c, cand)
        seen.add(c)
    if seen != set(cand):
        return "choice never returned %r" % sorted(set(cand) - seen)
    import itertools
    counts = {}
    for _ in range(2400):
        l = [0, 1, 2, 3]
        dr.shuffle(l)
        if sorted(l) != [0, 1, 2, 3]:
            return "shuffle produced a non-permutation %r" % l
        counts[tuple(l)] = counts.get(tuple(l), 0) + 1
    if len(counts) != 24:
        return "shuffle of 4 elements produced only %d of 24 permutations" % len(counts)
    if min(counts.values()) < 50 or max(counts.values()) > 160:
        return "shuffle far from uniform: counts range %d..%d (expected 100)" % (min(counts.values()), max(counts.values()))
    for _ in range(2000):
        r = dr.random()
        if not (0.0 <= r < 1.0):
            return "random() returned %r outside [0, 1)" % r
    return None


def _cells(g):
    return {(y, x): v for y, r in enumerate(g) for x, v in enumerate(r)}


@guarded(30.0)
def check_builder_invariants(spec, seed, steps=6):
    """Walk from the initial grid taking random candidates; check the property's builder clauses directly."""
    dr, sr, bd, _ = _mods()
    b = build_py(spec)
    _, h, w, vals, d, dis, sym, move, initial = spec
    D = set(b.disallow_adjacent)
    closed = all((-dy, -dx) in D for dy, dx in D) and (0, 0) not in D
    allowed = set(vals) | {d}
    rng = pyrandom.Random(seed)

    def is_sym(g):
        return all((g[y][x] == d) == (g[h - 1 - y][w - 1 - x] == d) for y in range(h) for x in range(w))

    def no_adj(g):
        for y in range(h):
            for x in range(w):
                for dy, dx in D:
                    y2, x2 = y + dy, x + dx
                    if 0 <= y2 < h and 0 <= x2 < w and g[y][x] != d and g[y2][x2] != d:
                        return False
        return True

    def value_setting(c1, c2):
        """Is the step c1 -> c2 a value-setting update (as opposed to a move of existing values, which use_move adds and for
        which the property does not demand the adjacency option)?  Judged by its effect, not by the form of the update: one
        cell - or, under symmetry, a cell and its mirror image - changes, and the result is not a rearrangement of the values."""
        if not move:
            return True
        diff = sorted(p for p in c1 if c1[p] != c2[p])
        if not diff or sorted(map(repr, c1.values())) == sorted(map(repr, c2.values())):
            return False
        if len(diff) == 1:
            return True
        return bool(sym) and len(diff) == 2 and diff[1] == (h - 1 - diff[0][0], w - 1 - diff[0][1])

    sr.use_deterministic_prng(True, seed)
    try:
        g = b.initial()
        hist = []
        for _ in range(steps):
            cur_allowed = allowed | set(_cells(g).values())
            cands = b.candidates(g)
            snap = copy.deepcopy(g)
            hist.append((g, snap))
            for u in cands:
                g2 = b.copy_with_update(g, u)
                if g != snap:
                    return "copy_with_update mutated its input"
                named = {(y, x) for y, x, _ in u}
                c1, c2 = _cells(g), _cells(g2)
                if set(c1) != set(c2):
                    return "update %r changes the shape" % (u,)
                for p in c1:
                    if c1[p] != c2[p]:
                        if p not in named:
                            return "update %r changed cell %r which it does not name" % (u, p)
                        if c2[p] not in (cur_allowed if move else allowed):
                            return "update %r wrote %r, not in choice+default" % (u, c2[p])
                if sym and is_sym(g) and not is_sym(g2):
                    return "symmetry: update %r of symmetric grid %r gives asymmetric %r" % (u, g, g2)
                if closed and value_setting(c1, c2) and no_adj(g) and (not sym or is_sym(g)) and not no_adj(g2):
                    return "adjacency: value update %r of %r creates non-default cells at a forbidden offset (one of %r): %r" % (
                        u, g, sorted(D), g2)
            if not cands:
                break
            g = b.copy_with_update(g, rng.choice(cands))
        for obj, snap in hist:
            if obj != snap:
                return "an earlier problem was mutated"
    finally:
        sr.use_deterministic_prng(False)
    return None


def _builder_values(spec, prob, pos=()):
    """{position: (builder spec, value)} for every builder of the pattern; raises if the shapes differ."""
    k = spec[0]
    if k in ("choice", "array"):
        return {pos: (spec, prob)}
    if k == "C":
        if prob != spec[1]:
            raise ValueError("constant %r of the pattern became %r" % (spec[1], prob))
        return {}
    if not isinstance(prob, list if k == "L" else tuple) or len(prob) != len(spec[1]):
        raise ValueError("the problem no longer has the shape of the pattern at %r" % (pos,))
    out = {}
    for i, (sp, q) in enumerate(zip(spec[1], prob)):
        out.update(_builder_values(sp, q, pos + (i,)))
    return out


@guarded(30.0)
def check_pattern_neighbours(spec, seed, steps=3):
    """Every neighbour differs from the current problem at exactly one builder, by values of that builder."""
    dr, sr, bd, _ = _mods()
    pat = build_py(spec)
    sr.use_deterministic_prng(True, seed)
    try:
        prob, gen = bd.build_neighbor_generator(pat)
        seen = []
        for _ in range(steps):
            snap = copy.deepcopy(prob)
            cur = _builder_values(spec, prob)
            nbrs = list(gen(prob))
            if prob != snap:
                return "the generator mutated the current problem"
            for q in nbrs:
                seen.append((q, copy.deepcopy(q)))
                try:
                    new = _builder_values(spec, q)
                except ValueError as e:
                    return "neighbour %r of %r: %s" % (q, prob, e)
                diff = [p for p in cur if cur[p][1] != new[p][1]]
                if len(diff) == 0:
                    return "a neighbour equals the current problem %r (it offers no change)" % (prob,)
                if len(diff) > 1:
                    return "neighbour %r of %r changes %d builders at once" % (q, prob, len(diff))
                bs, old = cur[diff[0]]
                val = new[diff[0]][1]
                if bs[0] == "choice":
                    if val not in bs[1]:
                        return "Choice%r moved from %r to %r, not in its choice set" % (bs[1:], old, val)
                else:
                    allowed = set(bs[3]) | {bs[4]} | ({v for r in old for v in r} if bs[7] else set())
                    c1, c2 = _cells(old), _cells(val)
                    if set(c1) != set(c2) or any(c2[p] not in allowed for p in c1 if c1[p] != c2[p]):
                        return "ArrayBuilder2D neighbour %r of %r changes the shape or writes a foreign value" % (val, old)
            if not nbrs:
                break
            prob = nbrs[0]
        for obj, snap in seen:
            if obj != snap:
                return "an earlier neighbour was mutated"
    finally:
        sr.use_deterministic_prng(False)
    return None


def check_generate(spec, mock, seed):
    pat = build_py(spec)
    r1, pure1, sound1 = real_generate(pat, mock, seed, 1)
    r2, pure2, sound2 = real_generate(build_py(spec), mock, seed, 2)
    if r1 != r2:
        return "generate_problem differs between random.seed(1) and random.seed(2) with deterministic seed %d" % seed
    if not (pure1 and pure2):
        return "generate_problem mutated a problem it had already handed to the solver"
    if not (sound1 and sound2):
        return "generate_problem returned a problem that was not (solver: sat, uniqueness: accepted, pretest: accepted)"
    return None


_XPROC = r"""
import sys, random, json
sys.path.insert(0, sys.argv[1])
import cspuz.generator.srandom as srandom
from cspuz.generator import ArrayBuilder2D, Choice, build_neighbor_generator, SegmentationBuilder2D
random.seed(int(sys.argv[2]))
out = []
for cfg in json.loads(sys.argv[3]):
    srandom.use_deterministic_prng(True, cfg["seed"])
    if cfg["kind"] == "array":
        b = ArrayBuilder2D(cfg["h"], cfg["w"], cfg["choice"], default=cfg["default"], symmetry=cfg["symmetry"],
                           disallow_adjacent=cfg["adj"], use_move=cfg["move"])
        pat = [b, Choice(cfg["choice"], cfg["default"])]
    else:
        pat = SegmentationBuilder2D(3, 3, min_block_size=2)
    init, gen = build_neighbor_generator(pat)
    cur = init
    for step in range(3):
        nb = []
        for k, p in enumerate(gen(cur)):
            nb.append(repr(p))
            if k >= 7:
                break
        out.append(nb)
        if nb:
            cur = eval(nb[0])
print(json.dumps(out))
"""


def check_cross_process():
    """Same XorShift seed in fresh interpreters that differ in PYTHONHASHSEED and random.seed: identical candidate sequences."""
    import json as _json
    import subprocess
    cfgs = []
    for seed in (0, 12345):
        for sym in (False, True):
            for move in (False, True):
                cfgs.append({"kind": "array", "seed": seed, "h": 3, "w": 4, "choice": ["..", "u1", "d2", "l3", "r4", "u2"], "default": "..",
                             "symmetry": sym, "adj": False, "move": move})
                cfgs.append({"kind": "array", "seed": seed, "h": 2, "w": 3, "choice": [0, 1, 2, 7], "default": 0,
                             "symmetry": sym, "adj": True, "move": move})
        cfgs.append({"kind": "seg", "seed": seed})
    outs = []
    for hs, ps in (("1", 1), ("2", 2), ("12345", 99)):
        env = dict(os.environ)
        env["PYTHONHASHSEED"] = hs
        p = subprocess.run([sys.executable, "-c", _XPROC, core.REPO, str(ps), _json.dumps(cfgs)], env=env,
                           stdout=subprocess.PIPE, stderr=subprocess.PIPE, text=True, timeout=300)
        if p.returncode != 0:
            return ("cross-process probe failed: " + p.stderr[-300:], {"kind": "cross-process"})
        outs.append(_json.loads(p.stdout))
    for k in range(1, len(outs)):
        if outs[k] != outs[0]:
            steps_per = 3
            for i, (a, b) in enumerate(zip(outs[0], outs[k])):
                if a != b:
                    cfg = cfgs[i // steps_per]
                    return ("with use_deterministic_prng(True, %d) the candidate sequence of %r differs between two fresh interpreters that "
                            "differ only in PYTHONHASHSEED / random.seed(): %s vs %s" % (cfg["seed"], cfg, a[:2], b[:2]),
                            {"kind": "cross-process", "config": cfg})
    return None


def search(ctx, why):
    found = {}

    def add(sig, what, data):
        if sig not in found:
            found[sig] = Finding(sig, what, data)
    _guard.hangs = 0
    for seed in (0, 1, -1, 12345, D32 + 7):
        ctx.count("search:xorshift-range")
        d = check_xorshift_range(seed)
        if d:
            add("xorshift:range", d, {"kind": "xorshift", "seed": seed})
    # randint on all (a, b) in [-5, 5]^2
    for a in range(-5, 6):
        for b in range(-5, 6):
            ctx.count("search:randint")
            d = _run(check_randint, a, b, seed=7)
            if d and not d.startswith("randint"):
                d = "randint(%d, %d): %s" % (a, b, d)
            if d:
                sig = "randint:lower-bound" if a <= b else "randint:no-valueerror"
                add(sig, "deterministic_random." + d + " — the documented range is [a, b]", {"kind": "randint", "a": a, "b": b, "seed": 7})
    for wide in ((0, D32), (-3, D32)):
        dr, _, _, _ = _mods()
        try:
            with _guard(5.0):
                dr.randint(*wide)
            add("randint:too-wide", "randint%r did not raise ValueError" % (wide,), {"kind": "randint-wide", "a": wide[0], "b": wide[1]})
        except (ValueError, RealCodeSkipped):
            pass
        except Exception as e:
            add("randint:too-wide", "randint%r raised %s instead of ValueError" % (wide, core.err_name(e)),
                {"kind": "randint-wide", "a": wide[0], "b": wide[1]})
    for a, w in ((0, 3 << 30), (-7, 3 << 30), (5, (1 << 31) + 1), (0, D32 - 1), (-(1 << 31), D32), (0, 5 << 29), (0, 1000)):
        ctx.count("search:randint-wide")
        d = _run(check_randint_wide, a, w, seed=11)
        if d and not d.startswith("randint"):
            d = "randint(%d, %d): %s" % (a, a + w - 1, d)
        if d:
            add("randint:lower-bound" if "outside the range" in d else "randint:not-uniform", "deterministic_random." + d,
                {"kind": "randint-uniform", "a": a, "w": w, "seed": 11})
    for seed in range(ctx.n(3, 10)):
        ctx.count("search:choice-shuffle-random")
        d = _run(check_choice_shuffle_random, seed)
        if d:
            add("prng:" + d.split(" ")[0], d, {"kind": "csr", "seed": seed})
    # builder clauses on the real objects: first the deterministic option combinations (custom offset lists incl. diagonals,
    # knight moves, long jumps and mirror displacements x symmetry x use_move x even / odd boards) ...
    for k, (label, spec) in enumerate(option_specs()):
        for seed in (k, k + 1000):
            ctx.count("search:builder-options")
            d = _run(check_builder_invariants, spec, seed=seed)
            if d:
                add("builder:" + d.split(":")[0].split(" ")[0], "ArrayBuilder2D%r [%s] seed %d: %s" % (spec[1:], label, seed, d),
                    {"kind": "builder", "spec": _jsonable(spec), "seed": seed})
        for mode in ("all-neighbours", "anneal"):
            ctx.count("search:generate-options")
            d = _run(check_generate_options, spec, seed=k, mode=mode)
            if d:
                add("generate:solver-given-" + _complaint_kind(d),
                    "generate_problem(builder_pattern=ArrayBuilder2D%r) [%s] under use_deterministic_prng(True, %d), %s: %s" % (
                        spec[1:], label, k, mode, d),
                    {"kind": "generate-options", "spec": _jsonable(spec), "seed": k, "mode": mode})
    # ... then random ones
    rng = pyrandom.Random(ctx.seed * 7919 + 5)
    for i in range(ctx.n(150, 1500)):
        spec = list(gen_array_spec(rng, small=True))
        spec[8] = None
        spec = tuple(spec)
        ctx.count("search:builder")
        d = _run(check_builder_invariants, spec, seed=i)
        if d:
            add("builder:" + d.split(":")[0].split(" ")[0], "ArrayBuilder2D%r seed %d: %s" % (spec[1:], i, d),
                {"kind": "builder", "spec": list(spec), "seed": i})
    for i in range(ctx.n(150, 1500)):
        spec = gen_pattern_spec(rng, small=True)
        ctx.count("search:neighbours")
        d = _run(check_pattern_neighbours, spec, seed=i)
        if d:
            add("neighbours:" + "-".join(d.split(" ")[:3]), "pattern %s seed %d: %s" % (sx(pat_sx(build_py(spec)))[:300], i, d),
                {"kind": "neighbours", "spec": _jsonable(spec), "seed": i})
    # soundness / reproducibility / purity of whole runs
    for i in range(ctx.n(40, 400)):
        mock = Mock(rng, small=True)
        spec = gen_pattern_spec(rng, small=True)
        ctx.count("search:generate")
        d = _run(check_generate, spec, mock, seed=i)
        if d:
            add("generate:" + "-".join(d.split(" ")[1:3]), d, {"kind": "generate", "spec": _jsonable(spec), "seed": i, "mock": mock.__dict__})
    # reproducibility ACROSS PROCESSES: same deterministic seed, different PYTHONHASHSEED / random.seed -> same candidates
    d = check_cross_process()
    ctx.count("search:cross-process")
    if d:
        add("reproducibility:cross-process", d[0], d[1])
    # segmentation
    for i, kw in enumerate(SEG_CONFIGS):
        for seed in range(3):
            ctx.count("search:segmentation")
            d = _run(seg_check, seed, kw)
            if d and not d.startswith("same deterministic seed"):
                add("segmentation:" + d.split(" ")[0], "SegmentationBuilder2D(3, 3, %r) seed %d: %s" % (kw, seed, d),
                    {"kind": "segmentation", "seed": seed, "config": kw})
            elif d:
                add("segmentation:global-random",
                    "SegmentationBuilder2D(3, 3, %s) under use_deterministic_prng(True, %d): %s — it draws from the global `random` "
                    "module (random.choice / random.randint in generator/segmentation.py) instead of cspuz.generator.srandom" % (
                        ", ".join("%s=%r" % kv for kv in kw.items()), seed, d),
                    {"kind": "segmentation", "seed": seed, "config": kw})
    return list(found.values())


def _complaint_kind(d):
    for k in ("adjacency", "symmetry", "values", "shape", "mutated"):
        if k in d:
            return k
    return "other"


def _jsonable(spec):
    if isinstance(spec, tuple):
        return [_jsonable(s) for s in spec]
    if isinstance(spec, list):
        return [_jsonable(s) for s in spec]
    return spec


def _spec_from_json(j):
    if isinstance(j, list) and j and j[0] in ("choice", "array", "C", "L", "T"):
        if j[0] in ("L", "T"):
            return (j[0], [_spec_from_json(s) for s in j[1]])
        if j[0] == "array":
            dis = j[5]
            if isinstance(dis, list):
                dis = [tuple(p) for p in dis]
            return ("array", j[1], j[2], j[3], j[4], dis, j[6], j[7], j[8])
        return tuple(j)
    return j


def replay(ctx, data):
    if data.get("kind") == "cross-process":
        d = check_cross_process()
        return Finding("reproducibility:cross-process", d[0], d[1]) if d else None
    k = data.get("kind")
    if k == "randint-boundary":
        bad = randint_boundary_failures()
        return Finding("randint:rejection-boundary", bad[0], data) if bad else None
    if k == "randint":
        d = check_randint(data["a"], data["b"], data["seed"])
        return Finding("randint:lower-bound" if data["a"] <= data["b"] else "randint:no-valueerror", d, data) if d else None
    if k == "xorshift":
        d = check_xorshift_range(data["seed"])
        return Finding("xorshift:range", d, data) if d else None
    if k == "randint-uniform":
        try:
            d = check_randint_wide(data["a"], data["w"], data["seed"])
        except Exception as e:
            d = "raised %s: %s" % (core.err_name(e), e)
        return Finding("randint:not-uniform", d, data) if d else None
    if k == "randint-wide":
        dr, _, _, _ = _mods()
        try:
            with _guard(5.0):
                dr.randint(data["a"], data["b"])
            return Finding("randint:too-wide", "no ValueError", data)
        except ValueError:
            return None
        except Exception as e:
            return Finding("randint:too-wide", "raised %s instead of ValueError" % core.err_name(e), data)
    if k == "csr":
        d = check_choice_shuffle_random(data["seed"])
        return Finding("prng:" + d.split(" ")[0], d, data) if d else None
    if k == "builder":
        d = check_builder_invariants(_spec_from_json(data["spec"]), data["seed"])
        return Finding("builder:replay", d, data) if d else None
    if k == "generate-options":
        try:
            d = check_generate_options(_spec_from_json(data["spec"]), data["seed"], data["mode"])
        except Exception as e:
            d = "raised %s: %s" % (core.err_name(e), e)
        return Finding("generate:solver-given-" + _complaint_kind(d), d, data) if d else None
    if k == "neighbours":
        try:
            d = check_pattern_neighbours(_spec_from_json(data["spec"]), data["seed"])
        except Exception as e:
            d = "raised %s: %s" % (core.err_name(e), e)
        return Finding("neighbours:replay", d, data) if d else None
    if k == "generate":
        m = Mock(pyrandom.Random(0))
        m.__dict__.update(data["mock"])
        d = check_generate(_spec_from_json(data["spec"]), m, data["seed"])
        return Finding("generate:replay", d, data) if d else None
    if k == "segmentation":
        d = seg_check(data["seed"], data["config"])
        return Finding("segmentation:global-random", d, data) if d else None
    return None
