"""One module per bundled puzzle solver (property C11).  See harness/puzzles/README.md for the interface."""
import importlib
import os
import pkgutil


def load_all():
    mods = []
    here = os.path.dirname(__file__)
    for m in sorted(pkgutil.iter_modules([here]), key=lambda m: m.name):
        if m.name.startswith("_"):
            continue
        mods.append(importlib.import_module("harness.puzzles." + m.name))
    return mods
