"""solve_star_battle(n, blocks, k).

Published rules (Star Battle, puzz.link / WPC instruction booklets):
  1. Place stars in some cells of the n x n grid.
  2. Every row, every column and every outlined region contains exactly k stars.
  3. Stars do not touch each other, not even diagonally.

Problem format of the module: `n`, the star count `k` and `blocks`, an n x n table of region ids `0 .. n-1`
(`blocks[y][x]` = id of the region that cell (y, x) belongs to).  Well-formed: `blocks` is n x n and every id is in
`range(n)`.  The board is square by construction (one size parameter), so there is no non-square case.
"""
import itertools

NAME = "star_battle"
STATUS = "theorem"
THEOREMS = ["Cspuz.C11.StarBattle.program_iff_rules", "Cspuz.C11.StarBattle.total"]
LEAN_FILE = "C11_StarBattle"
LEAN_CMD = "puz_star_battle"


def _grow_regions(rng, n, nreg):
    """Random division of the n x n board into `nreg` orthogonally connected regions (ids 0..nreg-1)."""
    cells = [(y, x) for y in range(n) for x in range(n)]
    seeds = rng.sample(cells, nreg)
    bid = {c: i for i, c in enumerate(seeds)}
    while len(bid) < len(cells):
        cand = []
        for (y, x), i in bid.items():
            for dy, dx in ((-1, 0), (1, 0), (0, -1), (0, 1)):
                c = (y + dy, x + dx)
                if 0 <= c[0] < n and 0 <= c[1] < n and c not in bid:
                    cand.append((c, i))
        cand.sort()
        c, i = rng.choice(cand)
        bid[c] = i
    return [[bid[(y, x)] for x in range(n)] for y in range(n)]


def gen_problem(rng, tier):
    r = rng.random()
    if tier == "quick":
        n = 1 if r < 0.1 else 2 if r < 0.2 else 3 if r < 0.45 else 4
    else:
        n = 1 if r < 0.05 else 2 if r < 0.12 else 3 if r < 0.3 else 4 if r < 0.75 else 5
    r = rng.random()
    k = 1 if r < 0.7 else 0 if r < 0.8 else 2 if r < 0.95 else 3
    if n == 5 and k == 2:
        k = 1     # keeps the answer space (rows with exactly k stars) below 5**5
    return _gen(rng, n, k)


def extra_program_problems(rng):
    """Larger boards for the program correspondence only (nothing is enumerated there; the board is square by construction):
    10 x 10 with two stars, and 17 x 17 (more than 256 cells) with three stars / 16 x 16 with one."""
    return [_gen(rng, 10, 2), _gen(rng, 17, 3), _gen(rng, 16, 1)]


def _gen(rng, n, k):
    style = rng.random()
    if style < 0.6:
        blocks = _grow_regions(rng, n, n)                       # n connected regions
        perm = list(range(n))
        rng.shuffle(perm)
        blocks = [[perm[v] for v in row] for row in blocks]
    elif style < 0.75:
        blocks = _grow_regions(rng, n, rng.randint(1, n))       # fewer regions than n: some ids unused
    elif style < 0.85:
        # rows / columns as regions (always solvable whenever the row/column rules are)
        blocks = [[(y if style < 0.8 else x) for x in range(n)] for y in range(n)]
    else:
        blocks = [[rng.randrange(n) for _ in range(n)] for _ in range(n)]   # arbitrary (possibly disconnected) regions
    return {"n": n, "k": k, "blocks": blocks}


def solve_args(problem):
    return (problem["n"], problem["blocks"], problem["k"]), {}


def keys(problem, result):
    return list(result[0].data)


def answer_space(problem):
    n, k = problem["n"], problem["k"]
    if n * n <= 12:
        for vals in itertools.product([False, True], repeat=n * n):
            yield list(vals)
        return
    # larger boards: only grids whose rows already hold exactly k stars (a superset of the rule-obeying grids)
    rows = [list(p) for p in itertools.product([False, True], repeat=n) if sum(p) == k]
    for combo in itertools.product(rows, repeat=n):
        yield [v for row in combo for v in row]


def rule_check(problem, answer):
    n, k, blocks = problem["n"], problem["k"], problem["blocks"]
    star = [answer[y * n:(y + 1) * n] for y in range(n)]
    # rule 2: rows and columns
    for i in range(n):
        if sum(1 for x in range(n) if star[i][x]) != k:
            return False
        if sum(1 for y in range(n) if star[y][i]) != k:
            return False
    # rule 2: regions = the classes of cells carrying the same id
    regions = {}
    for y in range(n):
        for x in range(n):
            regions.setdefault(blocks[y][x], []).append((y, x))
    # READING: a region is a non-empty set of cells; an id of range(n) that no cell carries is not a region.
    # (The solver posts "k stars among no cells" for it; since the rows force n*k stars in total and the regions
    # (#regions)*k, both views agree on every instance.)
    for cells in regions.values():
        if sum(1 for (y, x) in cells if star[y][x]) != k:
            return False
    # rule 3: no two stars in cells sharing a side or a corner
    for y in range(n):
        for x in range(n):
            if not star[y][x]:
                continue
            for dy in (-1, 0, 1):
                for dx in (-1, 0, 1):
                    if (dy or dx) and 0 <= y + dy < n and 0 <= x + dx < n and star[y + dy][x + dx]:
                        return False
    return True


def classify(problem, description):
    if "raised" in description:
        return "exception"
    return "n%d-k%d" % (problem["n"], problem["k"])


def lean_line(problem):
    rows = " ".join("(" + " ".join(str(v) for v in row) + ")" for row in problem["blocks"])
    return "(puz_star_battle %d (%s) %d)" % (problem["n"], rows, problem["k"])
