"""solve_lits(height, width, blocks) -- LITS (puzz.link "lits", Nikoli).

Rule text implemented by `rule_check` (Nikoli):
  1. In every region (room) shade exactly four cells that form a tetromino, i.e. four orthogonally connected cells.
  2. All shaded cells of the board form one orthogonally connected area.
  3. No 2 x 2 block of cells is entirely shaded.
  4. Two tetrominoes of the same shape (L, I, T, S; rotations and reflections count as the same shape) in different regions
     must not share an edge.

Problem format of the module: `blocks` = list of regions, each a list of (y, x) cells; the regions partition the board
(every region of a published LITS is connected; the generator below also emits a few instances with a disconnected or a
too-small region, which the rules simply make unsatisfiable or restrict).
Answer key: `is_black` (height x width, row-major); True = shaded.
"""
import itertools

NAME = "lits"
STATUS = "model+differential"
THEOREMS = []
LEAN_CMD = "puz_lits"

_SIZES = [(1, 4), (4, 1), (2, 2), (2, 3), (3, 2), (2, 4), (4, 2), (3, 3), (3, 4), (4, 3), (3, 4), (4, 3), (2, 5), (5, 2),
          (2, 6), (6, 2), (3, 5), (5, 3), (4, 4)]
_DIRS = ((-1, 0), (1, 0), (0, -1), (0, 1))


def _partition(rng, h, w, k):
    """k connected regions grown from random seeds."""
    cells = [(y, x) for y in range(h) for x in range(w)]
    seeds = rng.sample(cells, k)
    owner = {s: i for i, s in enumerate(seeds)}
    while len(owner) < len(cells):
        frontier = [(c, owner[(c[0] + dy, c[1] + dx)]) for c in cells if c not in owner
                    for dy, dx in _DIRS if (c[0] + dy, c[1] + dx) in owner]
        c, i = rng.choice(frontier)
        owner[c] = i
    blocks = [[] for _ in range(k)]
    for c in cells:
        blocks[owner[c]].append(list(c))
    return blocks


def gen_problem(rng, tier):
    h, w = rng.choice(_SIZES)
    n = h * w
    kmax = max(1, n // 4)
    k = rng.randint(1, min(kmax, 3)) if rng.random() < 0.85 else rng.randint(1, min(n, kmax + 1))
    blocks = _partition(rng, h, w, k)
    r = rng.random()
    if r < 0.3:
        rng.shuffle(blocks)
        for b in blocks:
            rng.shuffle(b)
    elif r < 0.36 and len(blocks) >= 2:
        # a disconnected region: merge two regions (possibly not adjacent)
        a = blocks.pop()
        blocks[0] = blocks[0] + a
    return {"height": h, "width": w, "blocks": blocks}


def solve_args(problem):
    return (problem["height"], problem["width"], [[(y, x) for y, x in b] for b in problem["blocks"]]), {}


def keys(problem, result):
    return list(result[0].data)


def answer_space(problem):
    h, w = problem["height"], problem["width"]
    n = h * w
    if n <= 12:
        for vals in itertools.product((False, True), repeat=n):
            yield list(vals)
        return
    # larger boards: all grids with exactly four shaded cells in every region (a superset of the rule-obeying grids, rule 1)
    opts = [list(itertools.combinations([y * w + x for y, x in b], 4)) for b in problem["blocks"]]
    for combo in itertools.product(*opts):
        g = [False] * n
        for sel in combo:
            for i in sel:
                g[i] = True
        yield g


def _shape(cells):
    """canonical form of a polyomino under the 8 symmetries of the square"""
    best = None
    pts = list(cells)
    for _ in range(2):
        for _ in range(4):
            pts = [(x, -y) for y, x in pts]                 # rotate
            my = min(p[0] for p in pts)
            mx = min(p[1] for p in pts)
            norm = tuple(sorted((p[0] - my, p[1] - mx) for p in pts))
            if best is None or norm < best:
                best = norm
        pts = [(y, -x) for y, x in pts]                     # reflect
    return best


def _connected(cells):
    cells = set(cells)
    if not cells:
        return True
    start = next(iter(cells))
    seen = {start}
    todo = [start]
    while todo:
        y, x = todo.pop()
        for dy, dx in _DIRS:
            p = (y + dy, x + dx)
            if p in cells and p not in seen:
                seen.add(p)
                todo.append(p)
    return len(seen) == len(cells)


def rule_check(problem, answer):
    h, w, blocks = problem["height"], problem["width"], problem["blocks"]
    black = {(y, x) for y in range(h) for x in range(w) if answer[y * w + x]}
    region = {}
    shapes = []
    for i, b in enumerate(blocks):
        mine = [(y, x) for y, x in b if (y, x) in black]
        if len(mine) != 4 or not _connected(mine):
            return False
        shapes.append(_shape(mine))
        for y, x in b:
            region[(y, x)] = i
    if not _connected(black):
        return False
    for y in range(h - 1):
        for x in range(w - 1):
            if all((y + dy, x + dx) in black for dy in (0, 1) for dx in (0, 1)):
                return False
    for (y, x) in black:
        for dy, dx in ((1, 0), (0, 1)):
            q = (y + dy, x + dx)
            if q in black and region[q] != region[(y, x)] and shapes[region[q]] == shapes[region[(y, x)]]:
                return False
    return True


def lean_line(problem):
    rooms = " ".join("(" + " ".join("(%d %d)" % (y, x) for y, x in b) + ")" for b in problem["blocks"])
    return "(puz_lits %d %d (%s))" % (problem["height"], problem["width"], rooms)
