"""solve_lits(height, width, blocks) -- LITS (puzz.link "lits", Nikoli).

Rule text implemented by `rule_check` (Nikoli):
  1. In every region (room) shade exactly four cells that form a tetromino, i.e. four orthogonally connected cells.
  2. All shaded cells of the board form one orthogonally connected area.
  3. No 2 x 2 block of cells is entirely shaded.
  4. Two tetrominoes of the same shape (L, I, T, S; rotations and reflections count as the same shape) in different regions
     must not share an edge.

Problem format of the module: `blocks` = list of regions, each a list of (y, x) cells; the regions partition the board
(every region of a published LITS is connected; the generator below also emits a few instances with a disconnected or a
too-small region, which the rules simply make unsatisfiable or restrict).
Answer key: `is_black` (height x width, row-major); True = shaded.

Generation: besides random partitions of boards up to 3 x 4 (all 2^(h*w) grids are enumerated there), boards of 4 x 4 / 4 x 5 /
5 x 4 / 3 x 5 with 2-3 regions, one of them a forced tetromino-shaped region and a neighbouring one containing a whole "plus"
(so that T pieces whose centre has four same-region neighbours occur next to forced L / T pieces).  On boards with more than
12 cells `answer_space` enumerates, per region, the orthogonally connected 4-cell subsets of the region (product over the
regions) -- a superset of the rule-obeying grids by rule 1; `rule_check` re-verifies every rule on each candidate.
`_shape` identifies tetrominoes up to rotation AND reflection (five classes I, L, T, S, O; O never survives rule 3).
"""
import itertools

NAME = "lits"
STATUS = "theorem"
THEOREMS = ["Cspuz.C11.Lits.program_iff_rules", "Cspuz.C11.Lits.total"]
LEAN_FILE = "C11_Lits"
LEAN_CMD = "puz_lits"

_SIZES = [(1, 4), (4, 1), (2, 2), (2, 3), (3, 2), (2, 4), (4, 2), (3, 3), (3, 4), (4, 3), (3, 4), (4, 3), (2, 5), (5, 2),
          (2, 6), (6, 2), (3, 5), (5, 3), (4, 4)]
_DIRS = ((-1, 0), (1, 0), (0, -1), (0, 1))


def _partition(rng, h, w, k):
    """k connected regions grown from random seeds."""
    cells = [(y, x) for y in range(h) for x in range(w)]
    seeds = rng.sample(cells, k)
    owner = {s: i for i, s in enumerate(seeds)}
    while len(owner) < len(cells):
        frontier = [(c, owner[(c[0] + dy, c[1] + dx)]) for c in cells if c not in owner
                    for dy, dx in _DIRS if (c[0] + dy, c[1] + dx) in owner]
        c, i = rng.choice(frontier)
        owner[c] = i
    blocks = [[] for _ in range(k)]
    for c in cells:
        blocks[owner[c]].append(list(c))
    return blocks


_PLUS_SIZES = [(3, 4), (4, 3), (3, 5), (5, 3), (4, 4), (4, 4), (4, 4), (4, 4), (4, 4), (4, 5), (5, 4)]


def _plus_partition(rng, h, w):
    """2-3 regions: one region is exactly a tetromino-shaped set of four cells (so its piece is forced), and a neighbouring
    region contains a whole 'plus' (a cell and its four neighbours) touching it, so that a T tetromino whose centre has all
    four neighbours in its own region can sit next to a forced L / T / S / I piece."""
    cells = [(y, x) for y in range(h) for x in range(w)]
    pieces = _tetrominoes_in(cells)
    lt = [t for t in pieces if _shape(t) in (_shape([(0, 0), (1, 0), (2, 0), (2, 1)]), _shape([(0, 0), (0, 1), (0, 2), (1, 1)]))]
    for _ in range(60):
        forced = set(rng.choice(lt if rng.random() < 0.8 else pieces))
        rest = [c for c in cells if c not in forced]
        if not _connected(rest):
            continue
        rest_set = set(rest)
        centres = [(y, x) for (y, x) in rest if all((y + dy, x + dx) in rest_set for dy, dx in _DIRS)]
        centres = [(y, x) for (y, x) in centres
                   if any((y + dy + ey, x + dx + ex) in forced for dy, dx in _DIRS + ((0, 0),) for ey, ex in _DIRS)]
        if not centres:
            continue
        cy, cx = rng.choice(centres)
        owner = {c: 1 for c in forced}
        owner[(cy, cx)] = 0
        for dy, dx in _DIRS:
            owner[(cy + dy, cx + dx)] = 0
        k = 2
        free = [c for c in rest if c not in owner]
        comps = _components(free)
        if comps and len(comps[0]) >= 4 and rng.random() < 0.85:
            # tight variant: the plus region is (almost) just the plus, so its piece is mostly a T centred on the plus;
            # the largest connected part of the remaining cells is a third region, smaller parts join the plus region
            k = 3
            for c in comps[0]:
                owner[c] = 2
            for comp in comps[1:]:
                for c in comp:
                    owner[c] = 0
        elif len(free) >= 4 and rng.random() < 0.35:
            owner[rng.choice(free)] = 2
            k = 3
        while len(owner) < len(cells):
            frontier = [(c, owner[(c[0] + dy, c[1] + dx)]) for c in cells if c not in owner
                        for dy, dx in _DIRS if owner.get((c[0] + dy, c[1] + dx), 1) != 1]
            if not frontier:
                break
            c, i = rng.choice(frontier)
            owner[c] = i
        if len(owner) < len(cells):
            continue
        blocks = [[] for _ in range(k)]
        for c in cells:
            blocks[owner[c]].append(list(c))
        return blocks
    return _partition(rng, h, w, 2)


# Instances of the family "a T tetromino centred on a cell whose four neighbours all lie in its own region, next to a forced
# L piece of another region" (4 x 4, three regions, two solutions each); replayed under a random symmetry of the square.
_CRAFTED = [
    [[[0, 0], [0, 1], [1, 0], [1, 1], [1, 2], [2, 1]], [[0, 2], [0, 3], [1, 3], [2, 3]], [[2, 0], [2, 2], [3, 0], [3, 1], [3, 2], [3, 3]]],
    [[[1, 2], [2, 1], [2, 2], [2, 3], [3, 2], [3, 3]], [[0, 1], [0, 2], [0, 3], [1, 3]], [[0, 0], [1, 0], [1, 1], [2, 0], [3, 0], [3, 1]]],
    [[[0, 0], [0, 1], [1, 0], [1, 1], [1, 2], [2, 1]], [[2, 0], [3, 0], [3, 1], [3, 2]], [[0, 2], [0, 3], [1, 3], [2, 2], [2, 3], [3, 3]]],
    [[[1, 1], [2, 0], [2, 1], [2, 2], [3, 0], [3, 1]], [[1, 3], [2, 3], [3, 2], [3, 3]], [[0, 0], [0, 1], [0, 2], [0, 3], [1, 0], [1, 2]]],
]


def gen_problem(rng, tier):
    if rng.random() < 0.12:
        blocks = rng.choice(_CRAFTED)
        fy, fx, tr = rng.random() < 0.5, rng.random() < 0.5, rng.random() < 0.5

        def sym(c):
            y, x = (3 - c[0] if fy else c[0]), (3 - c[1] if fx else c[1])
            return [x, y] if tr else [y, x]
        return {"height": 4, "width": 4, "blocks": [[sym(c) for c in b] for b in blocks]}
    if rng.random() < 0.45:
        h, w = rng.choice(_PLUS_SIZES)
        blocks = _plus_partition(rng, h, w)
        if rng.random() < 0.3:
            rng.shuffle(blocks)
            for b in blocks:
                rng.shuffle(b)
        return {"height": h, "width": w, "blocks": blocks}
    h, w = rng.choice(_SIZES)
    n = h * w
    kmax = max(1, n // 4)
    k = rng.randint(1, min(kmax, 3)) if rng.random() < 0.85 else rng.randint(1, min(n, kmax + 1))
    return _gen(rng, h, w, k)


def extra_program_problems(rng):
    """Larger boards for the program correspondence only (nothing is enumerated there): one non-square medium board and two
    with more than 256 cells (a tall and a wide one), regions of 5 to 8 cells on average, grown from random seeds."""
    from . import _loop
    return [_gen(rng, h, w, rng.randint(h * w // 8, h * w // 5)) for h, w in _loop.big_shapes(rng)]


def _gen(rng, h, w, k):
    blocks = _partition(rng, h, w, k)
    r = rng.random()
    if r < 0.3:
        rng.shuffle(blocks)
        for b in blocks:
            rng.shuffle(b)
    elif r < 0.36 and len(blocks) >= 2:
        # a disconnected region: merge two regions (possibly not adjacent)
        a = blocks.pop()
        blocks[0] = blocks[0] + a
    return {"height": h, "width": w, "blocks": blocks}


def solve_args(problem):
    return (problem["height"], problem["width"], [[(y, x) for y, x in b] for b in problem["blocks"]]), {}


def keys(problem, result):
    return list(result[0].data)


def _tetrominoes_in(block):
    """All sets of four orthogonally connected cells of `block` (grown cell by cell from each start cell; a superset filter
    for `answer_space` only -- `rule_check` re-verifies size and connectivity with its own flood fill)."""
    cells = {tuple(c) for c in block}
    found = set()
    level = {frozenset([c]) for c in cells}
    for _ in range(3):
        nxt = set()
        for s in level:
            for (y, x) in s:
                for dy, dx in _DIRS:
                    q = (y + dy, x + dx)
                    if q in cells and q not in s:
                        nxt.add(s | {q})
        level = nxt
    found = level
    return sorted(tuple(sorted(s)) for s in found)


def answer_space(problem):
    h, w = problem["height"], problem["width"]
    n = h * w
    if n <= 12:
        for vals in itertools.product((False, True), repeat=n):
            yield list(vals)
        return
    # larger boards: all grids that shade, in every region, four orthogonally connected cells of that region and nothing else
    # (a superset of the rule-obeying grids by rule 1; rules 1-4 are all re-checked by rule_check)
    opts = [_tetrominoes_in(b) for b in problem["blocks"]]
    for combo in itertools.product(*opts):
        g = [False] * n
        for sel in combo:
            for (y, x) in sel:
                g[y * w + x] = True
        yield g


def _components(cells):
    """orthogonally connected components, largest first"""
    left = set(cells)
    out = []
    while left:
        start = min(left)
        comp = {start}
        todo = [start]
        while todo:
            y, x = todo.pop()
            for dy, dx in _DIRS:
                q = (y + dy, x + dx)
                if q in left and q not in comp:
                    comp.add(q)
                    todo.append(q)
        left -= comp
        out.append(sorted(comp))
    out.sort(key=lambda c: (-len(c), c))
    return out


def _shape(cells):
    """canonical form of a polyomino under the 8 symmetries of the square"""
    best = None
    pts = list(cells)
    for _ in range(2):
        for _ in range(4):
            pts = [(x, -y) for y, x in pts]                 # rotate
            my = min(p[0] for p in pts)
            mx = min(p[1] for p in pts)
            norm = tuple(sorted((p[0] - my, p[1] - mx) for p in pts))
            if best is None or norm < best:
                best = norm
        pts = [(y, -x) for y, x in pts]                     # reflect
    return best


def _connected(cells):
    cells = set(cells)
    if not cells:
        return True
    start = next(iter(cells))
    seen = {start}
    todo = [start]
    while todo:
        y, x = todo.pop()
        for dy, dx in _DIRS:
            p = (y + dy, x + dx)
            if p in cells and p not in seen:
                seen.add(p)
                todo.append(p)
    return len(seen) == len(cells)


def rule_check(problem, answer):
    h, w, blocks = problem["height"], problem["width"], problem["blocks"]
    black = {(y, x) for y in range(h) for x in range(w) if answer[y * w + x]}
    region = {}
    shapes = []
    for i, b in enumerate(blocks):
        mine = [(y, x) for y, x in b if (y, x) in black]
        if len(mine) != 4 or not _connected(mine):
            return False
        shapes.append(_shape(mine))
        for y, x in b:
            region[(y, x)] = i
    if not _connected(black):
        return False
    for y in range(h - 1):
        for x in range(w - 1):
            if all((y + dy, x + dx) in black for dy in (0, 1) for dx in (0, 1)):
                return False
    for (y, x) in black:
        for dy, dx in ((1, 0), (0, 1)):
            q = (y + dy, x + dx)
            if q in black and region[q] != region[(y, x)] and shapes[region[q]] == shapes[region[(y, x)]]:
                return False
    return True


def lean_line(problem):
    rooms = " ".join("(" + " ".join("(%d %d)" % (y, x) for y, x in b) + ")" for b in problem["blocks"])
    return "(puz_lits %d %d (%s))" % (problem["height"], problem["width"], rooms)
