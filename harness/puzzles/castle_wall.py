"""solve_castle_wall(height, width, arrow, inside).

Published rules (puzz.link "Castle Wall"): draw a single closed loop that runs through the centres of cells, moving
between orthogonally adjacent cells, without crossing or branching, so that
  1. the loop does not pass through clue cells;
  2. a white clue cell lies inside the loop, a black clue cell outside (grey: either);
  3. a clue with an arrow and a number: the number is the count of loop segments (unit pieces between the centres of
     two adjacent cells) that lie in the arrow's direction from the clue cell -- in the clue's own column for an
     up / down arrow (vertical pieces), in its own row for a left / right arrow (horizontal pieces).
Library convention (documented for all loop puzzles of cspuz): "no line at all" counts as a loop, so the empty loop is
an answer wherever the clues permit it (then every clue cell is outside).

Problem format: arrow[y][x] = ".." (no clue) or <dir><number> with dir in "^v<>", or a string starting with another
character ("?": clue cell without arrow); inside[y][x] = True (white) / False (black) / None (grey); the module's own
generator only ever sets `inside` on clue cells, so well-formed instances have inside[y][x] is None wherever
arrow[y][x] == "..".  Answer: the segments, first the horizontal ones (y, x)-(y, x+1) row-major [height x (width-1)],
then the vertical ones (y, x)-(y+1, x) row-major [(height-1) x width].

The checker decides inside / outside independently of the module (which propagates a crossing parity down from the
top edge): it flood-fills the faces of the lattice of cell centres from the unbounded face, never stepping across a
loop segment; a cell centre that is not on the loop is outside iff one of the faces around it was reached.
The Lean theorem (Properties/C11_CastleWall.lean) states inside / outside by the even-odd rule for a HORIZONTAL ray
(Spec/PuzzleRules/CastleWall.lean::inside) and proves that the module's vertical-ray face parity agrees with it and that
the rule does not depend on the ray (`inside_ray_invariance`).  That "crossing parity = reachability from the unbounded
face" (the other half of the Jordan curve theorem for lattice loops) is not formalised: this differential is the
evidence for it.
"""
import itertools

NAME = "castle_wall"
STATUS = "theorem"
THEOREMS = ["Cspuz.C11.CastleWall.program_iff_rules", "Cspuz.C11.CastleWall.total",
            "Cspuz.C11.CastleWall.inside_ray_invariance"]
LEAN_FILE = "C11_CastleWall"
LEAN_CMD = "puz_castle_wall"
# set to True once the line-board repair (IndexError for an inside / outside mark on a board with one row or column)
# is committed in /repo: the Lean model then mirrors the repaired loop (`insideCs' true`)
LINE_BOARD_FIX = True

_SHAPES = [(1, 1), (1, 2), (1, 3), (3, 1), (1, 4), (2, 2), (2, 3), (3, 2), (2, 4), (4, 2), (3, 3), (3, 4), (4, 3), (2, 5), (5, 2), (4, 4), (3, 5), (5, 3),
           (2, 6), (6, 2)]


def _nh(h, w):
    return h * (w - 1)


def _face_edges(h, w, fy, fx):
    nh = _nh(h, w)
    return [fy * (w - 1) + fx, (fy + 1) * (w - 1) + fx, nh + fy * w + fx, nh + fy * w + fx + 1]


def _from_faces(h, w, faces):
    m = _nh(h, w) + (h - 1) * w
    a = [False] * m
    for (fy, fx) in faces:
        for e in _face_edges(h, w, fy, fx):
            a[e] = not a[e]
    return a


def _segments(h, w, answer):
    """Active segments as pairs of cells."""
    nh = _nh(h, w)
    segs = []
    for y in range(h):
        for x in range(w - 1):
            if answer[y * (w - 1) + x]:
                segs.append(((y, x), (y, x + 1)))
    for y in range(h - 1):
        for x in range(w):
            if answer[nh + y * w + x]:
                segs.append(((y, x), (y + 1, x)))
    return segs


def _single_loop(segs):
    """The segments form one closed non-branching loop, or there is none."""
    if not segs:
        return True
    nb = {}
    for a, b in segs:
        nb.setdefault(a, []).append(b)
        nb.setdefault(b, []).append(a)
    if any(len(v) != 2 for v in nb.values()):
        return False
    start = segs[0][0]
    prev, cur, steps = None, start, 0
    while True:
        nxt = nb[cur][0] if nb[cur][0] != prev else nb[cur][1]
        prev, cur = cur, nxt
        steps += 1
        if cur == start:
            break
    return steps == len(segs)


def _outside_faces(h, w, segs):
    """Faces of the lattice of cell centres reachable from the unbounded face without crossing a segment.
    Face (fy, fx), 0 <= fy < h-1, 0 <= fx < w-1, has the cells (fy, fx), (fy, fx+1), (fy+1, fx), (fy+1, fx+1) as corners; 'out' is the unbounded face."""
    segset = set(segs) | {(b, a) for a, b in segs}
    H, W = h - 1, w - 1

    def neighbours(f):
        if f == "out":
            for fx in range(W):
                if H > 0:
                    yield (0, fx), ((0, fx), (0, fx + 1))
                    yield (H - 1, fx), ((h - 1, fx), (h - 1, fx + 1))
            for fy in range(H):
                if W > 0:
                    yield (fy, 0), ((fy, 0), (fy + 1, 0))
                    yield (fy, W - 1), ((fy, w - 1), (fy + 1, w - 1))
            return
        fy, fx = f
        yield ((fy - 1, fx) if fy > 0 else "out"), ((fy, fx), (fy, fx + 1))
        yield ((fy + 1, fx) if fy + 1 < H else "out"), ((fy + 1, fx), (fy + 1, fx + 1))
        yield ((fy, fx - 1) if fx > 0 else "out"), ((fy, fx), (fy + 1, fx))
        yield ((fy, fx + 1) if fx + 1 < W else "out"), ((fy, fx + 1), (fy + 1, fx + 1))
    seen = {"out"}
    stack = ["out"]
    while stack:
        f = stack.pop()
        for g, wall in neighbours(f):
            if g not in seen and wall not in segset:
                seen.add(g)
                stack.append(g)
    return seen


def _cell_outside(h, w, outside, y, x):
    around = []
    for fy in (y - 1, y):
        for fx in (x - 1, x):
            around.append((fy, fx) if 0 <= fy < h - 1 and 0 <= fx < w - 1 else "out")
    return any(f in outside for f in around)


def _count_dir(segs, y, x, d):
    n = 0
    for (ay, ax), (by, bx) in segs:
        if d in "^v" and ax == x and bx == x:
            if d == "^" and max(ay, by) <= y:
                n += 1
            if d == "v" and min(ay, by) >= y:
                n += 1
        if d in "<>" and ay == y and by == y:
            if d == "<" and max(ax, bx) <= x:
                n += 1
            if d == ">" and min(ax, bx) >= x:
                n += 1
    return n


def gen_problem(rng, tier):
    h, w = rng.choice(_SHAPES)
    return _gen(rng, h, w)


def extra_program_problems(rng):
    """Larger boards for the program correspondence only (nothing is enumerated there): one non-square medium board and two
    with more than 256 cells (a tall and a wide one); clue cells (one per 10 to 20 cells, rim and corners included) read
    off a random loop (`_loop.random_loop`, same segment order as this module's answers)."""
    from . import _loop
    return [_gen(rng, h, w, _loop.random_loop(rng, h, w, rng.choice([0.25, 0.4])), rng.randint(h * w // 20, h * w // 10))
            for h, w in _loop.big_shapes(rng)]


def _gen(rng, h, w, loop=None, k=None):
    arrow = [[".."] * w for _ in range(h)]
    inside = [[None] * w for _ in range(h)]
    faces = [(fy, fx) for fy in range(h - 1) for fx in range(w - 1)]
    if loop is None:
        # a random loop (or the empty one) to read clues from
        loop = [False] * (_nh(h, w) + (h - 1) * w)
        for _ in range(30):
            sub = [f for f in faces if rng.random() < rng.choice([0.3, 0.6, 0.9])]
            cand = _from_faces(h, w, sub)
            if _single_loop(_segments(h, w, cand)):
                loop = cand
                if any(cand) or rng.random() < 0.1:
                    break
    segs = _segments(h, w, loop)
    on_loop = {c for s in segs for c in s}
    outside = _outside_faces(h, w, segs)
    free = [(y, x) for y in range(h) for x in range(w) if (y, x) not in on_loop]
    rng.shuffle(free)
    if rng.random() < 0.4:
        free.sort(key=lambda c: -((c[0] in (0, h - 1)) + (c[1] in (0, w - 1))))
    if k is None:
        k = rng.choice([0, 1, 1, 2, 2, 3])
    mode = rng.random()
    cells = free[:k] if mode < 0.7 else [(rng.randrange(h), rng.randrange(w)) for _ in range(k)]
    for (y, x) in cells:
        r = rng.random()
        if r < 0.25:
            arrow[y][x] = "?" + rng.choice(["", "0", "5"])
        else:
            d = rng.choice("^v<>")
            true_n = _count_dir(segs, y, x, d)
            n = true_n if rng.random() < 0.8 else rng.randint(0, 3 if k <= 3 else 12)
            arrow[y][x] = d + str(n)
        r = rng.random()
        if r < 0.4:
            inside[y][x] = None
        elif r < 0.85 and (y, x) not in on_loop:
            inside[y][x] = not _cell_outside(h, w, outside, y, x)
        else:
            inside[y][x] = rng.random() < 0.5
    return {"height": h, "width": w, "arrow": arrow, "inside": inside}


def solve_args(problem):
    return (problem["height"], problem["width"], problem["arrow"], problem["inside"]), {}


def keys(problem, result):
    frame = result[0]
    return list(frame.horizontal.data) + list(frame.vertical.data)


def answer_space(problem):
    h, w = problem["height"], problem["width"]
    m = _nh(h, w) + (h - 1) * w
    if m <= 12:
        for vals in itertools.product([False, True], repeat=m):
            yield list(vals)
        return
    # larger boards: every segment set in which each cell centre has an even number of segments (this contains every
    # loop and the empty set): these are exactly the sums mod 2 of face boundaries of the lattice of cell centres
    faces = [(fy, fx) for fy in range(h - 1) for fx in range(w - 1)]
    for pick in itertools.product([False, True], repeat=len(faces)):
        yield _from_faces(h, w, [f for f, p in zip(faces, pick) if p])


def rule_check(problem, answer):
    h, w = problem["height"], problem["width"]
    arrow, inside = problem["arrow"], problem["inside"]
    segs = _segments(h, w, answer)
    if not _single_loop(segs):
        return False
    on_loop = {c for s in segs for c in s}
    outside = None
    for y in range(h):
        for x in range(w):
            a = arrow[y][x]
            if a != "..":
                if (y, x) in on_loop:
                    return False
                if a[0] in "^v<>" and _count_dir(segs, y, x, a[0]) != int(a[1:]):
                    return False
            if inside[y][x] is not None:
                if outside is None:
                    outside = _outside_faces(h, w, segs)
                if (y, x) in on_loop:
                    return False     # only arises for malformed instances (inside mark on a non-clue cell); not generated
                if inside[y][x] == _cell_outside(h, w, outside, y, x):
                    return False
    return True


def classify(problem, description):
    if "raised" in description:
        return "raises:line-board" if min(problem["height"], problem["width"]) == 1 else "raises"
    return "mismatch"


def _arrow_sx(a):
    if a == "..":
        return "none"
    if a[0] in "^v<>":
        num = a[1:]
        try:
            int(num)
        except ValueError:
            num = "bad"
        return "(%s %s)" % ({"^": "u", "v": "d", "<": "l", ">": "r"}[a[0]], str(int(num)) if num != "bad" else "bad")
    return "other"


def lean_line(problem):
    arrows = "(" + " ".join("(" + " ".join(_arrow_sx(a) for a in row) + ")" for row in problem["arrow"]) + ")"
    ins = "(" + " ".join("(" + " ".join({True: "T", False: "F", None: "N"}[v] for v in row) + ")" for row in problem["inside"]) + ")"
    return "(puz_castle_wall %d %d %s %s%s)" % (problem["height"], problem["width"], arrows, ins, " fixed" if LINE_BOARD_FIX else "")
