"""solve_building(n, up, dw, lf, rg) — Building / Skyscrapers (puzz.link `building`).

Problem format of the module: four lists of length `n`; `up[x]` / `dw[x]` is the clue above / below column `x`, `lf[y]` / `rg[y]`
the clue left / right of row `y`; a value < 1 (the generator uses 0) means "no clue".  Answer: one integer per cell (the height of
the building), row-major.

Published rules implemented by `rule_check` (written from the rule text, not from the solver):
 1. Every cell holds a building of height 1..n; each row and each column contains every height exactly once.
 2. A number outside the grid is the number of buildings visible from there looking along the row / column: a building is
    visible iff every building in front of it (nearer to the observer) is lower.
"""
import itertools

NAME = "building"
STATUS = "theorem"
THEOREMS = ["Cspuz.C11.Building.program_iff_rules", "Cspuz.C11.Building.total"]
LEAN_FILE = "C11_Building"
LEAN_CMD = "puz_building"


def _visible(seq):
    best, cnt = 0, 0
    for v in seq:
        if v > best:
            best, cnt = v, cnt + 1
    return cnt


def _random_latin(rng, n):
    rows = []
    perms = list(itertools.permutations(range(1, n + 1)))
    for _ in range(200):
        rows = []
        ok = True
        for y in range(n):
            cand = [p for p in perms if all(p[x] != r[x] for r in rows for x in range(n))]
            if not cand:
                ok = False
                break
            rows.append(list(rng.choice(cand)))
        if ok:
            return rows
    return [[(y + x) % n + 1 for x in range(n)] for y in range(n)]


def gen_problem(rng, tier):
    n = rng.choice([1, 2, 2, 3, 3, 3, 3, 4])
    g = _random_latin(rng, n)
    return _finish(rng, n, g)


def _big_latin(rng, n):
    """A Latin square of any order without enumeration: the cyclic square with rows, columns and heights permuted."""
    rows, cols, syms = list(range(n)), list(range(n)), list(range(1, n + 1))
    rng.shuffle(rows)
    rng.shuffle(cols)
    rng.shuffle(syms)
    return [[syms[(rows[y] + cols[x]) % n] for x in range(n)] for y in range(n)]


def extra_program_problems(rng):
    """Larger boards for the program correspondence only (nothing is enumerated there; the board is square by construction):
    n = 8, n = 17 and n = 16 (289 / 256 cells), clues read off a random Latin square, same clue modes as the small boards."""
    return [_finish(rng, n, _big_latin(rng, n), mode=rng.choice(["all", "some", "some", "noisy"])) for n in (8, 17, 16)]


def _finish(rng, n, g, mode=None):
    truth = {
        "up": [_visible([g[y][x] for y in range(n)]) for x in range(n)],
        "dw": [_visible([g[y][x] for y in reversed(range(n))]) for x in range(n)],
        "lf": [_visible(g[y]) for y in range(n)],
        "rg": [_visible(list(reversed(g[y]))) for y in range(n)],
    }
    if mode is None:
        mode = rng.choice(["none", "all", "some", "some", "noisy"])
    keep = {"none": 0.0, "all": 1.0, "some": 0.4, "noisy": 0.5}[mode]
    pb = {"n": n}
    for side in ("up", "dw", "lf", "rg"):
        pb[side] = [v if rng.random() < keep else 0 for v in truth[side]]
    if mode == "noisy":
        side = rng.choice(["up", "dw", "lf", "rg"])
        pb[side][rng.randrange(n)] = rng.randint(1, n + 1)
    return pb


def solve_args(problem):
    return (problem["n"], problem["up"], problem["dw"], problem["lf"], problem["rg"]), {}


def keys(problem, result):
    return list(result[0].data)


def answer_space(problem):
    n = problem["n"]
    if n <= 3:
        for vals in itertools.product(range(1, n + 1), repeat=n * n):
            yield list(vals)
        return
    # n = 4: 4^16 grids are out of reach; enumerate the grids whose rows are permutations and whose columns have no repeated
    # height (a superset of the rule-obeying grids under rule 1; the clue rule is still checked on every one of them)
    perms = list(itertools.permutations(range(1, n + 1)))

    def rec(rows):
        if len(rows) == n:
            yield [v for r in rows for v in r]
            return
        for p in perms:
            if all(p[x] != r[x] for r in rows for x in range(n)):
                yield from rec(rows + [p])
    yield from rec([])


def rule_check(problem, answer):
    n = problem["n"]
    g = [answer[y * n:(y + 1) * n] for y in range(n)]
    full = set(range(1, n + 1))
    for i in range(n):
        if set(g[i]) != full or {g[y][i] for y in range(n)} != full:
            return False
    for i in range(n):
        col = [g[y][i] for y in range(n)]
        if problem["up"][i] >= 1 and _visible(col) != problem["up"][i]:
            return False
        if problem["dw"][i] >= 1 and _visible(col[::-1]) != problem["dw"][i]:
            return False
        if problem["lf"][i] >= 1 and _visible(g[i]) != problem["lf"][i]:
            return False
        if problem["rg"][i] >= 1 and _visible(g[i][::-1]) != problem["rg"][i]:
            return False
    return True


def lean_line(problem):
    def lst(v):
        return "(" + " ".join(str(t) for t in v) + ")"
    return "(puz_building %d %s %s %s %s)" % (problem["n"], lst(problem["up"]), lst(problem["dw"]), lst(problem["lf"]), lst(problem["rg"]))
