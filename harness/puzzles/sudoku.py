"""solve_sudoku: rows, columns and n x n boxes contain each of 1..n*n exactly once; given digits are kept."""
import itertools

NAME = "sudoku"
STATUS = "theorem"
THEOREMS = ["Cspuz.C11.Sudoku.program_iff_rules", "Cspuz.C11.Sudoku.total"]
LEAN_FILE = "C11_Sudoku"
LEAN_CMD = "puz_sudoku"


def gen_problem(rng, tier):
    n = 2 if rng.random() < 0.9 else 1
    size = n * n
    # start from a random valid grid so that most instances are satisfiable, then keep a few clues / add a wrong one
    base = [[(n * (y % n) + y // n + x) % size + 1 for x in range(size)] for y in range(size)]
    perm = list(range(1, size + 1))
    rng.shuffle(perm)
    grid = [[perm[v - 1] for v in row] for row in base]
    keep = rng.choice([0.5, 0.7, 0.9]) if rng.random() < 0.96 else 0.0     # 0.0: empty clue set (288 solutions for n = 2)
    pb = [[grid[y][x] if rng.random() < keep else 0 for x in range(size)] for y in range(size)]
    if rng.random() < 0.2 and size > 1:
        pb[rng.randrange(size)][rng.randrange(size)] = rng.randint(1, size)
    return {"n": n, "problem": pb}


def solve_args(problem):
    if problem.get("default_n"):
        return (problem["problem"],), {}          # the standard 9 x 9 call relies on the default n = 3
    return (problem["problem"],), {"n": problem["n"]}


def extra_search_problems(rng):
    """9 x 9 boards with at most three blanks (small enough for the rule differential), called with the default n."""
    n, size = 3, 9
    base = [[(n * (y % n) + y // n + x) % size + 1 for x in range(size)] for y in range(size)]
    out = []
    for blanks in (0, 2, 3):
        pb = [row[:] for row in base]
        for _ in range(blanks):
            pb[rng.randrange(size)][rng.randrange(size)] = 0
        out.append({"n": 3, "problem": pb, "default_n": True})
    return out


def extra_program_problems(rng):
    """Instances used for the program correspondence only (too large for the brute-force rule differential): the standard
    9 x 9 board, called WITHOUT `n`, then a 16 x 16 (n = 4, 256 cells) and a 25 x 25 board (n = 5, 625 cells; the board is
    square by construction) with a third of the digits of a permuted valid grid given."""
    n, size = 3, 9
    base = [[(n * (y % n) + y // n + x) % size + 1 for x in range(size)] for y in range(size)]
    out = []
    for keep in (0.0, 0.3, 1.0):
        pb = [[base[y][x] if rng.random() < keep else 0 for x in range(size)] for y in range(size)]
        out.append({"n": 3, "problem": pb, "default_n": True})
    for n in (4, 5):
        size = n * n
        perm = list(range(1, size + 1))
        rng.shuffle(perm)
        pb = [[perm[(n * (y % n) + y // n + x) % size] if rng.random() < 0.35 else 0 for x in range(size)] for y in range(size)]
        out.append({"n": n, "problem": pb})
    return out


def keys(problem, result):
    return list(result[0].data)


def answer_space(problem):
    n = problem["n"]
    size = n * n
    pb = problem["problem"]
    free = [(y, x) for y in range(size) for x in range(size) if pb[y][x] < 1]
    if len(free) > 7:
        # enumerate row-wise permutations consistent with the clues (still exhaustive over rule-obeying candidates' superset)
        rows = []
        for y in range(size):
            opts = [p for p in itertools.permutations(range(1, size + 1)) if all(pb[y][x] < 1 or pb[y][x] == p[x] for x in range(size))]
            rows.append(opts)
        for combo in itertools.product(*rows):
            yield [v for row in combo for v in row]
        return
    for vals in itertools.product(range(1, size + 1), repeat=len(free)):
        g = [row[:] for row in pb]
        for (y, x), v in zip(free, vals):
            g[y][x] = v
        yield [v for row in g for v in row]


def rule_check(problem, answer):
    n = problem["n"]
    size = n * n
    pb = problem["problem"]
    g = [answer[y * size:(y + 1) * size] for y in range(size)]
    full = set(range(1, size + 1))
    for i in range(size):
        if set(g[i]) != full or {g[y][i] for y in range(size)} != full:
            return False
    for by in range(n):
        for bx in range(n):
            if {g[by * n + dy][bx * n + dx] for dy in range(n) for dx in range(n)} != full:
                return False
    return all(pb[y][x] < 1 or pb[y][x] == g[y][x] for y in range(size) for x in range(size))


def lean_line(problem):
    rows = " ".join("(" + " ".join(str(v) for v in row) + ")" for row in problem["problem"])
    return "(puz_sudoku %d (%s))" % (problem["n"], rows)
