"""solve_creek(height, width, problem) -- Creek (puzz.link "creek").

Rule text implemented by `rule_check` (puzz.link / Nikoli-style statement):
  1. Shade some cells of the height x width board.
  2. A number at a lattice point (a corner of cells; the clue grid is (height+1) x (width+1)) equals the number of shaded cells
     among the (up to four) cells that touch this point.
  3. All unshaded cells form one orthogonally connected area.

Problem format of the module: `problem[y][x]` for 0 <= y <= height, 0 <= x <= width; -1 = no clue, otherwise the number.
Answer key: `is_white` (height x width, row-major); True = unshaded.

READING: a grid without any unshaded cell satisfies rule 3 (there is nothing to connect); this is the documented convention of
`graph.active_vertices_connected` ("if all vertices are inactive this constraint is satisfied").  Published texts do not say.
"""
import itertools

NAME = "creek"
STATUS = "theorem"
THEOREMS = ["Cspuz.C11.Creek.program_iff_rules", "Cspuz.C11.Creek.total"]
LEAN_FILE = "C11_Creek"
LEAN_CMD = "puz_creek"

_SIZES = [(1, 1), (1, 2), (2, 1), (1, 3), (3, 1), (2, 2), (2, 3), (3, 2), (1, 4), (4, 1), (3, 3), (2, 4), (4, 2), (3, 4), (4, 3)]


def _around(h, w, y, x):
    return [(cy, cx) for cy in (y - 1, y) for cx in (x - 1, x) if 0 <= cy < h and 0 <= cx < w]


def gen_problem(rng, tier):
    h, w = rng.choice(_SIZES)
    return _gen(rng, h, w)


def extra_program_problems(rng):
    """Larger boards for the program correspondence only (nothing is enumerated there): one non-square medium board and two
    with more than 256 cells (a tall and a wide one), built like the small ones, never without clues."""
    from . import _loop
    return [_gen(rng, h, w, mode=rng.uniform(0.08, 1.0)) for h, w in _loop.big_shapes(rng)]


def _gen(rng, h, w, mode=None):
    if mode is None:
        mode = rng.random()
    white = [[rng.random() < rng.choice([0.3, 0.5, 0.8]) for _ in range(w)] for _ in range(h)]
    if mode < 0.08:
        pb = [[-1] * (w + 1) for _ in range(h + 1)]          # empty clue set
    else:
        keep = rng.choice([0.15, 0.35, 0.6, 1.0])
        pb = [[sum(1 for cy, cx in _around(h, w, y, x) if not white[cy][cx]) if rng.random() < keep else -1
               for x in range(w + 1)] for y in range(h + 1)]
        if mode < 0.35:                                        # perturb: arbitrary values 0..4 anywhere (corners/edges included)
            for _ in range(rng.randint(1, 2)):
                pb[rng.randrange(h + 1)][rng.randrange(w + 1)] = rng.randint(0, 4)
    return {"height": h, "width": w, "problem": pb}


def solve_args(problem):
    return (problem["height"], problem["width"], problem["problem"]), {}


def keys(problem, result):
    return list(result[0].data)


def answer_space(problem):
    n = problem["height"] * problem["width"]
    for vals in itertools.product((False, True), repeat=n):
        yield list(vals)


def rule_check(problem, answer):
    h, w, pb = problem["height"], problem["width"], problem["problem"]
    white = [answer[y * w:(y + 1) * w] for y in range(h)]
    for y in range(h + 1):
        for x in range(w + 1):
            if pb[y][x] >= 0:
                if sum(1 for cy, cx in _around(h, w, y, x) if not white[cy][cx]) != pb[y][x]:
                    return False
    cells = [(y, x) for y in range(h) for x in range(w) if white[y][x]]
    if not cells:
        return True          # READING: no unshaded cell at all counts as connected
    seen = {cells[0]}
    todo = [cells[0]]
    while todo:
        y, x = todo.pop()
        for dy, dx in ((1, 0), (-1, 0), (0, 1), (0, -1)):
            p = (y + dy, x + dx)
            if 0 <= p[0] < h and 0 <= p[1] < w and white[p[0]][p[1]] and p not in seen:
                seen.add(p)
                todo.append(p)
    return len(seen) == len(cells)


def lean_line(problem):
    rows = " ".join("(" + " ".join(str(v) for v in row) + ")" for row in problem["problem"])
    return "(puz_%s %d %d (%s))" % (NAME, problem["height"], problem["width"], rows)
