"""solve_shakashaka(height, width, problem).

Published rules (Nikoli / puzz.link "Shakashaka"): place black right-angled isosceles triangles (half a cell, cut along a
diagonal, four possible orientations) in some of the white cells so that
  1. every white area that remains (white cells and the white halves of triangle cells, joined where they touch along
     a piece of line, not merely at a point) is a rectangle -- upright or rotated by 45 degrees;
  2. a number in a black cell tells how many of the (up to four) orthogonally adjacent cells hold a triangle.
Black cells never hold triangles.

Problem format: problem[y][x] = None white cell, -1 black cell without number, 0..4 numbered black cell.
Answer: answer[y][x] row-major, 0 = nothing, 1..4 = a triangle whose right angle (black corner) is at the
top-left / bottom-left / bottom-right / top-right corner of the cell (the module's ASCII art).

The checker is geometric and independent of the module's local corner rules: every cell is cut by both diagonals into
four quarter triangles (N, E, S, W); the white quarters are flood-filled (inside a cell around the centre, between
cells across the shared side; a triangle's two white quarters are adjacent quarters); a white area is a rectangle iff
its area equals the area of its bounding box, taken either along the axes or along the diagonals (the area is a
subset of both boxes, so equality of areas means equality of the sets up to their boundary).  That the module's local
rules (shape of the neighbourhood of each triangle side, no grid point with exactly three white angles) characterise
rectangles is proved in Lean (Properties/C11_Shakashaka.lean: `program_iff_rules` against the global rule of
Spec/PuzzleRules/Shakashaka.lean, via `local_rules_iff_rectangles`); this differential checks the same thing on small boards.
"""
import itertools

NAME = "shakashaka"
STATUS = "theorem"
THEOREMS = ["Cspuz.C11.Shakashaka.program_iff_rules", "Cspuz.C11.Shakashaka.total",
            "Cspuz.C11.Shakashaka.local_rules_iff_rectangles"]
LEAN_FILE = "C11_Shakashaka"
LEAN_CMD = "puz_shakashaka"

_SHAPES = [(1, 1), (1, 2), (2, 1), (1, 3), (3, 1), (2, 2), (2, 3), (3, 2), (1, 5), (5, 1), (3, 3), (2, 4), (4, 2), (3, 4), (4, 3), (2, 5), (5, 2)]
_MAX_WHITE = 6

# white quarters per answer value; quarters: 0 = N, 1 = E, 2 = S, 3 = W
_WHITE = {0: (0, 1, 2, 3), 1: (1, 2), 2: (0, 1), 3: (0, 3), 4: (2, 3)}


def gen_problem(rng, tier):
    while True:
        h, w = rng.choice(_SHAPES)
        n = h * w
        pb = [[None] * w for _ in range(h)]
        cells = [(y, x) for y in range(h) for x in range(w)]
        rng.shuffle(cells)
        if rng.random() < 0.4:
            cells.sort(key=lambda c: -((c[0] in (0, h - 1)) + (c[1] in (0, w - 1))))
        cap = _MAX_WHITE if rng.random() < 0.25 else _MAX_WHITE - 1
        nblack = max(n - cap, 0)
        if rng.random() < 0.6:
            nblack = min(n, nblack + rng.randint(0, 2))
        for (y, x) in cells[:nblack]:
            pb[y][x] = -1
        break
    black = [(y, x) for (y, x) in cells[:nblack]]
    prob = {"height": h, "width": w, "problem": pb}
    mode = rng.random()
    if mode < 0.6 and black:
        # numbers read off an answer that obeys rule 1 if one is found among random placements
        white = [c for c in cells[nblack:]]
        best = None
        if len(white) <= 5:
            good = [a for a in answer_space(prob) if rule_check(prob, a)]      # numbers are all absent here
            with_tri = [a for a in good if any(a)]
            if with_tri and rng.random() < 0.85:
                best = rng.choice(with_tri)
            elif good:
                best = rng.choice(good)
        else:
            for _ in range(60):
                vals = [rng.choice([0, 0, 1, 2, 3, 4]) for _ in white]
                ans = [0] * n
                for (y, x), v in zip(white, vals):
                    ans[y * w + x] = v
                if rule_check(prob, ans):
                    best = ans
                    if any(ans) or rng.random() < 0.2:
                        break
        if best is None:
            best = [0] * n
        show = rng.choice([0.3, 0.6, 1.0])
        for (y, x) in black:
            if rng.random() < show:
                pb[y][x] = _tri_neighbours(h, w, best, y, x)
        if rng.random() < 0.15:
            y, x = rng.choice(black)
            pb[y][x] = rng.randint(0, 4)
    else:
        for (y, x) in black:
            if rng.random() < 0.4:
                pb[y][x] = rng.choice([0, 0, 1, 1, 2, 3, 4])
    return prob


def extra_program_problems(rng):
    """Larger boards for the program correspondence only (nothing is enumerated there): one non-square medium board and two
    with more than 256 cells (a tall and a wide one), a fifth to a third of the cells black (edges and corners included),
    numbers read off a random placement of triangles or arbitrary."""
    from . import _loop
    return [_gen_large(rng, h, w) for h, w in _loop.big_shapes(rng)]


def _gen_large(rng, h, w):
    n = h * w
    p_black = rng.choice([0.2, 0.33])
    pb = [[-1 if rng.random() < p_black else None for _ in range(w)] for _ in range(h)]
    for (y, x) in ((0, 0), (0, w - 1), (h - 1, 0), (h - 1, w - 1)):
        if rng.random() < 0.5:
            pb[y][x] = -1
    ans = [0 if pb[i // w][i % w] is not None or rng.random() < 0.5 else rng.randint(1, 4) for i in range(n)]
    show = rng.choice([0.3, 0.6, 1.0])
    for y in range(h):
        for x in range(w):
            if pb[y][x] is not None and rng.random() < show:
                pb[y][x] = _tri_neighbours(h, w, ans, y, x) if rng.random() < 0.85 else rng.randint(0, 4)
    return {"height": h, "width": w, "problem": pb}


def solve_args(problem):
    return (problem["height"], problem["width"], problem["problem"]), {}


def keys(problem, result):
    return list(result[0].data)


def answer_space(problem):
    h, w = problem["height"], problem["width"]
    pb = problem["problem"]
    doms = [range(5) if pb[y][x] is None else (0,) for y in range(h) for x in range(w)]
    for vals in itertools.product(*doms):
        yield list(vals)


def _tri_neighbours(h, w, answer, y, x):
    return sum(1 for (ny, nx) in ((y - 1, x), (y + 1, x), (y, x - 1), (y, x + 1))
               if 0 <= ny < h and 0 <= nx < w and answer[ny * w + nx] != 0)


def _quarter_vertices(y, x, q):
    """Vertices of quarter q of cell (y, x) in doubled coordinates (X to the right, Y downwards)."""
    tl, tr, br, bl, c = (2 * x, 2 * y), (2 * x + 2, 2 * y), (2 * x + 2, 2 * y + 2), (2 * x, 2 * y + 2), (2 * x + 1, 2 * y + 1)
    return [(tl, tr, c), (tr, br, c), (br, bl, c), (bl, tl, c)][q]


def white_areas(problem, answer):
    h, w = problem["height"], problem["width"]
    pb = problem["problem"]
    white = set()
    for y in range(h):
        for x in range(w):
            if pb[y][x] is None:
                for q in _WHITE[answer[y * w + x]]:
                    white.add((y, x, q))
    seen = set()
    areas = []
    for start in sorted(white):
        if start in seen:
            continue
        seen.add(start)
        stack = [start]
        area = []
        while stack:
            y, x, q = stack.pop()
            area.append((y, x, q))
            # inside the cell: the two quarters next to q around the centre
            cand = [(y, x, (q + 1) % 4), (y, x, (q + 3) % 4)]
            # across the side of the cell that q rests on
            cand.append([(y - 1, x, 2), (y, x + 1, 3), (y + 1, x, 0), (y, x - 1, 1)][q])
            for c in cand:
                if c in white and c not in seen:
                    seen.add(c)
                    stack.append(c)
        areas.append(area)
    return areas


def _is_rectangle(area):
    pts = [p for (y, x, q) in area for p in _quarter_vertices(y, x, q)]
    xs = [p[0] for p in pts]
    ys = [p[1] for p in pts]
    # each quarter has area 1 in doubled coordinates
    if (max(xs) - min(xs)) * (max(ys) - min(ys)) == len(area):
        return True
    us = [p[0] + p[1] for p in pts]
    vs = [p[0] - p[1] for p in pts]
    # the map (X, Y) -> (X + Y, X - Y) doubles areas
    return (max(us) - min(us)) * (max(vs) - min(vs)) == 2 * len(area)


def rule_check(problem, answer):
    h, w = problem["height"], problem["width"]
    pb = problem["problem"]
    for y in range(h):
        for x in range(w):
            v = answer[y * w + x]
            if pb[y][x] is not None:
                if v != 0:
                    return False
                if pb[y][x] >= 0 and _tri_neighbours(h, w, answer, y, x) != pb[y][x]:
                    return False
    return all(_is_rectangle(a) for a in white_areas(problem, answer))


def classify(problem, description):
    if "raised" in description:
        return "raises"
    return "mismatch"


def lean_line(problem):
    rows = "(" + " ".join("(" + " ".join("N" if v is None else str(v) for v in row) + ")" for row in problem["problem"]) + ")"
    return "(puz_shakashaka %d %d %s)" % (problem["height"], problem["width"], rows)
