"""solve_fillomino(height, width, problem, checkered=False).

Published rules (Nikoli / puzz.link "Fillomino"): divide the board into blocks (polyominoes: orthogonally connected
groups of cells) so that
  1. every given number equals the number of cells of the block containing it (a block may contain several equal
     numbers, or none);
  2. two blocks of the same size do not share an edge.
Variant `checkered=True` ("Checkered Fillomino"): moreover the blocks can be shaded black / white so that two blocks
sharing an edge always have different colours.

Problem format: problem[y][x] >= 1 number, anything else empty.  Answer: size[y][x] (row-major) = number of cells of
the block containing the cell.

The checker looks for the division explicitly: for a grid of sizes, any division that realises it has, by rule 2, as
blocks exactly the maximal connected groups of equal entries (two edge-adjacent cells with equal entries lie in
blocks of equal size, which must be the same block; cells with different entries lie in different blocks).  So the
only candidate division is "connected groups of equal entries", and the grid is an answer iff every such group with
entry s has exactly s cells (rule 2 then holds by maximality) and the givens agree.
"""
import functools
import itertools

NAME = "fillomino"
STATUS = "theorem"
THEOREMS = ["Cspuz.C11.Fillomino.program_iff_rules", "Cspuz.C11.Fillomino.total"]
LEAN_FILE = "C11_Fillomino"
LEAN_CMD = "puz_fillomino"

_SHAPES = [(1, 1), (1, 2), (2, 1), (1, 3), (3, 1), (1, 4), (4, 1), (1, 5), (5, 1), (2, 2), (2, 3), (3, 2), (2, 4), (4, 2), (3, 3),
           (2, 5), (5, 2), (3, 4), (4, 3)]


def _edges(h, w):
    es = []
    for y in range(h):
        for x in range(w):
            if x + 1 < w:
                es.append((y * w + x, y * w + x + 1))
            if y + 1 < h:
                es.append((y * w + x, (y + 1) * w + x))
    return es


def _groups(n, es, joined):
    parent = list(range(n))

    def find(a):
        while parent[a] != a:
            parent[a] = parent[parent[a]]
            a = parent[a]
        return a
    for (u, v), j in zip(es, joined):
        if j:
            parent[find(u)] = find(v)
    return [find(a) for a in range(n)]


@functools.lru_cache(maxsize=None)
def _size_grids(h, w):
    """All grids of block sizes induced by some division of the h x w board into connected blocks (every answer is one)."""
    n = h * w
    es = _edges(h, w)
    out = set()
    for joined in itertools.product([False, True], repeat=len(es)):
        g = _groups(n, es, joined)
        cnt = {}
        for r in g:
            cnt[r] = cnt.get(r, 0) + 1
        out.add(tuple(cnt[r] for r in g))
    return sorted(out)


def gen_problem(rng, tier):
    h, w = rng.choice(_SHAPES)
    if h * w >= 12 and rng.random() < 0.7:      # 3x4 / 4x3 (24779 candidate grids) only occasionally
        h, w = rng.choice(_SHAPES[:-2])
    n = h * w
    mode = rng.random()
    pb = [[0] * w for _ in range(h)]
    if mode < 0.55:
        grids = _size_grids(h, w)
        for _ in range(20):
            g = rng.choice(grids)
            if rule_check({"height": h, "width": w, "problem": pb}, list(g)) or rng.random() < 0.1:
                break
        keep = rng.choice([0.0, 0.2, 0.4, 0.7])
        for y in range(h):
            for x in range(w):
                if rng.random() < keep:
                    pb[y][x] = g[y * w + x]
        if rng.random() < 0.15:
            pb[rng.randrange(h)][rng.randrange(w)] = rng.randint(1, n)
    else:
        dens = rng.choice([0.0, 0.15, 0.3, 0.5])
        for y in range(h):
            for x in range(w):
                if rng.random() < dens:
                    pb[y][x] = rng.choice([1, 1, 2, 2, 3, 4, n, n + 1, -1])
    out = {"height": h, "width": w, "problem": pb}
    if rng.random() < 0.3:
        out["checkered"] = rng.random() < 0.8
    return out


def _grown_blocks(rng, h, w, cells, max_size):
    """Random division of `cells` into orthogonally connected blocks of at most `max_size` cells (grown one after the other
    from a random free cell); returns {cell: block index}."""
    free = set(cells)
    owner = {}
    order = list(cells)
    rng.shuffle(order)
    k = 0
    for c in order:
        if c not in free:
            continue
        size = rng.randint(1, max_size)
        block = [c]
        free.discard(c)
        while len(block) < size:
            nb = [(y + dy, x + dx) for (y, x) in block for dy, dx in ((1, 0), (-1, 0), (0, 1), (0, -1)) if (y + dy, x + dx) in free]
            if not nb:
                break
            q = rng.choice(nb)
            free.discard(q)
            block.append(q)
        for q in block:
            owner[q] = k
        k += 1
    return owner


def extra_program_problems(rng):
    """Larger boards for the program correspondence only (nothing is enumerated there): one non-square medium board and two
    with more than 256 cells (a tall and a wide one).  The numbers are read off a random division into blocks of at most
    nine cells (a fair share shown, some on the edge and in the corners by sheer number), with the perturbations and the
    `checkered` variant of the small boards."""
    from . import _loop
    return [_gen_large(rng, h, w) for h, w in _loop.big_shapes(rng)]


def _gen_large(rng, h, w):
    n = h * w
    cells = [(y, x) for y in range(h) for x in range(w)]
    owner = _grown_blocks(rng, h, w, cells, rng.choice([5, 9]))
    size = {}
    for c in cells:
        size[owner[c]] = size.get(owner[c], 0) + 1
    keep = rng.choice([0.2, 0.4, 0.7])
    pb = [[size[owner[(y, x)]] if rng.random() < keep else 0 for x in range(w)] for y in range(h)]
    for _ in range(rng.randint(0, 3)):
        pb[rng.randrange(h)][rng.randrange(w)] = rng.choice([1, 2, 12, n, n + 1, -1])
    out = {"height": h, "width": w, "problem": pb}
    if rng.random() < 0.5:
        out["checkered"] = rng.random() < 0.8
    return out


def solve_args(problem):
    kw = {}
    if "checkered" in problem:
        kw["checkered"] = problem["checkered"]
    return (problem["height"], problem["width"], problem["problem"]), kw


def keys(problem, result):
    return list(result[0].data)


def answer_space(problem):
    h, w = problem["height"], problem["width"]
    n = h * w
    if n ** n <= 5000:
        for vals in itertools.product(range(1, n + 1), repeat=n):
            yield list(vals)
        return
    for g in _size_grids(h, w):
        yield list(g)


def rule_check(problem, answer):
    h, w = problem["height"], problem["width"]
    pb = problem["problem"]
    n = h * w
    es = _edges(h, w)
    # the candidate division: maximal connected groups of equal entries
    g = _groups(n, es, [answer[u] == answer[v] for (u, v) in es])
    cnt = {}
    for r in g:
        cnt[r] = cnt.get(r, 0) + 1
    for c in range(n):
        if answer[c] != cnt[g[c]]:
            return False
        y, x = divmod(c, w)
        if pb[y][x] >= 1 and pb[y][x] != answer[c]:
            return False
    if problem.get("checkered"):
        # blocks 2-colourable so that edge-adjacent blocks differ
        adj = {}
        for (u, v) in es:
            if g[u] != g[v]:
                adj.setdefault(g[u], set()).add(g[v])
                adj.setdefault(g[v], set()).add(g[u])
        colour = {}
        for r in set(g):
            if r in colour:
                continue
            colour[r] = 0
            stack = [r]
            while stack:
                a = stack.pop()
                for b in adj.get(a, ()):
                    if b not in colour:
                        colour[b] = 1 - colour[a]
                        stack.append(b)
                    elif colour[b] == colour[a]:
                        return False
    return True


def classify(problem, description):
    if "raised" in description:
        return "raises"
    return "checkered" if problem.get("checkered") else "mismatch"


def _table(t):
    return "(" + " ".join("(" + " ".join(str(v) for v in row) + ")" for row in t) + ")"


def lean_line(problem):
    return "(puz_fillomino %d %d %s %s)" % (problem["height"], problem["width"], _table(problem["problem"]), "T" if problem.get("checkered") else "F")
