"""solve_aquarium(height, width, blocks, clue_row, clue_col) — Aquarium (puzz.link `aquarium`).

Problem format of the module: `blocks` is a list of tanks, each a list of `(y, x)` cells; the tanks partition the board into
orthogonally connected regions.  `clue_row[y]` / `clue_col[x]` is the number of water cells of row `y` / column `x`, or -1
for "no clue".  Answer: one Boolean per cell (`is_water`), row-major.

Published rules implemented by `rule_check` (written from the rule text, not from the solver):
 1. Some cells are filled with water.  A number outside the grid is the number of filled cells in its row / column.
 2. Inside a tank the water is level and is subject to gravity: cells of one tank that lie side by side in a row are filled
    or empty together, and a filled cell never rests on an empty cell of the same tank (directly below it).

READING: the published texts ("each tank is filled up to one water level") admit two readings for a tank with two arms that
are not adjacent within a row (a U- or H-shaped tank): (a) the level is shared by the whole tank (if any cell of the tank in
row r is filled, every cell of the tank in row r and in all lower rows is filled — communicating vessels), or (b) the level
is only shared between cells that touch (side by side: equal; on top of each other: the lower one is filled when the upper
one is).  puzz.link offers both as a variant switch.  `solve_aquarium` implements (b); `rule_check` follows the module and
implements (b) as well; `rule_check_whole_tank` implements (a) and is used only to exhibit instances where the readings differ
(`reading_differs`).  A disagreement that rests only on this reading is not a violation.
"""
import itertools

NAME = "aquarium"
# The theorem (and LEAN_CMD) are about the program REPAIRED for D17 (block_id table with `height` rows); on the unrepaired
# source every instance with height > width raises IndexError (rule differential + program correspondence flag exactly those).
# The driver also answers `puz_aquarium_asis` with the model of the unrepaired source.
STATUS = "theorem"
THEOREMS = ["Cspuz.C11.Aquarium.program_iff_rules", "Cspuz.C11.Aquarium.total"]
LEAN_FILE = "C11_Aquarium"
LEAN_CMD = "puz_aquarium"

SHAPES = [(1, 1), (1, 2), (2, 1), (1, 3), (3, 1), (1, 4), (4, 1), (2, 2), (2, 3), (3, 2), (2, 4), (4, 2), (3, 3), (3, 4), (4, 3)]


def _random_partition(rng, h, w):
    lab = {(y, x): y * w + x for y in range(h) for x in range(w)}
    pairs = [((y, x), (y + 1, x)) for y in range(h - 1) for x in range(w)] + [((y, x), (y, x + 1)) for y in range(h) for x in range(w - 1)]
    rng.shuffle(pairs)
    k = rng.randint(0, len(pairs))
    for a, b in pairs[:k]:
        la, lb = lab[a], lab[b]
        if la != lb and rng.random() < 0.8:
            for c in lab:
                if lab[c] == lb:
                    lab[c] = la
    groups = {}
    for c in sorted(lab):
        groups.setdefault(lab[c], []).append(list(c))
    blocks = list(groups.values())
    rng.shuffle(blocks)
    for b in blocks:
        if rng.random() < 0.3:
            rng.shuffle(b)
    return blocks


def gen_problem(rng, tier):
    h, w = rng.choice(SHAPES)
    return _gen(rng, h, w)


def extra_program_problems(rng):
    """Larger boards for the program correspondence only (nothing is enumerated there): one non-square medium board and two
    with more than 256 cells (a tall and a wide one); tanks of varied shapes, clues on the rows and columns."""
    from . import _loop
    return [_gen(rng, h, w, mode=rng.choice(["all", "some", "some", "noisy"])) for h, w in _loop.big_shapes(rng)]


def _gen(rng, h, w, mode=None):
    blocks = _random_partition(rng, h, w)
    # a filling that obeys both readings: per tank a level (rows at or below it are filled)
    fill = [[False] * w for _ in range(h)]
    for b in blocks:
        level = rng.randint(0, h)          # rows >= level are filled
        for y, x in b:
            fill[y][x] = y >= level
    if mode is None:
        mode = rng.choice(["none", "all", "some", "some", "noisy"])
    rows = [sum(fill[y]) for y in range(h)]
    cols = [sum(fill[y][x] for y in range(h)) for x in range(w)]
    if mode == "none":
        cr, cc = [-1] * h, [-1] * w
    else:
        keep = 1.0 if mode == "all" else 0.5
        cr = [v if rng.random() < keep else -1 for v in rows]
        cc = [v if rng.random() < keep else -1 for v in cols]
        if mode == "noisy":
            if rng.random() < 0.5:
                cr[rng.randrange(h)] = rng.randint(0, w)
            else:
                cc[rng.randrange(w)] = rng.randint(0, h)
    return {"height": h, "width": w, "blocks": blocks, "clue_row": cr, "clue_col": cc}


def solve_args(problem):
    blocks = [[(y, x) for y, x in b] for b in problem["blocks"]]
    return (problem["height"], problem["width"], blocks, problem["clue_row"], problem["clue_col"]), {}


def keys(problem, result):
    return list(result[0].data)


def answer_space(problem):
    h, w = problem["height"], problem["width"]
    for vals in itertools.product((False, True), repeat=h * w):
        yield list(vals)


def _clues_ok(problem, water):
    h, w = problem["height"], problem["width"]
    for y in range(h):
        if problem["clue_row"][y] >= 0 and sum(1 for x in range(w) if water[y][x]) != problem["clue_row"][y]:
            return False
    for x in range(w):
        if problem["clue_col"][x] >= 0 and sum(1 for y in range(h) if water[y][x]) != problem["clue_col"][x]:
            return False
    return True


def rule_check(problem, answer):
    h, w = problem["height"], problem["width"]
    water = [answer[y * w:(y + 1) * w] for y in range(h)]
    if not _clues_ok(problem, water):
        return False
    for tank in problem["blocks"]:
        cells = {(y, x) for y, x in tank}
        for (y, x) in cells:
            # READING (b): level shared between touching cells only
            if (y, x + 1) in cells and water[y][x] != water[y][x + 1]:
                return False
            if (y + 1, x) in cells and water[y][x] and not water[y + 1][x]:
                return False
    return True


def rule_check_whole_tank(problem, answer):
    """Reading (a): one level per tank."""
    h, w = problem["height"], problem["width"]
    water = [answer[y * w:(y + 1) * w] for y in range(h)]
    if not _clues_ok(problem, water):
        return False
    for tank in problem["blocks"]:
        filled_rows = [y for y, x in tank if water[y][x]]
        if not filled_rows:
            continue
        top = min(filled_rows)
        if any(not water[y][x] for y, x in tank if y >= top):
            return False
    return True


def reading_differs(problem):
    """An answer accepted by reading (b) and rejected by reading (a), or None."""
    for a in answer_space(problem):
        if rule_check(problem, a) and not rule_check_whole_tank(problem, a):
            return a
    return None


def classify(problem, description):
    if problem["height"] > problem["width"] and "IndexError" in description:
        return "height>width:IndexError"
    return "mismatch"


def lean_line(problem):
    def lst(v):
        return "(" + " ".join(str(t) for t in v) + ")"
    blocks = "(" + " ".join("(" + " ".join(lst(c) for c in b) + ")" for b in problem["blocks"]) + ")"
    return "(puz_aquarium %d %d %s %s %s)" % (problem["height"], problem["width"], blocks, lst(problem["clue_row"]), lst(problem["clue_col"]))
