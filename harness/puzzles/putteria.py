"""solve_putteria(height, width, blocks).

Published rules (Putteria, puzz.link):
  1. Write a number into exactly one cell of every room.
  2. The number written into a room equals the size (number of cells) of that room.
  3. Equal numbers do not appear twice in the same row or in the same column.
  4. Cells holding numbers are not orthogonally adjacent.
  5. Cells marked with a cross stay empty (the problem format of this module has no crosses and no pre-filled numbers).

Problem format: `blocks` is the list of rooms, each a list of cells `(y, x)`; the rooms partition the height x width board.
The answer is the Boolean grid `has_number`; the value of a number is determined by rule 2.
Well-formed: every room is non-empty and every cell of the board lies in exactly one room (rooms are normally orthogonally
connected, but no rule depends on that and the generator also produces scattered rooms).
"""
import itertools

NAME = "putteria"
STATUS = "theorem"
THEOREMS = ["Cspuz.C11.Putteria.program_iff_rules", "Cspuz.C11.Putteria.total"]
LEAN_FILE = "C11_Putteria"
LEAN_CMD = "puz_putteria"


def _partition(rng, h, w, nrooms, connected=True):
    cells = [(y, x) for y in range(h) for x in range(w)]
    if not connected:
        ids = [rng.randrange(nrooms) for _ in cells]
        rooms = {}
        for c, i in zip(cells, ids):
            rooms.setdefault(i, []).append(c)
        return list(rooms.values())
    seeds = rng.sample(cells, nrooms)
    bid = {c: i for i, c in enumerate(seeds)}
    while len(bid) < len(cells):
        cand = []
        for (y, x), i in bid.items():
            for dy, dx in ((-1, 0), (1, 0), (0, -1), (0, 1)):
                c = (y + dy, x + dx)
                if 0 <= c[0] < h and 0 <= c[1] < w and c not in bid:
                    cand.append((c, i))
        cand.sort()
        c, i = rng.choice(cand)
        bid[c] = i
    rooms = [[] for _ in range(nrooms)]
    for c in cells:
        rooms[bid[c]].append(c)
    return rooms


SHAPES_QUICK = [(1, 1), (1, 3), (3, 1), (2, 2), (2, 3), (3, 2), (1, 4), (4, 1), (3, 3), (2, 4), (4, 2)]
SHAPES_THOROUGH = SHAPES_QUICK + [(3, 4), (4, 3), (2, 5), (5, 2), (1, 6), (6, 1), (2, 6), (6, 2)]


def gen_problem(rng, tier):
    h, w = rng.choice(SHAPES_QUICK if tier == "quick" else SHAPES_THOROUGH)
    r = rng.random()
    if r < 0.1:
        nrooms = 1                              # one room covering the board
    elif r < 0.2:
        nrooms = h * w                          # every cell its own room (size-1 rooms: all cells numbered -> adjacent)
    else:
        nrooms = rng.randint(1, max(1, (h * w + 1) // 2 + 1))
    nrooms = min(nrooms, h * w)
    return _gen(rng, h, w, nrooms)


def extra_program_problems(rng):
    """Larger boards for the program correspondence only (nothing is enumerated there): one non-square medium board and two
    with more than 256 cells (a tall and a wide one), rooms of 2 to 8 cells on average."""
    from . import _loop
    return [_gen(rng, h, w, rng.randint(h * w // 8, h * w // 2)) for h, w in _loop.big_shapes(rng)]


def _gen(rng, h, w, nrooms):
    rooms = _partition(rng, h, w, nrooms, connected=rng.random() < 0.8)
    for room in rooms:
        if rng.random() < 0.5:
            rng.shuffle(room)                   # cell order inside a room is arbitrary
    rng.shuffle(rooms)
    return {"height": h, "width": w, "blocks": [[[y, x] for (y, x) in room] for room in rooms]}


def solve_args(problem):
    return (problem["height"], problem["width"], [[(y, x) for y, x in room] for room in problem["blocks"]]), {}


def keys(problem, result):
    return list(result[0].data)


def answer_space(problem):
    for vals in itertools.product([False, True], repeat=problem["height"] * problem["width"]):
        yield list(vals)


def rule_check(problem, answer):
    h, w = problem["height"], problem["width"]
    num = {}          # cell -> the number written there
    for room in problem["blocks"]:
        holders = [(y, x) for y, x in room if answer[y * w + x]]
        if len(holders) != 1:                   # rule 1
            return False
        num[holders[0]] = len(room)             # rule 2
    if sum(1 for v in answer if v) != len(num):
        return False                            # a number outside every room (cannot happen on a partition)
    for (y, x), v in num.items():
        for (y2, x2), v2 in num.items():
            if (y, x) >= (y2, x2):
                continue
            if v == v2 and (y == y2 or x == x2):            # rule 3
                return False
            if abs(y - y2) + abs(x - x2) == 1:              # rule 4
                return False
    return True


def classify(problem, description):
    if "raised" in description:
        return "exception"
    return "%dx%d" % (problem["height"], problem["width"])


def lean_line(problem):
    rooms = " ".join("(" + " ".join("(%d %d)" % (y, x) for y, x in room) + ")" for room in problem["blocks"])
    return "(puz_putteria %d %d (%s))" % (problem["height"], problem["width"], rooms)
